"""C20 correspondence: the real ribs.visualize functions (matplotlib artists under the Agg backend) vs the extracted
Viz model, on random archives with asymmetric contents; plus an independent oracle and exact Voronoi geometry checks."""
import copy
import json
import os
import random
import warnings
from fractions import Fraction as F

import numpy as np

import py2v_viz
import py2v_gridviz
from c20_util import (check_voronoi, check_voronoi_poly, clip_polygon_coords, color_ok, colorbar_clim, fr, frl, markers_data, poly_data, quadmesh_data,
                      scatter_data)
from common import CORPUS, err_code

CONFIG = {
    "cone": ["Base/ListUtil.v", "Base/MixedRadixViz.v", "Model/Store.v", "Model/Viz.v", "Proofs/VizProofs.v",
             "Properties/C20.v", "Model/VizPoly.v", "Proofs/VizPolyProofs.v", "Generated/VizPolyGen.v", "Refine/VizPolyRefine.v",
             "Properties/C20Poly.v", "Model/GridVizFacts.v", "Generated/GridVizGen.v", "Refine/GridVizRefine.v"],
    "extra_property_files": ["Refine/VizPolyRefine.v", "Properties/C20Poly.v", "Refine/GridVizRefine.v"],
    "trusted": ["Model/Viz.v describes WHAT each ribs.visualize function hands to matplotlib (arrays, coordinates, offsets, "
                "limits), not how matplotlib rasterises it; matplotlib's ScalarMappable/QuadMesh/PathCollection rendering of "
                "(array, clim, cmap) is trusted",
                "scipy.spatial.Voronoi (Qhull) and shapely clipping are external: their output is checked geometrically by "
                "the harness on every observed call (exact rational arithmetic on the drawn vertices), not proved",
                "harness/c20_util.py artist extraction (QuadMesh.get_array/get_coordinates/get_clim, PathCollection offsets, "
                "PolyCollection paths/facecolors, Line2D data, colorbar mappable)"],
    "level_text": "PARTIAL. Theorems in coq/Properties/C20.v quantify over every grid shape, every listing of elites "
                  "(duplicate-free indices in range), every centroid list, every option setting of the Viz model: the (y,x) colour "
                  "matrix holds exactly the objective of the elite whose index is ravel[x;y] and is blank elsewhere (through the "
                  "mixed-radix inverse lemmas), transposition is the matrix transpose with swapped boundaries/limits/offsets, the "
                  "CVT 1-D inverse index really inverts the centroid sort for every centroid order, default colour limits are the "
                  "min/max of the stored objectives and explicit ones override, parallel axes preserve the relative position on each "
                  "axis, a permuted data frame gives the same heat map, and no plotting call changes archive or frame. The model is "
                  "tied to ribs/visualize/*.py by a differential run against the matplotlib artists on every run. "
                  "coq/Properties/C20Poly.v: for every Voronoi diagram, every set of skipped regions and every way a clip polygon "
                  "splits regions, the 2-D CVT heat map hands PolyCollection exactly one colour per polygon -- the colour of the "
                  "region the polygon is a piece of, blank for an empty cell -- and each drawn region contributes exactly its pieces; "
                  "the loop body these theorems are about is re-translated from the source on every run (harness/py2v_viz.py -> "
                  "Generated/VizPolyGen.v, Refine/VizPolyRefine.v: gen_body = model_body).",
    "level_note": "partial: the GEOMETRY of the Voronoi regions of the 2-D CVT heat map (scipy/Qhull) and of their pieces after shapely "
                  "clipping is NOT modelled or proved (how many polygons and colours each region contributes, and in which order, is: "
                  "Model/VizPoly.v); "
                  "the model fixes which site gets which objective/colour value, and the harness checks on every generated case, "
                  "with exact arithmetic, that each drawn polygon contains exactly its own centroid, lies in that centroid's nearest-"
                  "neighbour region, that polygons cover the plot (area / sample points) and carry cmap(norm(objective)) or the blank "
                  "colour. Floating-point arithmetic of midpoints / +-0.01 margins / axis normalisation is modelled exactly over Q and "
                  "compared up to rounding (1e-12 relative; 1e-6 for float32 archives); copied values (objectives, measures, "
                  "boundaries, limits) are compared exactly. Plotting an EMPTY listing with default limits is outside the property "
                  "(np.min raises ValueError; the model mirrors that). No axioms.",
    "technique": "Rocq/Coq proof over an executable Gallina model + model-vs-implementation correspondence run",
    "design_ref": "DESIGN.md section 5, C20",
}

KINDS = {"grid": 0, "cvt": 1, "sliding": 2, "proximity": 3, "parallel": 4}
OPT_DEFAULTS = {"df": None, "df_seed": 0, "transpose": False, "vmin": None, "vmax": None, "sort": False, "order": None,
                "labels": False, "lines": False, "clip": False, "cbar": False, "cmap": "magma", "bounds": None}


# ---------------------------------------------------------------------------------------------
# generators
def gen_objectives(rng, n):
    """n DISTINCT objectives (so that a wrong cell-to-colour assignment is visible)"""
    mode = rng.choice(["lattice", "lattice", "wild", "int", "close"])
    if mode == "close":
        # distinct objectives that are equal up to np.isclose's default tolerances (tiny around 0, or huge with unit steps)
        # (all of them float32 values, like the other modes: the archive may be a float32 one)
        if rng.random() < 0.5:
            return [2.0 ** -30 * k for k in rng.sample(range(1, 4 * n + 4), n)]
        return [2.0 ** 30 + 128.0 * k for k in rng.sample(range(0, 4 * n + 4), n)]
    if mode == "lattice":
        base = rng.choice([-3.0, 0.0, 0.25, 10.0, -100.5])
        step = rng.choice([0.125, 0.5, 1.0, 3.0])
        ks = rng.sample(range(0, max(64, 2 * n)), n)
        return [base + step * k for k in ks]
    if mode == "int":
        return [float(k) for k in rng.sample(range(-n - 5, 2 * n + 5), n)]
    out = set()
    while len(out) < n:
        out.add(float(np.float32(rng.uniform(-50, 50))))
    out = list(out)
    rng.shuffle(out)
    return out


def gen_ranges(rng, m):
    out = []
    for _ in range(m):
        lo = rng.choice([-2.5, 0.0, 1.0, 10.0, -8.0])
        w = rng.choice([0.5, 1.0, 2.0, 4.0, 8.0]) if rng.random() < 0.6 else rng.choice([3.0, 7.5, 0.3, 12.0])
        out.append([lo, lo + w])
    if m >= 2 and out[0] == out[1]:
        out[1] = [out[1][0] + 1.0, out[1][1] + 3.0]  # asymmetric axes
    return out


def pick_fill(rng, cells):
    f = rng.choice(["empty", "one", "some", "some", "some", "some", "full"])
    if f == "empty":
        return f, []
    if f == "one":
        return f, [rng.randrange(cells)]
    if f == "full":
        c = list(range(cells))
        rng.shuffle(c)
        return f, c
    k = rng.randint(1, max(1, cells - 1))
    return f, rng.sample(range(cells), k)


def gen_limits(rng, objs, opts):
    if not objs:
        if rng.random() < 0.6:
            opts["vmin"], opts["vmax"] = -1.0, 2.5
        return
    lo, hi = min(objs), max(objs)
    span = (hi - lo) if hi > lo else 1.0
    r = rng.random()
    if r < 0.5:
        return
    if r < 0.65:
        opts["vmin"] = lo - 1.5
    elif r < 0.8:
        opts["vmax"] = hi + 2.0
    elif r < 0.95:
        opts["vmin"], opts["vmax"] = lo + 0.25 * span, hi + 0.5 * span  # clips some objectives
    else:
        opts["vmin"] = opts["vmax"] = lo  # degenerate explicit range


def gen_common_opts(rng, objs, allow_transpose=True):
    o = dict(OPT_DEFAULTS)
    o["df"] = rng.choice([None, None, None, "same", "shuffled", "modified", "subset", "plain", "counts"])
    o["df_seed"] = rng.randrange(1000)
    o["df_on_empty"] = o["df"] is not None and rng.random() < 0.3
    o["transpose"] = allow_transpose and rng.random() < 0.5
    o["pre_plot"] = allow_transpose and rng.random() < 0.25
    o["cbar"] = rng.random() < 0.25
    o["cmap"] = rng.choice(["magma", "viridis", "listed"])
    # explicit limits are chosen relative to the objectives that will actually be DRAWN (the "modified" frame carries a custom metric
    # in its objective column): a user-supplied vmin above the largest drawn objective is an inconsistent request that matplotlib
    # rightly rejects, not a property violation
    drawn = [-0.5 * x + 1.25 + 0.001 * k for k, x in enumerate(objs)] if o["df"] == "modified" else objs
    if o["df"] == "modified" and drawn:
        drawn = drawn + [min(drawn) - 0.001 * len(drawn), max(drawn) + 0.001 * len(drawn)]   # row order of data() is not known here
    if o["df"] == "counts":
        drawn = [float(1 + 3 * k) for k in range(len(objs))]      # an INTEGER-typed custom metric (visit counts) in the objective column
    gen_limits(rng, drawn, o)
    return o


def unravel(dims, i):
    g = []
    for d in reversed(dims):
        g.append(i % d)
        i //= d
    return g[::-1]


def cell_point(rng, dims, ranges, cell):
    g = unravel(dims, cell)
    return [lo + (gi + rng.choice([0.25, 0.5, 0.75, 0.3, 0.6])) * (hi - lo) / d for gi, d, (lo, hi) in zip(g, dims, ranges)]


def gen_grid(rng, tier):
    ndim = rng.choice([1, 2, 2, 2])
    big = 12 if tier == "thorough" else 7
    dims = [rng.randint(1, big) for _ in range(ndim)]
    if ndim == 2 and dims[0] == dims[1] and rng.random() < 0.8:
        dims[1] = dims[0] % big + 1
    ranges = gen_ranges(rng, ndim)
    cells = int(np.prod(dims))
    fill, chosen = pick_fill(rng, cells)
    extra = [rng.choice(chosen) for _ in range(rng.randint(0, 3))] if chosen else []
    objs = gen_objectives(rng, len(chosen) + len(extra))
    adds = [[cell_point(rng, dims, ranges, c), ob] for c, ob in zip(chosen + extra, objs)]
    rng.shuffle(adds)
    opts = gen_common_opts(rng, objs, allow_transpose=(ndim == 2))
    case = {"kind": "grid", "arch": {"type": "grid", "dims": dims, "ranges": ranges, "dtype": rng.choice(["float64", "float64", "float32"])},
            "adds": adds, "batch": rng.choice([1, 3, 1000]), "fill": fill, "opts": opts}
    if adds and rng.random() < 0.3:
        # CMA-MAE archive in which elites (the best one included) are later REPLACED BY WORSE solutions: the range of the stored
        # objectives is then smaller than the running statistics (stats.obj_max) suggest
        case["arch"]["cma"] = True
        case["batch"] = 1
        best = max(adds, key=lambda x: x[1])
        for a in [best] + [rng.choice(adds) for _ in range(rng.randint(0, 2))]:
            case["adds"].append([list(a[0]), a[1] - rng.choice([0.5, 1.0, 3.25])])
        # explicit colour limits must stay consistent with what can end up stored (every objective submitted, replacements included)
        case["opts"] = gen_common_opts(rng, [x[1] for x in case["adds"]], allow_transpose=(ndim == 2))
    return case


def gen_centroids(rng, n, ranges):
    pts = set()
    while len(pts) < n:
        pts.add(tuple(round(lo + (hi - lo) * rng.uniform(0.03, 0.97), 6) for lo, hi in ranges))
    pts = list(pts)
    rng.shuffle(pts)
    # 1-D: distinct coordinates are guaranteed by the set; 2-D: generic position with probability 1
    return [list(p) for p in pts]


def gen_cvt(rng, tier):
    ndim = rng.choice([1, 2, 2])
    n = rng.choice([1, 2, 3, 4, 5, 6, 8, 11] + ([20, 40] if tier == "thorough" else []))
    ranges = gen_ranges(rng, ndim)
    if ndim == 2 and rng.random() < 0.3:
        ranges[1] = list(ranges[0])      # both measures share one range (swapping the axes leaves the bounds unchanged)
    cents = gen_centroids(rng, n, ranges)
    if ndim == 1 and rng.random() < 0.35:
        # centroids exactly ON the archive's bounds (np.linspace(lo, hi, n) as custom centroids does that)
        i0 = rng.randrange(n)
        cents[i0] = [ranges[0][0]]
        if n >= 2 and rng.random() < 0.6:
            cents[(i0 + 1 + rng.randrange(n - 1)) % n] = [ranges[0][1]]
    fill, chosen = pick_fill(rng, n)
    objs = gen_objectives(rng, len(chosen))
    adds = [[list(cents[c]), ob] for c, ob in zip(chosen, objs)]
    opts = gen_common_opts(rng, objs, allow_transpose=(ndim == 2))
    opts["lines"] = rng.random() < 0.4      # plot_centroids
    opts["clip"] = ndim == 2 and rng.random() < 0.6
    if ndim == 2 and rng.random() < 0.3:
        # a user-supplied, hole-free, mostly non-convex clip polygon (cuts Voronoi regions into several pieces)
        opts["clip"] = {"poly": rng.choice(["slot", "slot", "comb", "hslot", "ell", "tri"])}
    if ndim == 2:
        opts["cbar"] = rng.random() < 0.5   # the colour limits of the 2-D plot are only visible on the colour bar
    return {"kind": "cvt", "arch": {"type": "cvt", "ranges": ranges, "centroids": cents, "dtype": rng.choice(["float64", "float64", "float32"])},
            "adds": adds, "batch": rng.choice([1, 1000]), "fill": fill, "opts": opts}


def gen_sliding(rng, tier):
    dims = [rng.randint(1, 6), rng.randint(1, 6)]
    if dims[0] == dims[1]:
        dims[1] = dims[0] % 6 + 1
    ranges = gen_ranges(rng, 2)
    n = rng.choice([0, 1, 2, 5, 9, 17])
    objs = gen_objectives(rng, n)
    adds = [[[lo + (hi - lo) * rng.uniform(0.0, 1.0) ** rng.choice([1, 2]) for lo, hi in ranges], ob] for ob in objs]
    opts = gen_common_opts(rng, objs)
    opts["lines"] = rng.random() < 0.6      # boundary_lw > 0
    return {"kind": "sliding", "arch": {"type": "sliding", "dims": dims, "ranges": ranges, "remap": rng.choice([2, 3, 5, 100]),
                                        "buffer": rng.choice([4, 16, 1000])},
            "adds": adds, "batch": rng.choice([1, 2, 1000]), "fill": "n%d" % n, "opts": opts}


def gen_proximity(rng, tier):
    n = rng.choice([0, 1, 2, 4, 8, 15])
    ranges = gen_ranges(rng, 2)
    objs = gen_objectives(rng, n)
    adds = [[[lo + (hi - lo) * rng.uniform(0, 1) for lo, hi in ranges], ob] for ob in objs]
    opts = gen_common_opts(rng, objs)
    if rng.random() < 0.3:
        opts["bounds"] = [[r[0] - 0.5 for r in ranges], [r[1] + 0.25 for r in ranges]]
    return {"kind": "proximity", "arch": {"type": "proximity", "k": rng.choice([1, 2, 5]), "threshold": rng.choice([0.0, 0.05, 0.5])},
            "adds": adds, "batch": rng.choice([1, 3, 1000]), "fill": "n%d" % n, "opts": opts}


def gen_parallel(rng, tier):
    m = rng.choice([1, 2, 3, 3, 4, 5])
    dyadic = rng.random() < 0.5
    if dyadic:  # every floating-point operation of the normalisation is exact
        ranges = []
        for _ in range(m):
            lo = rng.choice([-2.0, 0.0, 0.5, 1.0, -0.25, 8.0])
            ranges.append([lo, lo + rng.choice([0.5, 1.0, 2.0, 4.0, 8.0])])
    else:
        ranges = gen_ranges(rng, m)
    dims = [rng.randint(1, 4) for _ in range(m)]
    cells = int(np.prod(dims))
    fill, chosen = pick_fill(rng, cells)
    chosen = chosen[:25]
    objs = gen_objectives(rng, len(chosen))
    adds = []
    for c, ob in zip(chosen, objs):
        g = unravel(dims, c)
        meas = []
        for gi, d, (lo, hi) in zip(g, dims, ranges):
            frac = (gi + rng.choice([0.25, 0.5, 0.75])) / d if not dyadic else None
            if dyadic:
                k = rng.randrange(64)
                meas.append(lo + (hi - lo) * k / 64.0)
            else:
                meas.append(lo + (hi - lo) * frac * rng.uniform(0.9, 1.0))
        adds.append([meas, ob])
    opts = gen_common_opts(rng, objs, allow_transpose=False)
    opts["sort"] = rng.random() < 0.5
    opts["cbar"] = rng.random() < 0.4
    r = rng.random()
    if r < 0.45:
        k = rng.randint(1, m)
        opts["order"] = rng.sample(range(m), k) if rng.random() < 0.8 else [rng.randrange(m) for _ in range(k)]
        opts["labels"] = rng.random() < 0.4
    case = {"kind": "parallel", "arch": {"type": "grid", "dims": dims, "ranges": ranges, "dtype": "float64"},
            "adds": adds, "batch": 1000, "fill": fill, "opts": opts}
    if adds and rng.random() < 0.3:
        # CMA-MAE archive whose best elite is later replaced by a worse solution (as in gen_grid): the default colour limits are the range
        # of the STORED objectives, not the running statistics
        case["arch"]["cma"] = True
        case["batch"] = 1
        best = max(adds, key=lambda x: x[1])
        for a in [best] + [rng.choice(adds) for _ in range(rng.randint(0, 2))]:
            taken = {x[1] for x in case["adds"]}
            new_obj = a[1] - rng.choice([0.5, 1.0, 3.25])
            while new_obj in taken:          # equal objectives would make the sorted line order ambiguous
                new_obj -= 0.0625
            case["adds"].append([list(a[0]), new_obj])
        keep = {k: opts[k] for k in ("sort", "cbar", "order", "labels") if k in opts}
        case["opts"] = gen_common_opts(rng, [x[1] for x in case["adds"]], allow_transpose=False)
        case["opts"].update(keep)
    return case


GENS = [("grid", gen_grid, 30), ("cvt", gen_cvt, 30), ("sliding", gen_sliding, 12), ("proximity", gen_proximity, 12),
        ("parallel", gen_parallel, 16)]


def gen_case(rng, tier):
    tot = sum(w for _, _, w in GENS)
    r = rng.randrange(tot)
    for _, g, w in GENS:
        if r < w:
            return g(rng, tier)
        r -= w


def gen_malformed(rng, tier):
    """a frame naming an index outside the archive: int_to_grid_index / fancy indexing must reject it"""
    c = gen_grid(rng, tier) if rng.random() < 0.5 else gen_cvt(rng, tier)
    if c["kind"] == "cvt":
        c["arch"]["ranges"] = c["arch"]["ranges"][:1]
        c["arch"]["centroids"] = [[lo + (hi - lo) * (k + 0.5) / len(c["arch"]["centroids"])] for k, (lo, hi) in
                                  enumerate([c["arch"]["ranges"][0]] * len(c["arch"]["centroids"]))]
        rng.shuffle(c["arch"]["centroids"])
        c["adds"] = [[list(rng.choice(c["arch"]["centroids"])), 1.0 + k] for k in range(2)]
        c["opts"]["transpose"] = False
    elif not c["adds"]:
        c["adds"] = [[cell_point(rng, c["arch"]["dims"], c["arch"]["ranges"], 0), 1.5]]
    c["opts"]["df"] = "bad_index"
    c["opts"]["vmin"], c["opts"]["vmax"] = 0.0, 1.0
    return c


# ---------------------------------------------------------------------------------------------
# running the implementation
def build_archive(case):
    from ribs.archives import CVTArchive, GridArchive, ProximityArchive, SlidingBoundariesArchive
    a = case["arch"]
    if a["type"] == "grid":
        kw = {"learning_rate": 0.5, "threshold_min": -1.0e4} if a.get("cma") else {}
        arch = GridArchive(solution_dim=1, dims=a["dims"], ranges=[tuple(r) for r in a["ranges"]], dtype=np.dtype(a["dtype"]).type, **kw)
    elif a["type"] == "cvt":
        arch = CVTArchive(solution_dim=1, cells=len(a["centroids"]), ranges=[tuple(r) for r in a["ranges"]],
                          custom_centroids=np.array(a["centroids"], dtype=np.float64), dtype=np.dtype(a["dtype"]).type)
    elif a["type"] == "sliding":
        arch = SlidingBoundariesArchive(solution_dim=1, dims=a["dims"], ranges=[tuple(r) for r in a["ranges"]],
                                        remap_frequency=a["remap"], buffer_capacity=a["buffer"])
    elif a["type"] == "proximity":
        arch = ProximityArchive(solution_dim=1, measure_dim=2, k_neighbors=a["k"], novelty_threshold=a["threshold"])
    else:
        raise ValueError(a["type"])
    adds = case["adds"]
    b = max(1, case.get("batch", 1000))
    for s in range(0, len(adds), b):
        chunk = adds[s:s + b]
        sols = np.arange(s, s + len(chunk), dtype=float)[:, None]
        sols[1::2] = np.nan      # solutions are not validated for finiteness and play no role in any plot: a frame row holding a NaN is still an elite
        arch.add(sols, [x[1] for x in chunk], [x[0] for x in chunk])
    return arch


def make_df(archive, opts):
    import pandas as pd
    mode = opts["df"]
    if mode is None:
        return None
    df = archive.data(return_type="pandas")
    if mode == "same":
        return df
    if mode == "shuffled":
        return df.sample(frac=1, random_state=opts["df_seed"])
    if mode == "modified":   # custom metric in the objective column
        df["objective"] = (-0.5 * df["objective"].astype(np.float64) + 1.25 + 0.001 * np.arange(len(df))).astype(df["objective"].dtype)
        return df
    if mode == "counts":
        df["objective"] = (1 + 3 * np.arange(len(df))).astype(np.int64)
        return df
    if mode == "subset":
        return df.iloc[(opts["df_seed"] % 2)::2]
    if mode == "plain":
        return pd.DataFrame(df)
    if mode == "bad_index":
        df = df.copy()
        col = df.columns.get_loc("index")
        df.iloc[0, col] = int(getattr(archive, "cells")) + (opts["df_seed"] % 3)
        return df
    raise ValueError(mode)


def listing_of_archive(archive):
    d = archive.data()
    return [[int(i), fr(o), frl(m)] for i, o, m in zip(d["index"], d["objective"], d["measures"])]


def listing_of_df(df):
    if df is None:
        return None
    mc = sorted([c for c in df.columns if c.startswith("measures_")], key=lambda c: int(c.split("_")[1]))
    idx = df["index"].to_numpy()
    ob = df["objective"].to_numpy()
    ms = df[mc].to_numpy()
    return [[int(idx[k]), fr(ob[k]), frl(ms[k])] for k in range(len(df))]


def geometry_of(archive):
    def arr(name):
        try:
            return frl(np.asarray(getattr(archive, name)).reshape(-1))
        except RuntimeError:
            return []
    dims = [int(d) for d in archive.dims] if hasattr(archive, "dims") else []
    bnds = [frl(b) for b in archive.boundaries] if hasattr(archive, "boundaries") else []
    cents = [frl(c) for c in archive.centroids] if type(archive).__name__ == "CVTArchive" else []
    return [dims, bnds, arr("lower_bounds"), arr("upper_bounds"), cents]


def the_cmap(name):
    import matplotlib
    if name == "listed":   # 97 bins with pairwise distinct colours
        return matplotlib.colors.ListedColormap([((k * 37 % 97) / 96.0, k / 96.0, (k * 11 % 97) / 96.0) for k in range(97)], name="c20listed")
    import matplotlib.pyplot as plt
    return plt.get_cmap(name)


def call_plot(case, archive, df, ax):
    from ribs import visualize as V
    o = case["opts"]
    if o.get("pre_plot") and case["kind"] in ("grid", "cvt", "sliding", "proximity") and ax is not None:
        # the same archive was drawn before, with the axes the other way round: an earlier picture must not influence this one
        import matplotlib.pyplot as plt
        f0, a0 = plt.subplots(figsize=(2, 2))
        try:
            case0 = {"kind": case["kind"], "opts": dict(o, transpose=not o["transpose"], pre_plot=False, cbar=False)}
            call_plot(case0, archive, df, a0)
        finally:
            plt.close(f0)
    kw = {"df": df, "cmap": the_cmap(o["cmap"]), "vmin": o["vmin"], "vmax": o["vmax"], "cbar": "auto" if o["cbar"] else None}
    k = case["kind"]
    if k == "grid":
        V.grid_archive_heatmap(archive, ax, transpose_measures=o["transpose"], **kw)
    elif k == "cvt":
        clip = o["clip"]
        if isinstance(clip, dict):
            import shapely
            lb, ub = [float(v) for v in archive.lower_bounds], [float(v) for v in archive.upper_bounds]
            if o["transpose"]:
                lb, ub = lb[::-1], ub[::-1]
            clip = shapely.Polygon(clip_polygon_coords(clip, ((lb[0], ub[0]), (lb[1], ub[1]))))
        V.cvt_archive_heatmap(archive, ax, transpose_measures=o["transpose"], clip=clip, plot_centroids=o["lines"], **kw)
    elif k == "sliding":
        V.sliding_boundaries_archive_heatmap(archive, ax, transpose_measures=o["transpose"], boundary_lw=0.5 if o["lines"] else 0, **kw)
    elif k == "proximity":
        b = o["bounds"]
        V.proximity_archive_plot(archive, ax, transpose_measures=o["transpose"],
                                 lower_bounds=None if b is None else np.array(b[0]), upper_bounds=None if b is None else np.array(b[1]), **kw)
    elif k == "parallel":
        order = o["order"]
        if order is not None and o["labels"]:
            order = [(int(c), "ax%d_%d" % (j, c)) for j, c in enumerate(order)]
        V.parallel_axes_plot(archive, ax, measure_order=order, sort_archive=o["sort"], **kw)
    else:
        raise ValueError(k)


def raw_snapshot(archive, df):
    d = archive.data()
    snap = {k: np.array(v, copy=True) for k, v in d.items()}
    for name in ("lower_bounds", "upper_bounds", "centroids"):
        try:
            snap["_" + name] = np.array(getattr(archive, name), copy=True)
        except (RuntimeError, AttributeError):
            pass
    if hasattr(archive, "boundaries"):
        for i, b in enumerate(archive.boundaries):
            snap["_boundaries%d" % i] = np.array(b, copy=True)
    return snap, (None if df is None else df.copy(deep=True))


def raw_same(a, b):
    sa, da = a
    sb, db = b
    if set(sa) != set(sb):
        return False, True
    def same(x, y):      # NaN entries (solutions are not validated for finiteness) are equal to themselves here
        return np.array_equal(x, y, equal_nan=True) if x.dtype.kind == "f" else np.array_equal(x, y)
    arch_ok = all(sa[k].shape == sb[k].shape and sa[k].dtype == sb[k].dtype and same(sa[k], sb[k]) for k in sa)
    if da is None:
        return arch_ok, True
    frame_ok = (type(da) is type(db) and list(da.columns) == list(db.columns) and list(da.index) == list(db.index)
                and da.equals(db))
    return arch_ok, frame_ok


def observe(case, fig, ax):
    k = case["kind"]
    o = case["opts"]
    onedim = len(case["arch"]["ranges"]) == 1 if "ranges" in case["arch"] else False
    obs = {"xlim": tuple(float(v) for v in ax.get_xlim()), "ylim": tuple(float(v) for v in ax.get_ylim())}
    if k == "grid" or (k == "cvt" and onedim):
        obs.update(quadmesh_data(ax))
        obs["markers"] = markers_data(ax)
    elif k == "cvt":
        obs.update(poly_data(ax))
        obs["markers"] = markers_data(ax)
        obs["cbar_clim"] = colorbar_clim(fig)
    elif k in ("sliding", "proximity"):
        obs.update(scatter_data(ax))
    elif k == "parallel":
        obs["lines"] = [{"x": [float(v) for v in l.get_xdata()], "y": [float(v) for v in l.get_ydata()],
                         "rgba": tuple(float(c) for c in __import__("matplotlib").colors.to_rgba(l.get_color()))} for l in ax.lines]
        ncols = len(o["order"]) if o["order"] is not None else len(case["arch"]["ranges"])
        axs = [a for a in fig.axes if getattr(a, "_colorbar", None) is None]
        obs["ylims"] = [tuple(float(v) for v in a.get_ylim()) for a in axs]
        obs["naxes"] = len(axs)
        obs["labels"] = [t.get_text() for t in ax.get_xticklabels()]
        obs["cbar_clim"] = colorbar_clim(fig)
    return obs


def run_impl(case):
    import matplotlib.pyplot as plt
    archive = build_archive(case)
    df = make_df(archive, case["opts"])
    r = {"archive": archive, "geom": geometry_of(archive), "listing": listing_of_archive(archive), "frame": listing_of_df(df)}
    if case["opts"].get("df_on_empty") and df is not None and case["kind"] in ("grid", "cvt"):
        # the frame was saved earlier; the archive handed over only carries the geometry (it is empty now, e.g. cleared or freshly built)
        archive = build_archive(dict(case, adds=[]))
        r["archive"], r["geom"], r["listing"] = archive, geometry_of(archive), listing_of_archive(archive)
    before = raw_snapshot(archive, df)
    fig, ax = plt.subplots()
    plt.subplots(figsize=(2, 2))      # pyplot's CURRENT figure / axes are now another one: everything has to be drawn on the axes that was passed
    try:
        with warnings.catch_warnings():
            warnings.simplefilter("ignore")
            call_plot(case, archive, df, ax)
            r["obs"] = observe(case, fig, ax)
    except Exception as e:  # noqa
        r["obs"] = {"error": err_code(e), "msg": repr(e)[:300]}
    finally:
        plt.close("all")
    r["listing_after"] = listing_of_archive(archive)
    r["frame_after"] = listing_of_df(df)
    r["geom_after"] = geometry_of(archive)
    r["arch_raw_same"], r["frame_raw_same"] = raw_same(before, raw_snapshot(archive, df))
    return r


# ---------------------------------------------------------------------------------------------
# the model side
def sx_listing(l):
    return [[i, ob, list(m)] for i, ob, m in l]


def sx_opts(case):
    o = case["opts"]
    opt = lambda v: [] if v is None else [F(float(v))]  # noqa: E731
    return [o["df"] is not None, o["transpose"], opt(o["vmin"]), opt(o["vmax"]), o["sort"],
            [] if o["order"] is None else [[int(c) for c in o["order"]]], o["lines"],
            [] if o["bounds"] is None else [[[F(float(v)) for v in o["bounds"][0]], [F(float(v)) for v in o["bounds"][1]]]]]


def uq(p):
    return F(p[0], p[1])


def uopt(p):
    return uq(p[0]) if p else None


def upair(p):
    return (uq(p[0]), uq(p[1]))


def run_model(case, r, driver):
    out = driver.call("C20", [KINDS[case["kind"]], r["geom"], sx_listing(r["listing"]),
                              [] if r["frame"] is None else [sx_listing(r["frame"])], sx_opts(case)])
    world = out[-1]
    w = {"listing": [[i, uq(ob), [uq(x) for x in m]] for i, ob, m in world[0]],
         "frame": None if not world[1] else [[i, uq(ob), [uq(x) for x in m]] for i, ob, m in world[1][0]]}
    if out[0] != 0:
        return {"error": out[0], "world": w}
    tag, f = out[1], out[2:-1]
    if tag == 0:
        m = {"tag": "heat", "xb": [uq(x) for x in f[0]], "yb": [uq(x) for x in f[1]], "colors": [[uopt(c) for c in row] for row in f[2]],
             "xlim": upair(f[3]), "ylim": upair(f[4][0]) if f[4] else None, "clim": (uopt(f[5][0]), uopt(f[5][1])),
             "markers": [upair(p) for p in f[6]]}
    elif tag == 1:
        line = lambda p: (uq(p[0]), upair(p[1]))  # noqa: E731
        m = {"tag": "scatter", "offsets": [upair(p) for p in f[0]], "array": [uq(x) for x in f[1]], "vlines": [line(p) for p in f[2]],
             "hlines": [line(p) for p in f[3]], "xlim": upair(f[4]), "ylim": upair(f[5]), "clim": upair(f[6])}
    elif tag == 2:
        m = {"tag": "vor", "sites": [upair(p) for p in f[0]], "obj": [uopt(x) for x in f[1]], "t": [uopt(x) for x in f[2]],
             "xlim": upair(f[3]), "ylim": upair(f[4]), "clim": upair(f[5][0]) if f[5] else None, "markers": [upair(p) for p in f[6]]}
    else:
        m = {"tag": "par", "lines": [[uq(x) for x in l] for l in f[0]], "objs": [uq(x) for x in f[1]], "t": [uq(x) for x in f[2]],
             "ylims": [upair(p) for p in f[3]], "clim": (uopt(f[4][0]), uopt(f[4][1]))}
    m["world"] = w
    return m


# ---------------------------------------------------------------------------------------------
# comparison
def tol_of(case):
    return 1e-6 if case["arch"].get("dtype") == "float32" else 1e-12


def close(a, b, tol):
    """a: float (implementation), b: Fraction (model, exact). tol = 0: exact."""
    if a is None or b is None:
        return a is None and b is None
    if a != a or a in (float("inf"), float("-inf")):
        return False
    if tol == 0:
        return F(a) == b
    return abs(F(a) - b) <= F(tol) * max(1, abs(b))


def close_seq(a, b, tol):
    return len(a) == len(b) and all(close(x, y, tol) for x, y in zip(a, b))


def D(sig, what, impl=None, model=None):
    def js(v):
        if isinstance(v, F):
            return float(v)
        if isinstance(v, (list, tuple)):
            return [js(x) for x in v]
        if isinstance(v, dict):
            return {k: js(x) for k, x in v.items()}
        return v
    return {"sig": sig, "what": what, "impl": js(impl), "model": js(model)}


def sample_points(case, box, n=8):
    rng = random.Random(json.dumps(case["arch"], sort_keys=True))
    (x0, x1), (y0, y1) = box
    pts = [(x0, y0), (x1, y0), (x0, y1), (x1, y1)]
    for _ in range(n):
        pts.append((x0 + (x1 - x0) * F(rng.randrange(1, 1000), 1000), y0 + (y1 - y0) * F(rng.randrange(1, 1000), 1000)))
    return pts


def compare(case, r, m):
    """first disagreement between the artists and the model's picture, or None"""
    obs = r["obs"]
    o = case["opts"]
    # the world after the call
    if r["listing_after"] != m["world"]["listing"] or r["geom_after"] != r["geom"] or not r["arch_raw_same"]:
        return D("world-archive", "the archive changed during plotting (model: unchanged, C20_pure)", r["listing_after"], m["world"]["listing"])
    if r["frame"] is not None and (r["frame_after"] != m["world"]["frame"] or not r["frame_raw_same"]):
        return D("world-frame", "the caller's data frame changed during plotting (model: unchanged, C20_pure)",
                 r["frame_after"], m["world"]["frame"])
    if not stored_of(case, r) and (o["vmin"] is None or o["vmax"] is None):
        # nothing stored and a colour limit left to its default: there is no "range of stored objectives"; np.min raises on an empty
        # array (the model's Err ValueError) but not on an empty pandas column, and a 1-D mesh of blanks autoscales to matplotlib's
        # own default. Outside the property: only purity is compared.
        return None
    if "error" in obs or "error" in m:
        if obs.get("error") != m.get("error"):
            return D("impl-error:%s" % obs.get("error") if "error" in obs else "model-error:%s" % m.get("error"),
                     "implementation %s, model %s" % (obs.get("msg", "draws a picture"), "Err %s" % m["error"] if "error" in m else "draws a picture"),
                     obs.get("error"), m.get("error"))
        return None
    if "artist_error" in obs:
        return D("artists", obs["artist_error"])
    tol = tol_of(case)
    cmap = the_cmap(o["cmap"])
    if m["tag"] == "heat":
        if obs["colors"] != m["colors"]:
            return D("colors", "QuadMesh array (y,x) differs from the model's colour matrix", obs["colors"], m["colors"])
        btol = tol if case["kind"] == "cvt" else 0
        if not close_seq(obs["xb"], m["xb"], btol) or not close_seq(obs["yb"], m["yb"], 0) or not obs["regular"]:
            return D("coords", "QuadMesh coordinates differ from the boundary arrays", [obs["xb"], obs["yb"]], [m["xb"], m["yb"]])
        if not close_seq(obs["xlim"], m["xlim"], 0) or (m["ylim"] is not None and not close_seq(obs["ylim"], m["ylim"], 0)):
            return D("axlim", "axis limits", [obs["xlim"], obs["ylim"]], [m["xlim"], m["ylim"]])
        singular_cb = o["cbar"] and m["clim"][0] is not None and m["clim"][0] == m["clim"][1]  # Colorbar widens a singular norm
        for side in (0, 1):
            if not singular_cb and m["clim"][side] is not None and not close(obs["clim"][side], m["clim"][side], 0):
                return D("clim", "colour limits", obs["clim"], m["clim"])
        if sorted(F(x) for p in obs["markers"] for x in p) != sorted(x for p in m["markers"] for x in p) or \
                [(F(a), F(b)) for a, b in obs["markers"]] != m["markers"]:
            return D("markers", "centroid markers", obs["markers"], m["markers"])
        if obs["cmap"] != cmap.name:
            return D("cmap", "colormap of the mesh", obs["cmap"], cmap.name)
    elif m["tag"] == "scatter":
        got = sorted((F(p[0]), F(p[1]), F(a)) for p, a in zip(obs["offsets"], obs["array"]))
        exp = sorted((p[0], p[1], a) for p, a in zip(m["offsets"], m["array"]))
        if len(obs["offsets"]) != len(obs["array"]) or got != exp:
            return D("offsets", "scatter offsets / colour array differ from (measures, objective) of the stored elites", got, exp)
        segs = sorted(((F(a[0]), F(a[1])), (F(b[0]), F(b[1]))) for a, b in obs["segments"])
        exps = sorted([((x, lim[0]), (x, lim[1])) for x, lim in m["vlines"]] + [((lim[0], y), (lim[1], y)) for y, lim in m["hlines"]])
        if segs != exps:
            return D("lines", "boundary lines", segs, exps)
        ltol = 0
        if case["kind"] == "proximity" and o["bounds"] is None:
            # archive.lower_bounds -/+ 0.01 is one rounded operation in the archive's dtype
            ltol = 1e-12 if r["archive"].lower_bounds.dtype == np.float64 else 1e-6
        if not close_seq(obs["xlim"], m["xlim"], ltol) or not close_seq(obs["ylim"], m["ylim"], ltol):
            return D("axlim", "axis limits", [obs["xlim"], obs["ylim"]], [m["xlim"], m["ylim"]])
        if not (o["cbar"] and m["clim"][0] == m["clim"][1]) and not close_seq(obs["clim"], m["clim"], 0):
            return D("clim", "colour limits", obs["clim"], m["clim"])
        if obs["cmap"] != cmap.name:
            return D("cmap", "colormap of the scatter", obs["cmap"], cmap.name)
    elif m["tag"] == "vor":
        if not close_seq(obs["xlim"], m["xlim"], 0) or not close_seq(obs["ylim"], m["ylim"], 0):
            return D("axlim", "axis limits", [obs["xlim"], obs["ylim"]], [m["xlim"], m["ylim"]])
        box = (m["xlim"], m["ylim"])
        if isinstance(o["clip"], dict):
            msg = check_voronoi_poly(m["sites"], m["t"], obs["polys"], obs["facecolors"], cmap, box, o["clip"], sample_points(case, box, 40))
        else:
            msg = check_voronoi(m["sites"], m["t"], obs["polys"], obs["facecolors"], cmap, box, o["clip"], sample_points(case, box))
        if msg:
            return D("voronoi", msg, None, {"sites": m["sites"], "t": m["t"], "obj": m["obj"]})
        if [(F(a), F(b)) for a, b in obs["markers"]] != m["markers"]:
            return D("markers", "centroid markers", obs["markers"], m["markers"])
        if o["cbar"] and m["clim"] is not None and (obs["cbar_clim"] is None or not close_seq(obs["cbar_clim"], m["clim"], tol)):
            return D("clim", "colour limits on the colour bar", obs["cbar_clim"], m["clim"])
    else:
        if len(obs["lines"]) != len(m["lines"]):
            return D("lines", "number of lines", len(obs["lines"]), len(m["lines"]))
        ncols = len(m["ylims"])
        ptol = 1e-9
        for k, (li, lm) in enumerate(zip(obs["lines"], m["lines"])):
            if li["x"] != [float(j) for j in range(ncols)] or not close_seq(li["y"], lm, ptol) or not close(li["y"][0], lm[0], 0):
                return D("lines", "line %d: y data differs from the per-axis normalisation of the elite's measures" % k, li, lm)
            if not color_ok(cmap, m["t"][k], li["rgba"], 3):
                return D("linecolor", "line %d: colour is not cmap(norm(objective))" % k, li["rgba"], m["t"][k])
        if obs["naxes"] != ncols or any(not close_seq(a, b, 0) for a, b in zip(obs["ylims"], m["ylims"])):
            return D("axlim", "per-axis y limits", obs["ylims"], m["ylims"])
        exp_labels = (["ax%d_%d" % (j, c) for j, c in enumerate(o["order"])] if o["order"] is not None and o["labels"] else
                      ["measure_%d" % c for c in (o["order"] if o["order"] is not None else range(ncols))])
        if obs["labels"] != exp_labels:
            return D("labels", "axis labels", obs["labels"], exp_labels)
        if o["cbar"] and m["clim"][0] is not None and m["clim"][1] is not None and m["clim"][0] != m["clim"][1] and (
                obs["cbar_clim"] is None or not close_seq(obs["cbar_clim"], m["clim"], 0)):
            return D("clim", "colour limits on the colour bar", obs["cbar_clim"], m["clim"])
    return None


def evaluate(case, driver):
    r = run_impl(case)
    m = run_model(case, r, driver)
    d = compare(case, r, m)
    if d is None:
        orc = oracle(case, r)
        if orc is not None:
            d = D("oracle", "model and implementation agree but the property's own statement fails: " + orc)
    return r, m, d


# ---------------------------------------------------------------------------------------------
# oracle: the property's own statement on the implementation's outputs, without the model
def stored_of(case, r):
    return r["frame"] if case["opts"]["df"] is not None else r["listing"]


def expected_limits(o, objs):
    lo = F(float(o["vmin"])) if o["vmin"] is not None else (min(objs) if objs else None)
    hi = F(float(o["vmax"])) if o["vmax"] is not None else (max(objs) if objs else None)
    return lo, hi


def oracle(case, r):
    o = case["opts"]
    k = case["kind"]
    obs = r["obs"]
    archive = r["archive"]
    stored = stored_of(case, r)
    if r["listing_after"] != r["listing"] or r["geom_after"] != r["geom"] or not r["arch_raw_same"]:
        return "plotting modified the archive"
    if r["frame"] is not None and (r["frame_after"] != r["frame"] or not r["frame_raw_same"]):
        return "plotting modified the caller's data frame (row order / values before != after)"
    if o["df"] == "bad_index":
        return None if "error" in obs else "a frame naming a cell outside the archive was drawn"
    if "error" in obs:
        if not stored:
            return None   # nothing stored: outside the property
        return "plotting a valid non-empty archive raised %s" % obs["msg"]
    if "artist_error" in obs:
        return obs["artist_error"]
    by_index = {}
    for i, ob, ms in stored:
        by_index[i] = ob   # frames may repeat an index: numpy assignment keeps the last
    objs = [ob for _, ob, _ in stored]
    lo, hi = expected_limits(o, objs)
    tr = o["transpose"]

    def clim_bad(clim):
        if o["cbar"] and lo == hi:
            return False   # matplotlib's Colorbar widens a singular norm
        return (lo is not None and F(clim[0]) != lo) or (hi is not None and F(clim[1]) != hi)

    if k == "grid" or (k == "cvt" and len(case["arch"]["ranges"]) == 1):
        colors = obs["colors"]
        if k == "grid":
            bnds = [[float(v) for v in b] for b in archive.boundaries]
            if len(bnds) == 1:
                if obs["xb"] != bnds[0] or len(colors) != 1 or len(colors[0]) != len(bnds[0]) - 1:
                    return "mesh x coordinates are not the archive's boundaries"
                for x in range(len(bnds[0]) - 1):
                    idx = int(archive.index_of_single([(bnds[0][x] + bnds[0][x + 1]) / 2]))
                    if colors[0][x] != by_index.get(idx):
                        return "cell %d is drawn as %s but stores %s" % (x, colors[0][x], by_index.get(idx))
            else:
                bx, by = (bnds[1], bnds[0]) if tr else (bnds[0], bnds[1])
                if obs["xb"] != bx or obs["yb"] != by:
                    return "mesh coordinates are not the archive's boundaries%s" % (" (swapped for transpose_measures)" if tr else "")
                if len(colors) != len(by) - 1 or any(len(row) != len(bx) - 1 for row in colors):
                    return "colour matrix has the wrong shape"
                for gx in range(len(bnds[0]) - 1):
                    for gy in range(len(bnds[1]) - 1):
                        idx = int(archive.index_of_single([(bnds[0][gx] + bnds[0][gx + 1]) / 2, (bnds[1][gy] + bnds[1][gy + 1]) / 2]))
                        drawn = colors[gx][gy] if tr else colors[gy][gx]
                        if drawn != by_index.get(idx):
                            return "cell (%d,%d) is drawn as %s but stores %s" % (gx, gy, None if drawn is None else float(drawn),
                                                                                  None if by_index.get(idx) is None else float(by_index[idx]))
        else:
            xb = obs["xb"]
            cents = [float(c[0]) for c in archive.centroids]
            if len(colors) != 1 or len(colors[0]) != len(cents) or len(xb) != len(cents) + 1:
                return "1-D CVT heat map does not have one interval per centroid"
            if xb[0] != float(archive.lower_bounds[0]) or xb[-1] != float(archive.upper_bounds[0]) or any(a > b for a, b in zip(xb, xb[1:])):
                return "interval boundaries are not ascending from lower to upper bound"
            srt = sorted(range(len(cents)), key=lambda c: cents[c])
            for j in range(len(cents)):
                c = srt[j]
                if not (xb[j] <= cents[c] <= xb[j + 1]):
                    return "interval %d does not contain the %d-th smallest centroid" % (j, j)
                if 0 < j and abs(xb[j] - (cents[srt[j - 1]] + cents[c]) / 2) > 1e-6 * max(1.0, abs(xb[j])):
                    return "boundary %d is not the midpoint of the neighbouring centroids" % j
                if colors[0][j] != by_index.get(c):
                    return "interval %d (centroid %d) is drawn as %s but stores %s" % (j, c, colors[0][j], by_index.get(c))
        if objs and clim_bad(obs["clim"]):
            return "colour limits %s are not %s" % (obs["clim"], (float(lo), float(hi)))
    elif k == "cvt":
        cents = [(fr(c[0]), fr(c[1])) for c in archive.centroids]
        sites = [(c[1], c[0]) for c in cents] if tr else cents
        lb, ub = frl(archive.lower_bounds), frl(archive.upper_bounds)
        if tr:
            lb, ub = lb[::-1], ub[::-1]
        drawn = {i: ob for i, ob in by_index.items() if i < len(sites)}
        lo, hi = expected_limits(o, list(drawn.values()))
        t = [None] * len(sites)
        if lo is not None and hi is not None:
            if lo == hi:
                lo, hi = lo - F(0.01), hi + F(0.01)
            for i, ob in drawn.items():
                t[i] = min(max((ob - lo) / (hi - lo), F(0)), F(1))
        box = ((lb[0], ub[0]), (lb[1], ub[1]))
        if isinstance(o["clip"], dict):
            msg = check_voronoi_poly(sites, t, obs["polys"], obs["facecolors"], the_cmap(o["cmap"]), box, o["clip"], sample_points(case, box, 40))
        else:
            msg = check_voronoi(sites, t, obs["polys"], obs["facecolors"], the_cmap(o["cmap"]), box, o["clip"], sample_points(case, box))
        if msg:
            return msg
    elif k in ("sliding", "proximity"):
        got = sorted((F(p[0]), F(p[1]), F(a)) for p, a in zip(obs["offsets"], obs["array"]))
        exp = sorted(((ms[1], ms[0], ob) if tr else (ms[0], ms[1], ob)) for _, ob, ms in stored)
        if got != exp:
            return "markers are not at (measures, objective) of the stored elites%s" % (" with swapped axes" if tr else "")
        if objs and clim_bad(obs["clim"]):
            return "colour limits %s are not %s" % (obs["clim"], (float(lo), float(hi)))
        if k == "sliding":
            b = [[float(v) for v in bb] for bb in archive.boundaries]
            lb, ub = [float(v) for v in archive.lower_bounds], [float(v) for v in archive.upper_bounds]
            xa, ya = (1, 0) if tr else (0, 1)
            exps = []
            if o["lines"]:
                exps = [((x, lb[ya]), (x, ub[ya])) for x in b[xa]] + [((lb[xa], y), (ub[xa], y)) for y in b[ya]]
            if sorted(obs["segments"]) != sorted(exps):
                return "boundary lines are not the archive's boundaries spanning the other axis' bounds"
    else:
        m_ = len(case["arch"]["ranges"])
        cols = o["order"] if o["order"] is not None else list(range(m_))
        lb, ub = [float(archive.lower_bounds[c]) for c in cols], [float(archive.upper_bounds[c]) for c in cols]
        rows = sorted(stored, key=lambda e: e[1]) if o["sort"] else stored
        if len(obs["lines"]) != len(rows):
            return "%d lines for %d elites" % (len(obs["lines"]), len(rows))
        for li, (_, ob, ms) in zip(obs["lines"], rows):
            for j, c in enumerate(cols):
                back = (li["y"][j] - lb[0]) / (ub[0] - lb[0]) * (ub[j] - lb[j]) + lb[j]   # height on axis 0 -> value on axis j
                if abs(back - float(ms[c])) > 1e-7 * max(1.0, abs(ub[j]), abs(lb[j])):
                    return "a line crosses axis %d at %r, the elite's measure %d is %r" % (j, back, c, float(ms[c]))
            if lo is not None and hi is not None and lo < hi:
                t = min(max((ob - lo) / (hi - lo), F(0)), F(1))
                if not color_ok(the_cmap(o["cmap"]), t, li["rgba"], 3):
                    return "a line is not coloured cmap(norm(objective))"
        if obs["ylims"] != [(a, b) for a, b in zip(lb, ub)]:
            return "axis limits are not the archive's bounds of the requested measures"
    return None


# ---------------------------------------------------------------------------------------------
def nontrivial(case, r):
    stored = stored_of(case, r)
    if len(stored) < 2 or len({ob for _, ob, _ in stored}) < 2:
        return False
    k = case["kind"]
    if k == "grid":
        d = case["arch"]["dims"]
        return len(stored) < int(np.prod(d)) and (len(d) == 1 or d[0] != d[1])
    if k == "cvt":
        return len(stored) < len(case["arch"]["centroids"])
    return True


def classify(case, r, d):
    o = case["opts"]
    sig = d["sig"]
    stored = stored_of(case, r)
    kind = "correspondence"
    if sig == "world-frame" and case["kind"] == "parallel" and o["sort"]:
        kind = "parallel-axes-sorts-caller-frame"
    elif sig.startswith("impl-error") and case["kind"] == "grid" and len(case["arch"]["dims"]) == 1 and len(stored) == 1:
        kind = "grid1d-single-elite-squeeze"
    elif sig.startswith("impl-error") and case["kind"] == "cvt" and len(case["arch"]["ranges"]) == 1 and len(case["arch"]["centroids"]) == 1:
        kind = "cvt1d-single-cell-squeeze"
    return {"kind": kind, "plot": case["kind"]}


def shrink(case, driver, sig, want_oracle):
    def fails(c):
        try:
            r, _, d = evaluate(c, driver)
            return d is not None and d["sig"] == sig and (not want_oracle or oracle(c, r) is not None)
        except Exception:  # noqa
            return False
    cur = copy.deepcopy(case)
    i = 0
    while i < len(cur["adds"]):
        cand = copy.deepcopy(cur)
        del cand["adds"][i]
        if fails(cand):
            cur = cand
        else:
            i += 1
    for key, dv in OPT_DEFAULTS.items():
        if cur["opts"].get(key) != dv:
            cand = copy.deepcopy(cur)
            cand["opts"][key] = dv
            if fails(cand):
                cur = cand
    if cur["arch"].get("dtype") == "float32":
        cand = copy.deepcopy(cur)
        cand["arch"]["dtype"] = "float64"
        if fails(cand):
            cur = cand
    return cur


THEOREMS = {"colors": ["C20_grid_cell", "C20_transpose", "C20_cvt1d_cell"], "coords": ["C20_transpose", "C20_cvt1d_inverse"],
            "clim": ["C20_limits"], "world-frame": ["C20_pure"], "world-archive": ["C20_pure"], "offsets": ["C20_scatter_transpose"],
            "lines": ["C20_scatter_transpose", "C20_parallel_position"], "voronoi": ["(harness geometry check; not proved)"]}


def report(rep, case, r, d, driver, seen):
    small = shrink(case, driver, d["sig"], oracle(case, r) is not None)
    try:
        r2, m2, d2 = evaluate(small, driver)
        if d2 is None:
            small, r2, d2 = case, r, d
    except Exception:  # noqa
        small, r2, d2 = case, r, d
    tags = classify(small, r2, d2)
    key = tags["kind"] if tags["kind"] != "correspondence" else ("correspondence", len([s for s in seen if isinstance(s, tuple)]))
    if tags["kind"] != "correspondence" and key in seen:
        return
    seen.add(key)
    orc = oracle(small, r2)
    rep.violation("ribs.visualize (%s) and the Viz model disagree: %s%s" % (small["kind"], d2["what"], "; oracle: " + orc if orc else ""),
                  {"kind": "correspondence", "broken": "Model/Viz.v vs ribs/visualize (%s)" % small["kind"], "case": small,
                   "disagreement": d2, "oracle": orc, "impl_error": r2["obs"].get("msg"),
                   "stored": [[i, float(ob), [float(x) for x in ms]] for i, ob, ms in stored_of(small, r2)],
                   "theorems_at_stake": THEOREMS.get(d2["sig"].split(":")[0], ["correspondence Model/Viz.v"])},
                  orc is not None, tags)


def check(rep, tier, seed, driver):
    from common import setup_python_env
    setup_python_env()
    import matplotlib
    matplotlib.use("Agg")
    rng = random.Random(seed)
    py2v_viz.report(rep)
    py2v_gridviz.report(rep)
    n = 700 if tier == "quick" else 7000
    rep.rule = ("random Grid (1-D/2-D, non-square dims, asymmetric ranges) / CVT (1-D/2-D, unsorted custom centroids) / "
                "SlidingBoundaries / Proximity archives and 1..5-D archives for parallel axes, filled empty / one elite / partly / "
                "full with pairwise DISTINCT objectives, plotted with transpose on/off, default / explicit / clipping / degenerate "
                "vmin-vmax, from the archive or from a data frame (same, shuffled, custom objective column, subset, plain pandas), "
                "with and without colour bar, boundary lines, centroid markers, clipping, measure_order, sort_archive; plus a "
                "malformed stream (frame naming a cell outside the archive). A case is non-trivial when >= 2 elites with different "
                "objectives are drawn and (heat maps) at least one cell stays blank on a non-square grid; distinct by hash of the case")
    cases = []
    cdir = os.path.join(CORPUS, "C20")
    if os.path.isdir(cdir):
        for f in sorted(os.listdir(cdir)):
            cases.append(json.load(open(os.path.join(cdir, f))))
    rep.count("corpus_cases", len(cases))
    for k in range(n):
        cases.append(gen_malformed(rng, tier) if k % 25 == 24 else gen_case(rng, tier))
    seen = set()
    n_corr = 0
    for case in cases:
        o = case["opts"]
        rep.count("kind_" + case["kind"] + ("_1d" if len(case["arch"].get("ranges", [0, 0])) == 1 and case["kind"] in ("grid", "cvt") else ""))
        rep.count("fill_" + str(case.get("fill"))[:5])
        rep.count("df_" + str(o["df"]))
        rep.count("transpose_" + str(o["transpose"]))
        rep.count("limits_" + ("default" if o["vmin"] is None and o["vmax"] is None else "explicit"))
        try:
            r, m, d = evaluate(case, driver)
        except Exception as e:  # noqa
            import traceback
            r, m, d = None, None, D("harness-exception", repr(e) + traceback.format_exc()[-600:])
        if r is None:
            rep.case(case, False)
            rep.violation("harness exception on a generated case", {"kind": "harness", "case": case, "disagreement": d}, False, {"kind": "crash"})
            break
        nt = nontrivial(case, r)
        rep.case(case, nt, sample=case if nt else None)
        if "error" in r["obs"]:
            rep.count("impl_error_%s" % r["obs"]["error"])
        if d is not None:
            report(rep, case, r, d, driver, seen)
            n_corr = len([s for s in seen if isinstance(s, tuple)])
            if n_corr >= 3:
                break
    if rep.evaluations and len(rep.nontrivial) < rep.evaluations // 5:
        rep.violation("generator degenerate: too few non-trivial cases", {"kind": "generator", "nontrivial": len(rep.nontrivial)}, False, {"kind": "generator"})


def replay(rp, driver):
    case = rp["case"]
    r, m, d = evaluate(case, driver)
    orc = oracle(case, r)
    print("disagreement:", json.dumps(d, default=str)[:2000] if d else None)
    print("oracle:", orc)
    return 1 if (d is not None or orc is not None) else 0
