"""Helpers of the C12 harness: caller-side layout classes, snapshots, object-graph walk, behavioural digests.

Nothing here knows about the Coq model; it only looks at the real pyribs objects and numpy's memory model."""
import collections
import copy
import types

import numpy as np

LAYOUTS = ["exact", "view", "noncontig", "otherdtype", "pylist"]
LAYOUT_CODE = {n: i for i, n in enumerate(LAYOUTS)}


# ---------------------------------------------------------------------------------------------
# caller-side arguments
def other_dtype(dt):
    dt = np.dtype(dt)
    return {np.dtype(np.float64): np.float32, np.dtype(np.float32): np.float64, np.dtype(np.int32): np.int64,
            np.dtype(np.int64): np.int32, np.dtype(bool): np.uint8}[dt]


class Arg:
    """One caller-side array argument in a given layout class.

    value : what is passed to pyribs          owner : the whole allocation the caller owns (ndarray, or the list itself)
    """

    def __init__(self, name, arr, layout):
        a = np.array(arr)  # exact dtype, C-contiguous
        self.name, self.layout, self.ref = name, layout, a
        if layout == "exact":
            self.value = a.copy()
            self.owner = self.value
        elif layout == "view":
            if a.ndim == 0:
                base = np.full(3, 7, dtype=a.dtype)
                base[1] = a
                self.value = base[1:2].reshape(())
            else:
                base = np.full((a.shape[0] + 2,) + a.shape[1:], 7, dtype=a.dtype)
                base[1:-1] = a
                self.value = base[1:-1]
            self.owner = base
        elif layout == "noncontig":
            if a.ndim == 0:
                base = np.full(4, 7, dtype=a.dtype)
                base[2] = a
                self.value = base[2:3].reshape(())
            else:
                base = np.full(a.shape[:-1] + (2 * a.shape[-1],), 7, dtype=a.dtype)
                self.value = base[..., ::2]
                self.value[...] = a
            self.owner = base
        elif layout == "otherdtype":
            self.value = a.astype(other_dtype(a.dtype))
            self.owner = self.value
        elif layout == "pylist":
            self.value = a.tolist()
            self.owner = self.value
        else:
            raise ValueError(layout)
        assert isinstance(self.value, np.ndarray) or layout == "pylist"
        self.before = self.snap()

    def snap(self):
        if isinstance(self.owner, np.ndarray):
            return (self.owner.dtype.str, self.owner.shape, self.owner.tobytes())
        return copy.deepcopy(self.owner)

    def mutated(self):
        return self.snap() != self.before

    def diff(self):
        if isinstance(self.owner, np.ndarray):
            return {"before": np.frombuffer(self.before[2], dtype=self.owner.dtype).tolist(), "after": self.owner.ravel().tolist()}
        return {"before": self.before, "after": self.owner}

    def list_ids(self):
        """identities of the python list objects the caller owns (pylist layout)"""
        out = set()
        if isinstance(self.owner, list):
            stack = [self.owner]
            while stack:
                o = stack.pop()
                out.add(id(o))
                stack.extend(x for x in o if isinstance(x, list))
        return out

    def aliases(self, x):
        """does the ndarray / list x live in the caller's allocation?"""
        if isinstance(self.owner, np.ndarray):
            return isinstance(x, np.ndarray) and x.dtype != object and x.size > 0 and bool(np.may_share_memory(x, self.owner))
        return isinstance(x, list) and id(x) in self.list_ids()

    def poison(self):
        """caller-side write after the call: every element is changed, values stay finite"""
        if isinstance(self.owner, np.ndarray):
            if self.owner.dtype.kind == "f":
                self.owner[...] = self.owner * -0.5 + 0.375
            elif self.owner.dtype.kind in "iu":
                self.owner[...] = self.owner + 1
            elif self.owner.dtype.kind == "b":
                self.owner[...] = ~self.owner
        else:
            def rec(l):
                for k, x in enumerate(l):
                    if isinstance(x, list):
                        rec(x)
                    elif isinstance(x, bool):
                        l[k] = not x
                    elif isinstance(x, int):
                        l[k] = x + 1
                    else:
                        l[k] = x * -0.5 + 0.375
            if isinstance(self.owner, list):
                rec(self.owner)


# ---------------------------------------------------------------------------------------------
# object graph walk
_ATOMS = (str, bytes, bytearray, int, float, complex, bool, type(None), np.generic, type, types.ModuleType, types.FunctionType,
          types.BuiltinFunctionType, types.MethodType, np.random.Generator, np.random.BitGenerator, np.dtype, range, memoryview)


def walk(roots, skip=(), follow_base=True):
    """All ndarrays (with their .base chains) and python lists reachable from the given {name: object} roots through
    attributes, dicts, lists, tuples, sets, deques, SortedLists, cKDTrees and pandas objects.
    Returns (arrays: list of (path, ndarray), lists: dict id -> path)."""
    import pandas as pd
    try:
        from scipy.spatial import cKDTree
    except Exception:  # noqa
        cKDTree = ()
    try:
        from sortedcontainers import SortedList
    except Exception:  # noqa
        SortedList = ()
    arrays, lists, seen = [], {}, set(id(x) for x in skip)
    stack = [(o, n) for n, o in roots.items()]
    keep = []  # keep temporaries alive so ids stay unique
    while stack:
        o, p = stack.pop()
        if id(o) in seen:
            continue
        seen.add(id(o))
        keep.append(o)
        if isinstance(o, np.ndarray):
            arrays.append((p, o))
            if o.dtype == object:
                stack.extend((x, p + "[]") for x in o.ravel().tolist())
            if follow_base and o.base is not None:
                stack.append((o.base, p + ".base"))
        elif isinstance(o, _ATOMS):
            continue
        elif isinstance(o, dict):
            for k, v in o.items():
                stack.append((v, "%s[%r]" % (p, k)))
                if not isinstance(k, _ATOMS):
                    stack.append((k, p + ".key"))
        elif isinstance(o, (list, tuple, set, frozenset, collections.deque)):
            if isinstance(o, list):
                lists[id(o)] = p
            for k, v in enumerate(o):
                stack.append((v, "%s[%d]" % (p, k)))
        elif SortedList and isinstance(o, SortedList):
            for k, v in enumerate(o):
                stack.append((v, "%s{%d}" % (p, k)))
        elif cKDTree and isinstance(o, cKDTree):
            for a in ("data", "maxes", "mins", "indices"):
                stack.append((getattr(o, a), p + "." + a))
        elif isinstance(o, pd.DataFrame):
            for k, bl in enumerate(o._mgr.blocks):  # pylint: disable = protected-access
                stack.append((bl.values, "%s.block%d" % (p, k)))
        elif isinstance(o, pd.Series):
            stack.append((o.to_numpy(), p + ".values"))
        else:
            d = getattr(o, "__dict__", None)
            if isinstance(d, dict):
                for k, v in d.items():
                    stack.append((v, p + "." + k))
            for k in getattr(type(o), "__slots__", ()) or ():
                if hasattr(o, k):
                    stack.append((getattr(o, k), p + "." + k))
    return arrays, lists


def returned_arrays(ret):
    """ndarray objects handed out in a return value (dicts, tuples, lists, data frames, namedtuples, objects with __dict__);
    the .base of a handed-out view is not itself handed out"""
    arrays, _ = walk({"ret": ret}, follow_base=False)
    return arrays


def is_store_path(p):
    return "._store." in p or p.startswith("store.") or "._store[" in p


# ---------------------------------------------------------------------------------------------
# canonical, copy-based digests of observable state
def canon(o):
    """deep, value-based, hashable-ish canonical form of anything the public API returns"""
    import pandas as pd
    if isinstance(o, np.ndarray):
        if o.dtype == object:
            return ("objarr", o.shape, [canon(x) for x in o.ravel().tolist()])
        return ("arr", o.dtype.str, o.shape, np.ascontiguousarray(o).tobytes().hex())
    if isinstance(o, np.generic):
        return ("sc", o.dtype.str, np.asarray(o).tobytes().hex())
    if isinstance(o, pd.DataFrame):
        return ("df", [str(c) for c in o.columns], [int(i) if isinstance(i, (int, np.integer)) else str(i) for i in o.index],
                [canon(o[c].to_numpy()) for c in o.columns])
    if isinstance(o, dict):
        return ("dict", [(str(k), canon(v)) for k, v in o.items()])
    if isinstance(o, (list, tuple)):
        if hasattr(o, "_fields"):
            return ("nt", [(f, canon(getattr(o, f))) for f in o._fields])
        return ("seq", [canon(x) for x in o])
    if isinstance(o, (int, float, str, bool, type(None))):
        return o
    d = getattr(o, "__dict__", None)
    if isinstance(d, dict):
        return ("obj", type(o).__name__, [(k, canon(v)) for k, v in sorted(d.items())])
    return repr(o)


def guarded(f):
    try:
        return ("ok", canon(f()))
    except Exception as e:  # noqa
        return ("exc", type(e).__name__)


def poison_returned(ret):
    """write through everything writable in a returned object; returns number of arrays written"""
    import pandas as pd
    n = 0
    seen = set()

    def rec(o):
        nonlocal n
        if id(o) in seen:
            return
        seen.add(id(o))
        if isinstance(o, pd.DataFrame):
            for j in range(o.shape[1]):
                try:
                    col = o.iloc[:, j]
                    if col.dtype.kind == "f":
                        o.iloc[:, j] = col.to_numpy() * -0.5 + 0.375
                    elif col.dtype.kind in "iu":
                        o.iloc[:, j] = col.to_numpy() + 1
                    n += 1
                except Exception:  # noqa
                    pass
            for bl in o._mgr.blocks:  # pylint: disable = protected-access
                rec(bl.values)
        elif isinstance(o, np.ndarray):
            if o.dtype == object:
                for x in o.ravel().tolist():
                    rec(x)
            elif o.flags.writeable and o.size:
                if o.dtype.kind == "f":
                    o[...] = o * -0.5 + 0.375
                elif o.dtype.kind in "iu":
                    o[...] = o + 1
                elif o.dtype.kind == "b":
                    o[...] = ~o
                n += 1
        elif isinstance(o, dict):
            for v in list(o.values()):
                rec(v)
        elif isinstance(o, (list, tuple)):
            for v in o:
                rec(v)
        elif not isinstance(o, _ATOMS):
            d = getattr(o, "__dict__", None)
            if isinstance(d, dict):
                for v in list(d.values()):
                    rec(v)
    rec(ret)
    return n
