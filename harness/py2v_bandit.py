"""Fail-closed reader of BanditScheduler.tell (current source under $VERIF_REPO) -> coq/Generated/BanditTellGen.v (rewritten on every
run); Refine/BanditTellRefine.v compares with Model/Bandit.v.  (The guards are read by py2v_proto.py, the UCB1 score and the selection
of BanditScheduler.ask by py2v_ucb.py.)

Translated: the credit an emitter receives for a round (`self._selection[i] += n`, `self._success[i] += np.count_nonzero(add_info[
"status"][pos:end])`) and the slice bounds.  Matched statement by statement and recorded as facts: the insertion part is the Scheduler's
(batch: search archive, then result archive, same data; single: row by row); the routing loop walks the ACTIVE emitters in pool order
(`np.where(self._active_arr)[0]`), credits each one BEFORE it is told, and tells it its own slices.  Anything else raises Unsupported
(= broken tie)."""
import ast
import hashlib
import os

ROOT = os.path.dirname(os.path.dirname(os.path.abspath(__file__)))
REPO = os.environ.get("VERIF_REPO", "/repo")
OUT = os.path.join(ROOT, "coq", "Generated", "BanditTellGen.v")
SRC = "ribs/schedulers/_bandit_scheduler.py"


class Unsupported(Exception):
    pass


def src(e):
    return ast.unparse(e)


def stmts(body):
    return [s for s in body if not (isinstance(s, ast.Expr) and isinstance(s.value, ast.Constant) and isinstance(s.value.value, str))]


def translate(repo=None):
    repo = repo or REPO
    tree = ast.parse(open(os.path.join(repo, SRC)).read())
    cls = [n for n in tree.body if isinstance(n, ast.ClassDef) and n.name == "BanditScheduler"]
    if len(cls) != 1:
        raise Unsupported("cannot locate class BanditScheduler")
    fns = {n.name: n for n in cls[0].body if isinstance(n, ast.FunctionDef)}
    if "tell" not in fns:
        raise Unsupported("cannot locate BanditScheduler.tell")
    b = stmts(fns["tell"].body)
    s = [src(x) for x in b]
    # [0], [1]: protocol guard and state assignment (py2v_proto)
    want_mid = ["archive_empty_before = self.archive.empty",
                "if self._result_archive is not None:\n    result_archive_empty_before = self.result_archive.empty",
                "if self._add_mode == 'batch':\n    add_info = self.archive.add(**data)\n    if self._result_archive is not None:\n        self._result_archive.add(**data)\n"
                "elif self._add_mode == 'single':\n    add_info = defaultdict(list)\n    for i in range(len(self._cur_solutions)):\n"
                "        single_data = {name: None if arr is None else arr[i] for name, arr in data.items()}\n"
                "        single_info = self.archive.add_single(**single_data)\n        for name, val in single_info.items():\n            add_info[name].append(val)\n"
                "        if self._result_archive is not None:\n            self._result_archive.add_single(**single_data)\n"
                "    for name, arr in add_info.items():\n        add_info[name] = np.asarray(arr)",
                "if archive_empty_before and self.archive.empty:\n    warnings.warn(Scheduler.EMPTY_WARNING.format(name='archive'))",
                "if self._result_archive is not None:\n    if result_archive_empty_before and self.result_archive.empty:\n        warnings.warn(Scheduler.EMPTY_WARNING.format(name='result_archive'))",
                "pos = 0"]
    if len(s) != 10 or not s[2].startswith("data = self._validate_tell_data(") or s[3:9] != want_mid:
        d = [(w[:80], g[:80]) for w, g in zip(want_mid, s[3:9]) if w != g][:1]
        raise Unsupported("BanditScheduler.tell is not (validate, insert like Scheduler._add_to_archives, pos = 0, routing loop); first difference: %r" % (d or [len(s)]))
    loop = b[9]
    if not (isinstance(loop, ast.For) and src(loop.target) == "i" and src(loop.iter) == "np.where(self._active_arr)[0]" and not loop.orelse):
        raise Unsupported("the routing loop does not walk np.where(self._active_arr)[0]")
    lb = stmts(loop.body)
    ls = [src(x) for x in lb]
    want = ["emitter = self._emitter_pool[i]", "n = self._num_emitted[i]", "end = pos + n", "self._selection[i] += n",
            "self._success[i] += np.count_nonzero(add_info['status'][pos:end])", None, "pos = end"]
    if len(ls) != 7 or any(w is not None and w != g for w, g in zip(want, ls)):
        raise Unsupported("the routing loop is not (emitter, n, end, credit selection, credit success, emitter.tell(<slices>), pos = end): %r" % [x[:60] for x in ls])
    call = lb[5].value if isinstance(lb[5], ast.Expr) else None
    if not (isinstance(call, ast.Call) and src(call.func) == "emitter.tell" and not call.args and sorted(src(k.value) for k in call.keywords) == sorted(
            ["{name: None if arr is None else arr[pos:end] for name, arr in data.items()}", "{name: arr[pos:end] for name, arr in add_info.items()}"])):
        raise Unsupported("emitter.tell does not receive exactly the [pos:end] slices of every field and of the feedback")
    facts = ["InsertionIsTheSchedulers", "ActiveEmittersInPoolOrder", "CreditedBeforeTold", "OwnSlices"]
    text = ("(** GENERATED by harness/py2v_bandit.py from the current pyribs source (%s: BanditScheduler.tell) on every run -- do not edit.\n"
            "    Refine/BanditTellRefine.v compares with Model/Bandit.v. *)\nFrom Coq Require Import List Arith.\nFrom PV Require Import Model.BanditTellFacts.\nImport ListNotations.\n\n"
            "(** self._selection[i] += n;  self._success[i] += np.count_nonzero(status[pos:end]) *)\n"
            "Definition gen_credit_selection (sel_i n : nat) : nat := sel_i + n.\n"
            "Definition gen_credit_success (suc_i nonzero_in_slice : nat) : nat := suc_i + nonzero_in_slice.\n"
            "Definition gen_bandit_tell_facts : list bandit_tell_fact := [%s].\n" % (SRC, "; ".join(facts)))
    return text, hashlib.sha256(ast.dump(fns["tell"]).encode()).hexdigest()


def generate():
    st = {"ok": False, "error": None, "written": False, "sha": None}
    try:
        text, st["sha"] = translate()
        st["ok"] = True
    except Unsupported as e:
        st["error"] = str(e)
        return st
    except Exception as e:  # noqa
        st["error"] = repr(e)
        return st
    try:
        old = open(OUT).read() if os.path.exists(OUT) else None
        if old != text:
            os.makedirs(os.path.dirname(OUT), exist_ok=True)
            tmp = OUT + ".tmp%d" % os.getpid()
            with open(tmp, "w") as f:
                f.write(text)
            os.replace(tmp, OUT)
            st["written"] = True
    except OSError as e:
        st["ok"], st["error"] = False, "cannot write %s: %r" % (OUT, e)
    return st


STATUS = generate()


def report(rep):
    rep.extra["source_fragments_bandit_tell"] = {"translator": "harness/py2v_bandit.py", "source": [SRC], "ok": STATUS["ok"], "sha256_of_ast": STATUS["sha"],
                                                 "refinement": "coq/Refine/BanditTellRefine.v"}
    if not STATUS["ok"]:
        rep.violation("the BanditScheduler.tell reader cannot read the current source any more (fail-closed): %s" % STATUS["error"],
                      {"kind": "translation", "broken": "harness/py2v_bandit.py", "error": STATUS["error"]}, False, {"kind": "translation"})


if __name__ == "__main__":
    print(STATUS)
    print(open(OUT).read() if STATUS["ok"] else "")
