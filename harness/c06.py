"""C06 correspondence: statistics and best_elite vs Model/Archive.v (all fixed-cell archives; default and CMA-MAE)."""
import math
import random
from fractions import Fraction

import numpy as np

import arch_util as au
import py2v_stats

CONFIG = {
    "cone": ["Base/ListUtil.v", "Base/QUtil.v", "Base/FirstArgmax.v", "Model/Store.v", "Proofs/StoreProofs.v", "Model/Archive.v",
             "Proofs/ArchiveProofs.v", "Proofs/C01Proofs.v", "Proofs/C02Proofs.v", "Proofs/C06Proofs.v", "Model/Cqd.v", "Proofs/CqdProofs.v", "Generated/StatsGen.v", "Refine/StatsRefine.v", "Properties/C06.v"],
    "extra_property_files": ["Refine/StatsRefine.v"],
    "trusted": ["harness/py2v_stats.py: fail-closed ast translator of ArchiveBase._stats_update and of the objective-sum expression of "
                "compute_objective_sum into Generated/StatsGen.v on every run; Refine/StatsRefine.v proves them equal to the model for all arguments",
                "Model/Archive.v (see C01)",
                "floating point: exact-arithmetic theorems; an exact stream (dyadic objectives/offsets so that every sum is exact) is compared "
                "bit for bit over whole histories, CMA-MAE and moderate floats step-wise within a few ulp of the summed magnitudes",
                "ProximityArchive's coverage=1 / cells=len convention and remaps are exercised by the C14 / C15 checks; cqd_score: Model/Cqd.v is its defining formula over data(); the harness runs the extracted model (L1 distance, shuffled elites) and a "
                "Fraction evaluation against the real cqd_score on dyadic inputs"],
    "level_text": "Theorems C06_stats_invariant (for every history: incremental objective sum == sum recomputed over contents, num_elites = len, "
                  "coverage, qd_score = sum - len*offset, norm_qd_score, obj_mean), C06_qd_score (= sum over current elites of objective - "
                  "offset), C06_num_elites (= number of occupied cells), C06_best_invariant (obj_max = highest objective written since the "
                  "last clear, best_elite a complete written row with it; ghost list of writes), C06_elitist_max (current maximum / current "
                  "elite in elitist archives), C06_noop_calls, C06_clear_resets. Default and CMA-MAE settings, replacements that lower a "
                  "cell's objective included.",
    "level_note": "Trusted: Coq kernel; extraction + driver; model tied by sampling; harness. No axioms. cqd_score: model = the formula; theorems C06_cqd_* (order / stale-slot independence, per-target maximum, definedness).",
    "technique": "source-derived fragments (py2v translator + refinement lemmas) + Rocq/Coq invariant proof (sum under pointwise update at distinct keys, ghost write list) + correspondence run",
    "design_ref": "DESIGN.md section 5, C06",
}


def oracle(spec, ops):
    """C06 stated directly on the implementation: stats recomputed from data() after every op."""
    dtype = au.DT[spec["dtype"]]
    cells = au.n_cells(spec)
    off = au.F(dtype(spec["offset"]))
    trace, mops, archive, table = au.run_impl(spec, ops)
    inserted = []   # (id, objective, cell) of candidates with non-zero status since the last clear
    allobj = Fraction(0)
    for step, (op, ent) in enumerate(zip(ops, trace)):
        if op[0] == "clear":
            inserted = []
            allobj = Fraction(0)
        elif "error" not in ent["ret"]:
            cands = op[1] if op[0] == "add" else [op[1]]
            for c, s, cell in zip(cands, ent["ret"]["status"], ent["cells"]):
                allobj += abs(au.F(dtype(c[1])))
                if s:
                    inserted.append((c[0], au.F(dtype(c[1])), cell))
        o = ent["obs"]
        st = o["stats"]
        rows = o["rows"]
        n = len(rows)
        if any(isinstance(st[k], float) for k in ("qd", "norm", "cov") if st[k] is not None) or isinstance(st["mean"], float):
            continue  # overflow to inf in dtype
        if st["num"] != n or o["len"] != n or o["empty"] != (n == 0):
            return "step %d: num_elites %d / len %d / empty %s but data() has %d elites" % (step, st["num"], o["len"], o["empty"], n)
        scale = allobj + abs(off) * max(n, 1) + 1
        ul = 256 if spec["dtype"] == "f" else 128
        tot = sum(r[2] for r in rows)
        exp = {"cov": Fraction(n, cells), "qd": tot - n * off, "norm": (tot - n * off) / cells, "mean": (tot / n) if n else None}
        for key, sc in (("cov", 1), ("qd", scale), ("norm", scale), ("mean", scale)):
            if not au.near(exp[key], st[key], dtype, sc, ul):
                return "step %d: stats.%s = %r but the contents give %r" % (step, key, None if st[key] is None else float(st[key]), None if exp[key] is None else float(exp[key]))
        emax = max([x[1] for x in inserted]) if inserted else None
        if st["max"] != emax:
            return "step %d: obj_max %r but the highest objective inserted since the last clear is %r" % (step, st["max"] and float(st["max"]), emax and float(emax))
        b = o["best"]
        if (b is None) != (emax is None):
            return "step %d: best_elite %s but obj_max %s" % (step, b, emax)
        if b is not None:
            if isinstance(b[1], tuple):
                return "step %d: best_elite is a torn entry %s" % (step, b[1])
            if b[2] != emax or not any(x[0] == b[1] and x[1] == b[2] and x[2] == b[0] for x in inserted):
                return "step %d: best_elite (cell %d, id %s, objective %r) is not an inserted entry with objective obj_max" % (step, b[0], b[1], float(b[2]))
            if spec.get("tmin") is None:
                if emax != max(r[2] for r in rows) or not any(r[0] == b[0] and r[1] == b[1] for r in rows):
                    return "step %d: elitist archive but best_elite is not a current elite with the current maximum" % step
    return None


def cqd_check(rng, spec, ops, driver=None):
    """cqd_score against its formula on the current elites, exact arithmetic (dist_ord=1, dyadic inputs)."""
    # the history is interrupted once by a cqd_score call with default arguments (anything it remembers must not outlive a change of
    # the archive: a SlidingBoundariesArchive's bounds move at the next remap)
    archive, table = au.make_archive(spec), {}
    mid = rng.randrange(len(ops)) if ops else 0
    for k_op, op in enumerate(ops):
        if k_op == mid and len(archive) and hasattr(type(archive), "upper_bounds"):
            try:
                archive.cqd_score(iterations=1, target_points=2, penalties=2, obj_min=0.0, obj_max=1.0)
                archive.cqd_score(iterations=1, target_points=2, penalties=2, obj_min=0.0, obj_max=1.0, dist_ord=1)
            except Exception:  # noqa
                pass
        au.apply_op(archive, spec, op, table, obs=False)
    d = archive.data()
    n = len(d["index"])
    md = au.measure_dim(spec)
    iters, nt = 2, 3
    # targets inside and far outside the bounds, dist_max smaller and larger than the spread of the measures (normalised distances
    # above 1 are legal), several objective ranges and penalty vectors: the formula has no side conditions
    wide = rng.choice([4.0, 4.0, 1.0, 0.25])
    tp = np.array([[[rng.randrange(-8, 9) / wide for _ in range(md)] for _ in range(nt)] for _ in range(iters)])
    pens = np.array(rng.choice([[0.0, 0.5, 1.0], [0.0, 0.5, 1.0], [0.25, 2.0], [1.0], [0.0, 0.125, 0.25, 0.5, 0.75, 1.0]]))
    omin, omax = rng.choice([(-4.0, 4.0), (-4.0, 4.0), (0.0, 1.0), (-1.0, 1.0), (-6.0, 2.0), (0.0, 64.0)])
    dmax = rng.choice([8.0, 8.0, 1.0, 0.25, 2.0, 32.0])
    orng, dm = au.F(omax) - au.F(omin), au.F(dmax)
    if n and rng.random() < 0.5:
        # some targets sit exactly on / within a hair of an elite's measures (distance 0 or tiny)
        for it in range(iters):
            k = rng.randrange(n)
            tp[it][rng.randrange(nt)] = np.asarray(d["measures"][k], dtype=np.float64) + rng.choice([0.0, 0.0, 2.0 ** -30])
    snap = {k: np.array(v, copy=True) for k, v in d.items() if v.dtype != object}
    # cqd_score is a pure query: the archive's geometry (bounds, boundaries, centroids, ...) must be the same object-for-object afterwards
    def geometry():
        g = {}
        for prop in ("lower_bounds", "upper_bounds", "interval_size", "dims", "centroids", "boundaries"):
            if hasattr(type(archive), prop):
                try:
                    v = getattr(archive, prop)
                    g[prop] = [np.array(x, copy=True) for x in v] if isinstance(v, list) else np.array(v, copy=True)
                except Exception:  # noqa
                    pass
        return g

    def same_geometry(a, b):
        return a.keys() == b.keys() and all((len(a[k]) == len(b[k]) and all(np.array_equal(x, y) for x, y in zip(a[k], b[k]))) if isinstance(a[k], list)
                                           else np.array_equal(a[k], b[k]) for k in a)
    geo = geometry()
    if n and "lower_bounds" in geo and "upper_bounds" in geo:
        # the default dist_max (None): the norm of the archive's extent
        try:
            r0 = archive.cqd_score(iterations=iters, target_points=tp, penalties=pens, obj_min=omin, obj_max=omax, dist_ord=1)
        except Exception as e:  # noqa
            return "cqd_score(dist_max=None) raised %r on a non-empty archive" % (e,)
        dm0 = sum(au.F(float(h)) - au.F(float(l)) for l, h in zip(geo["lower_bounds"], geo["upper_bounds"]))
        if not same_geometry(geo, geometry()):
            return "cqd_score (default dist_max) modified the archive's geometry: %s -> %s" % (
                {k: np.asarray(v).tolist() for k, v in geo.items() if k in ("lower_bounds", "upper_bounds")},
                {k: np.asarray(v).tolist() for k, v in geometry().items() if k in ("lower_bounds", "upper_bounds")})
        if dm0 > 0:
            objs0 = [au.F(x) for x in d["objective"]]
            meas0 = [[au.F(x) for x in row] for row in d["measures"]]
            exp0 = Fraction(0)
            for it in range(iters):
                for pen in pens:
                    for t in tp[it]:
                        exp0 += max(o / orng - au.F(pen) * sum(abs(m - au.F(tc)) for m, tc in zip(mm, t)) / dm0 for o, mm in zip(objs0, meas0))
            exp0 /= iters
            got0 = au.F(r0.mean)
            if isinstance(got0, float) or abs(got0 - exp0) > Fraction(1, 10 ** 6) * (abs(exp0) + 1):
                return "cqd_score(dist_max=None).mean = %r but the formula with dist_max = |upper - lower|_1 = %r gives %r" % (float(r0.mean), float(dm0), float(exp0))
    if n:
        # other norms (the default Euclidean one, the max norm), in floating point: the per-pair distance is the norm of the difference
        for ordv, name in ((None, "default (Euclidean)"), (np.inf, "inf")):
            try:
                r2 = archive.cqd_score(iterations=iters, target_points=tp, penalties=pens, obj_min=omin, obj_max=omax, dist_max=dmax, dist_ord=ordv)
            except Exception as e:  # noqa
                return "cqd_score(dist_ord=%s) raised %r on a non-empty archive" % (name, e)
            mo = np.asarray(d["objective"], dtype=np.float64) / (omax - omin)
            mm_ = np.asarray(d["measures"], dtype=np.float64)
            want = []
            for it in range(iters):
                sc = 0.0
                for pen in pens:
                    for t in tp[it]:
                        diff = mm_ - np.asarray(t, dtype=np.float64)[None]
                        dist = np.sqrt(np.sum(diff * diff, axis=1)) if ordv is None else np.max(np.abs(diff), axis=1)
                        sc += float(np.max(mo - pen * dist / dmax))
                want.append(sc)
            scale = sum(abs(x) for x in want) + len(pens) * nt * (abs(float(np.max(np.abs(mo)))) + 1.0)
            got2 = [float(x) for x in r2.scores]
            if len(got2) != len(want) or any((not np.isfinite(g)) or abs(g - w) > 1e-12 * scale for g, w in zip(got2, want)):
                return "cqd_score(dist_ord=%s).scores = %s but the formula on the current elites gives %s" % (name, got2, want)
    try:
        res = archive.cqd_score(iterations=iters, target_points=tp, penalties=pens, obj_min=omin, obj_max=omax, dist_max=dmax, dist_ord=1)
    except Exception as e:  # noqa
        if n == 0:
            return None   # max over an empty archive is undefined
        return "cqd_score raised %r on a non-empty archive" % (e,)
    if n == 0:
        return None
    objs = [au.F(x) for x in d["objective"]]
    meas = [[au.F(x) for x in row] for row in d["measures"]]
    scores = []
    for it in range(iters):
        s = Fraction(0)
        for pen in pens:
            for t in tp[it]:
                s += max(o / orng - au.F(pen) * sum(abs(m - au.F(tc)) for m, tc in zip(mm, t)) / dm for o, mm in zip(objs, meas))
        scores.append(s)
    exp = sum(scores) / iters
    got = au.F(res.mean)
    if isinstance(got, float) or abs(got - exp) > Fraction(1, 10 ** 9) * (abs(exp) + 1):
        return "cqd_score.mean = %r but the formula on the current elites gives %r" % (float(res.mean), float(exp))
    if driver is not None:
        # the extracted Coq model (Model/Cqd.v with the L1 distance), on the elites data() lists, shuffled: C06_cqd_only_current_elites
        order = list(range(n))
        rng.shuffle(order)
        mo = driver.call("CQD", [[au.F(omin), au.F(omax), dm], [[objs[k], meas[k]] for k in order], [au.F(p) for p in pens],
                                 [[[au.F(x) for x in t] for t in tp[it]] for it in range(iters)]])
        if not mo[0] or au.uq(mo[0][0]) != exp:
            return "the Coq model of cqd_score gives %s, the formula in Python %r" % (mo[0], float(exp))
        mscores = [au.uq(x[0]) for x in mo[1]]
        iscores = [au.F(x) for x in res.scores]
        if any(isinstance(b, float) or abs(a - b) > Fraction(1, 10 ** 9) * (abs(a) + 1) for a, b in zip(mscores, iscores)) or len(mscores) != len(iscores):
            return "cqd_score.scores = %s but the model gives %s" % ([float(x) for x in res.scores], [float(x) for x in mscores])
    d2 = archive.data()
    for k, v in snap.items():
        if not np.array_equal(v, d2[k]):
            return "cqd_score modified the archive field %s" % k
    if not same_geometry(geo, geometry()):
        return "cqd_score modified the archive's geometry (bounds / boundaries / centroids)"
    return None


def prox_cqd_stream(rep, rng, n):
    """cqd_score of a ProximityArchive (dist_max must be given) for the L1, Euclidean (default and ord=2) and max norms, against the formula
    evaluated with numpy on data(); the result object must report the norm that was asked for"""
    from ribs.archives import ProximityArchive
    for _ in range(n):
        md = rng.choice([1, 2, 3])
        a = ProximityArchive(solution_dim=1, measure_dim=md, k_neighbors=rng.choice([1, 3]), novelty_threshold=rng.choice([0.0, 0.5]),
                             local_competition=rng.random() < 0.3, dtype=rng.choice([np.float64, np.float32]))
        npts = rng.randint(1, 8)
        a.add(np.zeros((npts, 1)), np.array([rng.randrange(-32, 33) / 8.0 for _ in range(npts)]),
              np.array([[rng.randrange(-16, 17) / 4.0 for _ in range(md)] for _ in range(npts)]))
        d = a.data()
        if len(d["index"]) == 0:
            continue
        iters, nt = 2, 3
        tp = np.array([[[rng.randrange(-16, 17) / 2.0 for _ in range(md)] for _ in range(nt)] for _ in range(iters)])
        pens = np.array(rng.choice([[0.0, 0.5, 1.0], [0.25, 2.0], [1.0]]))
        omin, omax = rng.choice([(-4.0, 4.0), (0.0, 1.0)])
        dmax = rng.choice([8.0, 1.0, 0.25])
        mo = np.asarray(d["objective"], dtype=np.float64) / (omax - omin)
        mm = np.asarray(d["measures"], dtype=np.float64)
        for ordv, name in ((1, "1"), (None, "default (Euclidean)"), (2, "2"), (np.inf, "inf")):
            rep.count("prox_cqd_calls")
            r = a.cqd_score(iterations=iters, target_points=tp, penalties=pens, obj_min=omin, obj_max=omax, dist_max=dmax, dist_ord=ordv)
            want = []
            for it in range(iters):
                sc = 0.0
                for pen in pens:
                    for t in tp[it]:
                        diff = np.abs(mm - np.asarray(t, dtype=np.float64)[None])
                        dist = diff.sum(axis=1) if ordv == 1 else diff.max(axis=1) if ordv == np.inf else np.sqrt((diff * diff).sum(axis=1))
                        sc += float(np.max(mo - pen * dist / dmax))
                want.append(sc)
            got = [float(x) for x in r.scores]
            scale = sum(abs(x) for x in want) + len(pens) * nt * (float(np.max(np.abs(mo))) + 1.0)
            problem = None
            if len(got) != len(want) or any((not np.isfinite(g)) or abs(g - w) > 1e-9 * scale for g, w in zip(got, want)):
                problem = "scores = %s but the formula on the current entries gives %s" % (got, want)
            elif getattr(r, "dist_ord", ordv) != ordv and not (ordv is None and getattr(r, "dist_ord", None) is None):
                problem = "the result reports dist_ord = %r" % (getattr(r, "dist_ord", None),)
            if problem:
                rep.violation("ProximityArchive.cqd_score(dist_ord=%s): %s" % (name, problem),
                              {"kind": "property", "broken": "cqd_score equals its defining formula on the current elites",
                               "case": {"measures": mm.tolist(), "objective": d["objective"].tolist(), "targets": tp.tolist(), "penalties": pens.tolist(),
                                        "obj_min": omin, "obj_max": omax, "dist_max": dmax, "dist_ord": name}}, True, {"kind": "cqd"})
                return


def sliding_best_stream(rep, rng, n):
    """SlidingBoundariesArchives that really remap: after every operation best_elite is a complete entry of the CURRENT geometry -- its index
    is the cell its measures map to now -- and carries obj_max (a remap rebuilds the archive, so no historical best outlives it)"""
    import c15
    for _ in range(n):
        spec = c15.gen_spec(rng, "quick")
        ops = c15.gen_ops(rng, spec, rng.randint(6, 24))
        archive, table = au.make_archive(spec), {}
        rep.count("sliding_best_cases")
        for step, op in enumerate(ops):
            archive = au.relay(archive, spec, step)
            try:
                au.apply_op(archive, spec, op, table, obs=False)
            except Exception:  # noqa
                break
            be = archive.best_elite
            if be is None:
                continue
            idx = int(archive.index_of_single(np.asarray(be["measures"])))
            problem = None
            if idx != int(be["index"]):
                problem = "best_elite claims index %d, its measures %s map to cell %d under the current boundaries" % (int(be["index"]), np.asarray(be["measures"]).tolist(), idx)
            elif float(be["objective"]) != float(archive.stats.obj_max):
                problem = "best_elite has objective %r, obj_max is %r" % (float(be["objective"]), float(archive.stats.obj_max))
            if problem:
                rep.violation("SlidingBoundariesArchive after operation %d: %s" % (step, problem),
                              {"kind": "property", "broken": "C06 (best_elite is a complete stored entry with objective obj_max)", "case": {"spec": spec, "ops": ops[:step + 1]}},
                              True, {"kind": "best-elite-stale-after-remap"})
                return


def final_only_stream(rep, rng, n):
    """histories during which NOTHING is read (no stats, no best_elite, no data): only the add feedback is kept.  At the end obj_max must
    be the highest objective accepted since the last clear and best_elite a complete accepted entry with that objective -- also when its
    cell was meanwhile overwritten by a lower objective (CMA-MAE) -- and the other statistics must agree with data()."""
    for _ in range(n):
        spec = au.gen_spec(rng, kinds=("grid", "cvt"), cma=rng.random() < 0.75, max_cells=12)
        spec["extras"] = []
        ops = au.gen_history(rng, spec, rng.randint(3, 12), 5, lambda r: r.randrange(-64, 65) / 8.0, tie_rate=0.3, clear_rate=0.05)
        archive = au.make_archive(spec)
        best = None           # (objective, id) of the first accepted candidate with the highest objective since the last clear
        acc = {}
        for op in ops:
            if op[0] == "clear":
                archive.clear()
                best = None
                acc = {}
                continue
            cands = op[1] if op[0] == "add" else [op[1]]
            if op[0] == "add":
                info = archive.add(**au.batch_arrays(spec, cands, op[2] if len(op) > 2 else "nd"))
                sts = [int(x) for x in info["status"]] if cands else []
            else:
                info = archive.add_single(**au.single_args(spec, cands[0], op[2] if len(op) > 2 else "nd"))
                sts = [int(info["status"])]
            dtype = au.DT[spec["dtype"]]
            # what _stats_update sees: per call, the stored winner(s); the highest objective among the members that were STORED
            d_now = None
            for c, st in zip(cands, sts):
                if st != 0:
                    o = float(dtype(c[1]))
                    acc[c[0]] = o
                    if best is None or o > best[0]:
                        # only a candidate that actually ended up stored by this call can become the best elite; within one batch the
                        # per-cell winner is the highest objective, so the batch maximum among accepted members is always stored
                        best = (o, c[0])
        rep.count("final_only_cases")
        st = archive.stats
        be = archive.best_elite
        d = archive.data()
        if best is None:
            if be is not None and len(d["index"]) == 0:
                rep.violation("final-only read: nothing was accepted since the last clear but best_elite = %r" % (be,), {"kind": "property", "case": {"spec": spec, "ops": ops}},
                              True, {"kind": "final-only-best-elite"})
                return
            continue
        problem = None
        if st.obj_max is None or float(st.obj_max) != best[0]:
            problem = "stats.obj_max = %r but the highest objective accepted since the last clear is %r" % (st.obj_max, best[0])
        elif be is None or float(be["objective"]) != best[0]:
            problem = "best_elite has objective %r but obj_max is %r" % (None if be is None else float(be["objective"]), best[0])
        else:
            i = au.decode_elite(spec, {k: v for k, v in be.items() if k in ("solution", "measures", "objective")}, {})
            if isinstance(i, tuple):
                problem = "best_elite is a torn entry: %s" % (i,)
            elif acc.get(i) != best[0]:
                problem = "best_elite carries solution id %r, which is not an accepted candidate with objective %r" % (i, best[0])
        if problem is None and len(d["index"]):
            objs = np.asarray(d["objective"], dtype=np.float64)
            want = float(np.sum(objs - float(spec["offset"])))
            if abs(float(st.qd_score) - want) > 1e-6 * (float(np.sum(np.abs(objs))) + 100.0) or st.num_elites != len(objs):
                problem = "stats.qd_score = %r / num_elites = %r but data() gives %r / %d" % (float(st.qd_score), st.num_elites, want, len(objs))
        if problem:
            rep.violation("statistics / best_elite read only at the end of a history: " + problem,
                          {"kind": "property", "broken": "C06 (stats and best_elite agree with the contents after any history)", "case": {"spec": spec, "ops": ops}},
                          True, {"kind": "final-only-best-elite"})
            return


def nontrivial(case):
    """history with a clear, a call that inserts nothing after an insertion, and >= 2 calls hitting one measure point"""
    ops = case["ops"]
    per = {}
    for k, o in enumerate(ops):
        cands = o[1] if o[0] == "add" else [o[1]] if o[0] == "add_single" else []
        for c in cands:
            per.setdefault(tuple(c[2]), set()).add(k)
    return any(o[0] == "clear" for o in ops) and any(len(v) >= 2 for v in per.values())


def check(rep, tier, seed, driver):
    py2v_stats.report(rep)
    rng = random.Random(seed)
    n = 300 if tier == "quick" else 4000
    rep.rule = ("(a) exact stream: dyadic objectives (multiples of 1/8, |x| <= 8) and dyadic offsets so that every float sum is exact; elitist "
                "Grid/CVT/Sliding archives; whole-history comparison of stats/best_elite bit for bit (float64) or correctly rounded (float32); "
                "(b) CMA-MAE and moderate floats: step-wise simulation, statistics within a few ulp of the summed magnitudes; (c) cqd_score vs "
                "its formula in exact arithmetic on data(); non-trivial = history with a clear and a measure point hit by >= 2 calls" 
                "; cqd_score: several objective ranges / penalty vectors / dist_max below and above the spread / targets far outside the bounds and exactly on elites; L1 exactly, default (Euclidean) and max norm in floating point")
    cases = au.load_corpus("C06")
    rep.count("corpus_cases", len(cases))
    for k in range(n):
        if k % 2 == 0:
            spec = au.gen_spec(rng, cma=False, max_cells=32)
            spec["offset"] = rng.choice([0.0, -2.0, 1.5, -8.0])
            ops = au.gen_history(rng, spec, rng.randint(2, 14 if tier == "quick" else 50), 8, lambda r: r.randrange(-64, 65) / 8.0, tie_rate=0.3, clear_rate=0.1)
            cases.append({"spec": spec, "ops": ops, "mode": "exact"})
        else:
            spec = au.gen_spec(rng, kinds=("grid", "cvt", "cvt_brute"), cma=True, max_cells=32)
            dtype = au.DT[spec["dtype"]]
            ops, st = au.gen_history_live(rng, spec, rng.randint(2, 12 if tier == "quick" else 40), 8, lambda r: r.uniform(-10, 10), clear_rate=0.1)
            cases.append({"spec": spec, "ops": ops, "mode": "step"})
        rep.count("mode_" + cases[-1]["mode"])
    modes = {}

    def compare(spec, ops):
        if spec.get("tmin") is None and all(float(c[1] * 8).is_integer() for o in ops if o[0] != "clear" for c in (o[1] if o[0] == "add" else [o[1]])):
            return au.compare_history(driver, spec, ops, exact_values=True, stats_mode="exact")
        tot = sum(abs(c[1]) for o in ops if o[0] != "clear" for c in (o[1] if o[0] == "add" else [o[1]]))
        return au.compare_stepwise(driver, spec, ops, check_stats=True, stats_scale=au.F(tot + abs(spec["offset"]) * 32 + 1))
    au.run_cases(rep, "C06", cases, compare=compare, oracle=oracle, nontrivial=nontrivial,
                 what="archive statistics / best_elite", broken="Model/Archive.v vs ribs/archives/_archive_base.py (_stats_update) + _transforms.py",
                 theorems=["C06_stats_invariant", "C06_best_invariant", "C06_elitist_max"])
    # cqd_score
    ncqd = 40 if tier == "quick" else 600
    for k in range(ncqd):
        if k % 4 == 3:
            # SlidingBoundariesArchives that really remap (their bounds move during the history)
            import c15
            spec = c15.gen_spec(rng, "quick")
            spec["dtype"] = "d"
            ops = c15.gen_ops(rng, spec, rng.randint(4, 14))
            rep.count("cqd_sliding_cases")
        else:
            spec = au.gen_spec(rng, kinds=("grid", "cvt"), cma=(k % 2 == 1), dtypes=("d",), max_cells=16)
            ops = au.gen_history(rng, spec, rng.randint(1, 6), 6, lambda r: r.randrange(-32, 33) / 8.0)
        # measures must be dyadic for exact L1 distances
        for o in ops:
            for c in (o[1] if o[0] == "add" else [o[1]] if o[0] == "add_single" else []):
                if spec["kind"] != "sliding":
                    c[2] = [round(x * 8) / 8.0 for x in c[2]]
        if spec.get("lr") not in (None, 0.0, 0.5, 1.0):
            spec["lr"] = 0.5
        try:
            e = cqd_check(random.Random(rng.randrange(1 << 30)), spec, ops, driver)
        except Exception as ex:  # noqa
            e = None
            rep.count("cqd_harness_skip")
        rep.count("cqd_cases")
        if e:
            rep.violation("cqd_score: " + e, {"kind": "property", "case": {"spec": spec, "ops": ops}, "broken": "cqd_score formula on current elites"}, True, {"kind": "cqd"})
            break
    final_only_stream(rep, rng, 150 if tier == "quick" else 2500)
    prox_cqd_stream(rep, rng, 25 if tier == "quick" else 400)
    sliding_best_stream(rep, rng, 60 if tier == "quick" else 600)
