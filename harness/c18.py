"""C18 -- optimizers keep a valid search distribution and apply their update rules.

Correspondence of the real evolution strategies (ribs/emitters/opt) with the extracted model of their discrete structure
(coq/Model/Opt.v: resampling rounds, noise bookkeeping, parent selection, exact-rational recombination, counters, OpenAI-ES
centred ranks/gradient) on reproduced random streams; one-step numpy transcription of the real-number model
(coq/Model/OptReal.v) for sigma / paths / covariance; an oracle stating the property's clauses directly on the
implementation's outputs; metamorphic twins (same ranking order, other ranking values); reset vs fresh; Adam / gradient
ascent against the published rules; labelled statistical observations (moments, convergence)."""
import json
import os
import random
import signal
import time
import warnings
from fractions import Fraction

import numpy as np

import c18_util as U
import py2v_c18
from common import CORPUS, q

CONFIG = {
    "cone": ["Base/ListUtil.v", "Base/RSum.v", "Model/Opt.v", "Model/OptReal.v", "Proofs/OptProofs.v", "Proofs/OptRealProofs.v",
             "Generated/OptGen.v", "Refine/OptRefine.v", "Properties/C18.v"],
    "trusted": [
        "Model/Opt.v (discrete structure, exact-rational recombination) is tied to ribs/emitters/opt by the correspondence run on "
        "reproduced numpy Generator streams (sampled); Model/OptReal.v (real-number update formulas of CMA-ES / sep-CMA-ES / LM-MA-ES) "
        "is tied through harness/c18_util.py, a hand transcription of its formulas into numpy float64 compared after every tell "
        "with the real optimizer (one step from the real pre-state, rel. tol 1e-9)",
        "harness/py2v_c18.py (fail-closed ast translator of AdamOpt.step / GradientAscentOpt.step; np.sqrt and ** with a variable "
        "exponent are uninterpreted section variables of coq/Generated/OptGen.v)",
        "numpy.linalg.eigh, numpy Generator, numba, BLAS, libm exp/log/sqrt, pycma: oracles observed per call, never axiomatised",
        "Coq Reals: theorems over R depend on the stdlib axioms ClassicalDedekindReals.sig_forall_dec, sig_not_dec, "
        "FunctionalExtensionality.functional_extensionality_dep (and Classical_Prop.classic through lra/nra/field)",
    ],
    "level_text": "PARTIAL. Proved in coq/Properties/C18.v for ALL inputs/histories of the models. Over R (Model/OptReal.v): C18_weights "
                  "(w_i = (ln(mu+1/2)-ln i)/total are positive, strictly decreasing in the rank, sum to 1); C18_mean_in_hull / C18_mean_formula (the mean "
                  "after tell is the w-weighted sum of the samples at the first num_parents ranking positions and lies coordinate-wise between the "
                  "smallest and largest parent coordinate; CMA-ES, sep-CMA-ES, LM-MA-ES); C18_zero_parents (num_parents = 0: only current_eval += "
                  "len(ranking) resp. current_gens += 1 changes); C18_sigma_pos (sigma' = sigma*exp(.) > 0 by induction over every history of "
                  "ask/tell/reset); C18_cov_psd_sym (CMA-ES covariance symmetric with x^T C x >= 0, sep-CMA-ES diagonal >= 0, over every history and for "
                  "every C^(-1/2) the tells are given), with the coefficient conditions 0 <= c1a <= c1, 0 <= cmu <= 1-c1, alpha = 1-c1a-cmu >= 0 DERIVED "
                  "from the code's formulas for every dimension >= 1 and parent count >= 1 (C18_cov_coefficients_cma/_sep, C18_cov_update_shape); "
                  "C18_order_only(_histories) (tell never reads ranking values); C18_reset / C18_reset_then_like_fresh / C18_initial_distribution. Over "
                  "arbitrary draw streams (Model/Opt.v, extracted): C18_bookkeeping / resample_all_in_bounds (for every stream and fuel, when ask returns, "
                  "row i of the recorded noise is the draw stream[pos i] that produced returned row i, the row is in bounds, pos is injective: one draw "
                  "per row), C18_ask_fuel, C18_bookkeeping_mirror, and the unchanged OpenAI-ES without mirror sampling is REFUTED (F10). Translated from the "
                  "current source: C18_adam_rule / C18_gradient_ascent_rule (AdamOpt.step, GradientAscentOpt.step equal the published ascent rules for "
                  "all arguments; ring/field over R with uninterpreted sqrt/pow).",
    "level_note": "NOT proved, only observed by the harness on every run: (1) finiteness of sigma/mean/covariance under floating point (checked after every "
                  "tell of the random histories); (2) that samples are distributed around the mean with the current scale/shape (sample-moment observation "
                  "per strategy, generous thresholds); (3) convergence on a convex quadratic (one run per strategy incl. pycma, generous budget, under an "
                  "alarm so that a diverging optimizer is reported instead of hanging); (4) everything about the pycma wrapper (external: bounds, "
                  "finiteness, reset, convergence only). C18_sep_diag_pos_partial: 'the sep-CMA-ES diagonal stays STRICTLY positive' is proved only for "
                  "tells with alpha > 0; alpha = 0 is reachable (solution_dim 1 with >= ~26 parents; the parameter sweep counts it) -- non-negativity is "
                  "proved unconditionally. The real-number model takes C^(-1/2) (numpy.linalg.eigh, lazily refreshed) as an arbitrary input of every "
                  "tell, so no theorem relies on it. The theorems are about hand-written models; the tie to the Python code is the sampled "
                  "correspondence (discrete structure exact on reproduced Generator streams, update formulas to 1e-9 per step via the numpy "
                  "transcription harness/c18_util.py, _calc_strat_params against the model's formulas on a dimension x parent-count sweep) plus the "
                  "translated Adam/GA fragments. The rank-one term of the CMA-ES covariance update carries c1 twice in the code (c1*outer(pc,pc)*c1); "
                  "the model follows the code (the property only asks for symmetric PSD). OpenAI-ES ignores num_parents by design (it always uses the "
                  "whole ranked batch); this is recorded as an observation, not as a violation of the zero-parents clause.",
    "technique": "Rocq/Coq proof over an executable Gallina model (Q / draw streams) and a real-number model (Coq Reals) + "
                 "py2v-translated fragments with refinement lemmas + model-vs-implementation correspondence run",
    "design_ref": "DESIGN.md section 5, C18",
}

NATIVE = ["cma", "sep", "lm", "openai", "openai_mirror"]
MAX_ROUNDS = 150


def _classes():
    from ribs.emitters.opt import (CMAEvolutionStrategy, LMMAEvolutionStrategy, OpenAIEvolutionStrategy,
                                   SeparableCMAEvolutionStrategy)
    return {"cma": CMAEvolutionStrategy, "sep": SeparableCMAEvolutionStrategy, "lm": LMMAEvolutionStrategy,
            "openai": OpenAIEvolutionStrategy, "openai_mirror": OpenAIEvolutionStrategy}


def _bound(b, dt, dim):
    if b is None:
        return None
    if isinstance(b, list):
        return np.array([float(x) for x in b], dtype=dt)
    return float(b)


def make_es(case):
    dt = np.dtype(case["dtype"]).type
    kw = dict(sigma0=case["sigma0"], solution_dim=case["dim"], batch_size=case["batch"], seed=case["seed"], dtype=dt)
    lb, ub = _bound(case["lb"], dt, case["dim"]), _bound(case["ub"], dt, case["dim"])
    if lb is not None:
        kw["lower_bounds"] = lb
    if ub is not None:
        kw["upper_bounds"] = ub
    s = case["strategy"]
    if s == "lm" and case.get("n_vectors") is not None:
        kw["n_vectors"] = case["n_vectors"]
    if s in ("openai", "openai_mirror"):
        kw["mirror_sampling"] = (s == "openai_mirror")
        kw.update(case.get("adam", {}))
    with warnings.catch_warnings(), np.errstate(all="ignore"):
        warnings.simplefilter("ignore")   # batch_size 1: the constructor's strategy parameters for 0 parents are NaN (lazy gap only)
        return _classes()[s](**kw)


def bounds_arrays(case):
    dt = np.dtype(case["dtype"]).type
    lb = -np.inf if case["lb"] is None else _bound(case["lb"], dt, case["dim"])
    ub = np.inf if case["ub"] is None else _bound(case["ub"], dt, case["dim"])
    return np.asarray(lb, dtype=dt), np.asarray(ub, dtype=dt)


def _cp(x):
    return None if x is None else np.array(x, copy=True)


def snapshot(strategy, es):
    """public attributes describing the search distribution (copies)"""
    if strategy in ("cma", "sep"):
        d = dict(mean=_cp(es.mean), sigma=np.float64(es.sigma), ps=_cp(es.ps), pc=_cp(es.pc), cov=_cp(es.cov.cov),
                 evals=int(es.current_eval), eigenvalues=_cp(es.cov.eigenvalues), invsqrt=_cp(es.cov.invsqrt),
                 updated_eval=es.cov.updated_eval)
        if strategy == "cma":
            d["eigenbasis"] = _cp(es.cov.eigenbasis)
            d["lazy_gap"] = float(es.lazy_gap_evals)
        return d
    if strategy == "lm":
        return dict(mean=_cp(es.mean), sigma=np.float64(es.sigma), ps=_cp(es.ps), m=_cp(es.m), gens=int(es.current_gens),
                    n_vectors=int(es.n_vectors), cd=_cp(es.cd))
    return dict(theta=_cp(es.adam_opt.theta), sigma0=es.sigma0, noise=_cp(es.noise), ratio=float(es.last_update_ratio))


def same(a, b):
    if a is None or b is None:
        return a is None and b is None
    a, b = np.asarray(a), np.asarray(b)
    return a.shape == b.shape and a.dtype == b.dtype and bool(np.array_equal(a, b, equal_nan=True))


def snap_diff(s1, s2, keys=None):
    return [k for k in (keys or s1.keys()) if not same(s1[k], s2[k])]


def initial_deviations(strategy, es, x, case):
    """fields of a just-reset optimizer that are not the initial distribution at x (C18_initial_distribution, field by field)"""
    dt = np.dtype(case["dtype"])
    dim = case["dim"]
    x = np.asarray(x, dtype=dt)
    z = np.zeros(dim, dtype=dt)
    bad = []

    def chk(name, got, want):
        if not same(got, want):
            bad.append(name)
    if strategy in ("cma", "sep", "lm"):
        chk("mean", es.mean, x)
        if not (isinstance(es.sigma, (int, float, np.floating)) and float(es.sigma) == float(case["sigma0"])):
            bad.append("sigma")
        chk("ps", es.ps, z)
    if strategy in ("cma", "sep"):
        chk("pc", es.pc, z)
        if es.current_eval != 0:
            bad.append("current_eval")
        if strategy == "cma":
            chk("cov", es.cov.cov, np.eye(dim, dtype=dt))
            chk("eigenvalues", es.cov.eigenvalues, np.ones(dim, dtype=dt))
            chk("eigenbasis", es.cov.eigenbasis, np.eye(dim, dtype=dt))
            chk("invsqrt", es.cov.invsqrt, np.eye(dim, dtype=dt))
            if es.cov.updated_eval != 0:
                bad.append("updated_eval")
        else:
            chk("cov", es.cov.cov, np.ones(dim, dtype=dt))
    if strategy == "lm":
        if es.current_gens != 0:
            bad.append("current_gens")
        if np.shape(es.m) != (es.n_vectors, dim) or np.any(np.asarray(es.m) != 0):
            bad.append("m")
    if strategy in ("openai", "openai_mirror"):
        chk("theta", np.asarray(es.adam_opt.theta, dtype=np.float64), x.astype(np.float64))
        if es.noise is not None:
            bad.append("noise")
        if not np.isinf(es.last_update_ratio):
            bad.append("last_update_ratio")
    return bad


class _Hang(Exception):
    pass


def _alarm(signum, frame):
    raise _Hang()


def guarded(fn, seconds=20):
    old = signal.signal(signal.SIGALRM, _alarm)
    signal.alarm(seconds)
    try:
        return fn()
    except SystemError as e:
        # the alarm went off inside a numba dispatcher call: CPython reports "returned a result with an exception set" caused by _Hang
        if isinstance(e.__cause__, _Hang) or isinstance(e.__context__, _Hang):
            raise _Hang() from e
        raise
    finally:
        signal.alarm(0)
        signal.signal(signal.SIGALRM, old)


# ---------------------------------------------------------------------------------------------------------------
def predict_eigen(pre):
    """CMA-ES lazy refresh (DecompMatrix.update_eigensystem), same numpy calls on the same matrix"""
    if pre["evals"] <= pre["updated_eval"] + pre["lazy_gap"]:
        return dict(eigenvalues=pre["eigenvalues"], eigenbasis=pre["eigenbasis"], invsqrt=pre["invsqrt"],
                    updated_eval=pre["updated_eval"], cov=pre["cov"], refreshed=False)
    dt = pre["eigenbasis"].dtype
    cov = np.maximum(pre["cov"], pre["cov"].T)
    ev, eb = np.linalg.eigh(cov)
    ev = np.abs(ev).real.astype(dt)
    eb = eb.real.astype(dt)
    inv = (eb * (1 / np.sqrt(ev))) @ eb.T
    inv = np.maximum(inv, inv.T)
    return dict(eigenvalues=ev, eigenbasis=eb, invsqrt=inv, updated_eval=pre["evals"], cov=cov, refreshed=True)


def reproduce_ask(strategy, pub, rng, case, driver):
    """Shadow ask: the MODEL decides the round structure, numpy supplies draws and transforms.
    Returns dict(sols, noise, rounds, consumed, ambiguous) or None when resampling takes too long."""
    dt = np.dtype(case["dtype"]).type
    batch, dim = case["batch"], case["dim"]
    lb, ub = bounds_arrays(case)
    sigma = pub.get("sigma")
    if strategy == "openai_mirror":
        out = driver.call("C18", [1, batch, batch // 2])
        assert out[0] == 0, out
        half = U.draw_rows(strategy, rng, batch // 2, dim, dt, sigma)
        rows = np.array([half[i - 1] if i > 0 else -half[-i - 1] for (i,) in out[4]], dtype=dt).reshape(batch, dim)
        new = U.transform_rows(strategy, pub, rows)
        return dict(sols=new.astype(dt), noise=rows, rounds=out[1], consumed=out[2], ambiguous=False, multi=False)
    flags, draws, news = [], [], []
    ambiguous = False
    while True:
        out = driver.call("C18", [0, batch, flags])
        if out[0] == 0:
            break
        assert out[0] == 1, out
        k = out[1]
        rows = U.draw_rows(strategy, rng, k, dim, dt, sigma)
        new = U.transform_rows(strategy, pub, rows)
        ambiguous = ambiguous or U.near_bound(new.astype(dt) if dt == np.float32 else new, lb, ub)
        flags += [bool(x) for x in U.oob_rows(new, lb, ub)]
        draws.append(rows)
        news.append(new)
        if len(draws) > MAX_ROUNDS:
            return None
    if batch == 0:
        return dict(sols=np.empty((0, dim), dtype=dt), noise=np.empty((0, dim)), rounds=0, consumed=0, ambiguous=False, multi=False)
    all_rows, all_new = np.concatenate(draws), np.concatenate(news)
    sid = [r[0] for r in out[3]]
    nid = [r[0] for r in out[4]]
    return dict(sols=all_new[sid].astype(dt), noise=all_rows[nid], rounds=out[1], consumed=out[2], ambiguous=ambiguous,
                multi=out[1] > 1, ids=nid)


def gen_values(case, g, ranking, alt):
    """ranking values consistent with `ranking` (descending along it); `alt` gives a different set with the same order"""
    r = random.Random(case["seed"] * 1000 + g * 2 + (1 if alt else 0))
    b = len(ranking)
    if not alt:
        srt = sorted((r.gauss(0, 3) for _ in range(b)), reverse=True)
        vals = np.empty(b)
        vals[ranking] = srt
        return vals
    u = r.random()
    if u < 0.2:
        vals = np.empty(b)
        vals[ranking] = [1e6 - 17.5 * k * k for k in range(b)]
        return vals
    if u < 0.4:
        vals = np.empty((b, 2))
        vals[ranking, 0] = [-(k // 2) for k in range(b)]
        vals[ranking, 1] = [-(k % 2) - 0.25 * r.random() for k in range(b)]
        return vals
    # values that do NOT agree with the ranking order: tell must not notice (only ranking_indices carries the order)
    if u < 0.6:
        vals = np.empty(b)
        vals[ranking] = [3.5 * k - 7.0 for k in range(b)]     # ascending along the ranking (= reversed order)
        return vals
    if u < 0.75:
        return np.full(b, 0.125)                               # flat
    return np.array([r.gauss(0, 5) for _ in range(b)])         # unrelated


def P(kind, gen, detail, oracle, **kw):
    d = {"kind": kind, "gen": gen, "detail": detail, "oracle": oracle}
    d.update(kw)
    return d


def exact_mean_check(case, driver, pre_mean, count, sols, ranking, mu, kind):
    """model tell_mean over exact rationals; returns (mean' as Fractions, count', parent ids, tolerance array)"""
    w = U.log_weights(mu) if mu > 0 else np.zeros(0)
    sx = [2, kind, [q(x) for x in pre_mean], int(count), [[q(x) for x in row] for row in sols], [int(i) for i in ranking], int(mu),
          [q(x) for x in w]]
    out = driver.call("C18", sx)
    mean = [Fraction(a, b) for a, b in out[0]]
    return mean, out[1], out[2], w


def run_case(case, driver, stop_at_first=True):
    """Runs one history on the real optimizer (+ twin), the model and the shadow.  Returns (problems, stats)."""
    strategy = case["strategy"]
    dt = np.dtype(case["dtype"]).type
    batch, dim = case["batch"], case["dim"]
    lb, ub = bounds_arrays(case)
    stats = {"gens": 0, "multi_round": 0, "max_rounds": 0, "mu0": 0, "mu_mid": 0, "ambiguous": 0, "too_long": 0, "resets": 0,
             "refresh": 0, "bitwise_asks": 0, "asks": 0}
    probs = []
    es, twin = make_es(case), make_es(case)
    x0 = np.array(case["x0"], dtype=dt)
    es.reset(x0)
    twin.reset(x0)
    rng = np.random.default_rng(case["seed"])
    is_oa = strategy in ("openai", "openai_mirror")
    dev = initial_deviations(strategy, es, x0, case)
    if dev:
        probs.append(P("reset-not-initial", 0, "after construction + reset(x0) the fields %s are not the initial distribution at x0 "
                       "(mean x0, sigma0, zero paths, identity covariance, zero counters)" % dev, True, fields=dev))
    ad = dict(lr=0.001, beta1=0.9, beta2=0.999, epsilon=1e-8, l2_coeff=0.0)
    ad.update(case.get("adam", {}))
    rm, rv, rt = np.zeros(dim), np.zeros(dim), 0   # replica Adam moments (published rule)

    def done():
        return stop_at_first and probs

    for g, gen in enumerate(case["gens"]):
        if done():
            break
        if case.get("relay") and g and g % case["relay"][1] == 0:
            # checkpoint / resume between two generations: the copy continues exactly like the original
            import copy
            import pickle
            es = copy.deepcopy(es) if case["relay"][0] == "deepcopy" else pickle.loads(pickle.dumps(es))
        ranking = np.array(gen["perm"], dtype=np.int64)
        mu = int(gen["mu"])
        pre = snapshot(strategy, es)
        pub = dict(pre)
        if strategy == "cma":
            eig = predict_eigen(pre)
            pub.update(eigenvalues=eig["eigenvalues"], eigenbasis=eig["eigenbasis"])
            stats["refresh"] += eig["refreshed"]
        exp = reproduce_ask(strategy, pub, rng, case, driver)
        if exp is None:
            stats["too_long"] += 1
            break
        try:
            sols = guarded(lambda: np.array(es.ask()))
            tsols = guarded(lambda: np.array(twin.ask()))
        except _Hang:
            probs.append(P("ask-structure", g, "real ask() did not terminate within 20 s although the reproduced stream needs only "
                           "%d resampling rounds" % exp["rounds"], False))
            break
        stats["gens"] += 1
        stats["asks"] += 1
        stats["multi_round"] += exp["multi"]
        stats["max_rounds"] = max(stats["max_rounds"], exp["rounds"])
        if exp["ambiguous"]:
            stats["ambiguous"] += 1
            break
        # ---- O1: shape, dtype, finite, in bounds (the property's own statement)
        if sols.shape != (batch, dim) or sols.dtype != np.dtype(dt):
            probs.append(P("ask-shape", g, "ask() returned shape %s dtype %s, expected %s %s" % (sols.shape, sols.dtype, (batch, dim), np.dtype(dt)), True))
            break
        if not np.all(np.isfinite(sols)):
            probs.append(P("non-finite-sample", g, "ask() returned non-finite values", True))
            break
        if np.any(sols < lb[None]) or np.any(sols > ub[None]):
            bad = [int(i) for i in np.where(np.any((sols < lb[None]) | (sols > ub[None]), axis=1))[0]]
            probs.append(P("out-of-bounds-sample", g, "rows %s of ask() are outside the bounds: %s" % (bad, sols[bad].tolist()), True, rows=bad))
        if not same(sols, tsols):
            probs.append(P("nondeterministic-ask", g, "two optimizers with the same seed and history returned different samples", False))
            break
        # ---- C1: round structure / stream reproduction
        blas = strategy == "cma" or (strategy == "lm" and min(pre["gens"], pre["n_vectors"]) > 0)
        if same(sols, exp["sols"]):
            stats["bitwise_asks"] += 1
        elif not (blas and U.ulp_close(sols, exp["sols"], 8, np.maximum(np.abs(exp["sols"].astype(np.float64)), float(np.max(np.abs(exp["sols"]))) if exp["sols"].size else 0.0))):
            rows = [int(i) for i in np.where(np.any(sols != exp["sols"], axis=1))[0]]
            probs.append(P("ask-structure", g, "solutions differ from the recomputation mean + transform(draw[model's row->draw map]) in rows %s "
                           "(model: %d rounds, %d draws)" % (rows, exp["rounds"], exp["consumed"]), False, rows=rows,
                           impl=sols[rows].tolist(), model=exp["sols"][rows].tolist()))
        if strategy == "cma":
            for k in ("eigenvalues", "eigenbasis", "invsqrt", "updated_eval"):
                if not same(getattr(es.cov, k), eig[k]):
                    probs.append(P("lazy-eigen", g, "DecompMatrix.%s after ask() differs from the lazy-refresh rule (refresh iff current_eval > "
                                   "updated_eval + lazy_gap_evals; symmetrise, eigh, |eigenvalues|)" % k, False))
                    break
            if eig["refreshed"]:
                # oracle property of the external eigh actually used: B diag(l) B^T ~ sym(C), l >= 0
                rec = (eig["eigenbasis"].astype(np.float64) * eig["eigenvalues"].astype(np.float64)) @ eig["eigenbasis"].astype(np.float64).T
                tol = (1e-4 if dt == np.float32 else 1e-9) * max(1.0, float(np.max(np.abs(eig["cov"]))))
                if not np.all(np.abs(rec - eig["cov"]) <= tol) and np.all(np.linalg.eigvalsh(eig["cov"].astype(np.float64)) >= 0):
                    probs.append(P("eigh-oracle", g, "eigendecomposition used for sampling does not reconstruct the covariance", False))
        # ---- C2 / O2: what is recorded about a sample corresponds to the sample returned
        if is_oa:
            noise = es.noise
            if noise is None or np.shape(noise) != (batch, dim):
                probs.append(P("openai-es-noise-bookkeeping", g, "after ask() noise.shape == %s but %d solutions of dimension %d were returned "
                               "(model: %d resampling rounds)" % (np.shape(noise), batch, dim, exp["rounds"]), True,
                               noise_shape=list(np.shape(noise)), rounds=exp["rounds"]))
            else:
                rec = pre["theta"][None] + es.sigma0 * noise
                if not same(rec.astype(dt), sols):
                    rows = [int(i) for i in np.where(np.any(rec.astype(dt) != sols, axis=1))[0]]
                    probs.append(P("openai-es-noise-bookkeeping", g, "solutions[i] != theta + sigma0*noise[i] for rows %s" % rows, True, rows=rows))
                elif not same(np.asarray(noise), exp["noise"]):
                    probs.append(P("openai-es-noise-bookkeeping", g, "noise rows are not the draws the model assigns to the rows", False))
        zs = None
        if strategy == "lm":
            zs = getattr(es, "_solution_z", None)
            if zs is None or np.shape(zs) != (batch, dim):
                probs.append(P("lm-ma-es-z-bookkeeping", g, "_solution_z missing or of shape %s" % (np.shape(zs),), True))
                zs = None
            else:
                zs = np.array(zs)
                if not same(zs, exp["noise"].astype(dt)):
                    rows = [int(i) for i in np.where(np.any(zs != exp["noise"].astype(dt), axis=1))[0]]
                    # oracle: recompute the returned rows from the recorded z rows
                    rec = U.transform_rows("lm", pub, zs.astype(np.float64))
                    tol = 64 * (U.EPS32 if dt == np.float32 else U.EPS64)
                    bad = not np.all(np.abs(rec - sols) <= tol * (np.abs(rec) + pre["sigma"] * (1 + np.abs(zs)) + 1))
                    probs.append(P("lm-ma-es-z-bookkeeping", g, "_solution_z rows %s are not the draws that produced the returned rows" % rows, bad, rows=rows))
        if done():
            break
        # ---- tell
        mid = snapshot(strategy, es)
        vals = gen_values(case, g, ranking, False)
        vals2 = gen_values(case, g, ranking, True)
        with warnings.catch_warnings():
            warnings.simplefilter("ignore")
            try:
                es.tell(ranking, vals, mu)
                twin.tell(ranking, vals2, mu)
            except Exception as e:  # noqa
                probs.append(P("tell-raised", g, "tell() raised %r on a full ranking permutation with num_parents=%d" % (e, mu), True))
                break
        post, tpost = snapshot(strategy, es), snapshot(strategy, twin)
        stats["mu0"] += mu == 0
        stats["mu_mid"] += 1 < mu < batch
        # ---- O6: order only
        dk = snap_diff(post, tpost, [k for k in post if k != "ratio"])
        if dk:
            probs.append(P("ranking-values-used", g, "same ranking order, different ranking values => state differs in %s" % dk, True, fields=dk))
        if not is_oa:
            cnt_key = "gens" if strategy == "lm" else "evals"
            # ---- O3: sigma, covariance
            sg = float(post["sigma"])
            if not (np.isfinite(sg) and sg > 0):
                probs.append(P("sigma-not-positive-finite", g, "sigma = %r after tell" % sg, True))
            if not np.all(np.isfinite(post["mean"])):
                probs.append(P("mean-not-finite", g, "mean = %s" % post["mean"].tolist(), True))
            if strategy == "cma":
                C = post["cov"].astype(np.float64)
                sc = float(np.max(np.abs(C)))
                stol = 1e-12 if dt != np.float32 or pre["evals"] > 0 else 1e-6
                if not np.all(np.isfinite(C)) or float(np.max(np.abs(C - C.T))) > stol * sc:
                    probs.append(P("cov-not-symmetric", g, "max |C - C^T| = %r (max |C| = %r)" % (float(np.max(np.abs(C - C.T))), sc), True))
                else:
                    ev = np.linalg.eigvalsh((C + C.T) / 2)
                    if ev[0] < -1e-12 * max(abs(ev[-1]), 1e-300):
                        probs.append(P("cov-not-psd", g, "min eigenvalue %r, max %r" % (float(ev[0]), float(ev[-1])), True))
            if strategy == "sep":
                if not np.all(np.isfinite(post["cov"])) or np.any(post["cov"] <= 0):
                    probs.append(P("cov-not-psd", g, "sep-CMA-ES diagonal %s" % post["cov"].tolist(), True))
            # ---- O5: zero parents
            if mu == 0:
                dk = snap_diff(mid, post, [k for k in mid if k not in (cnt_key,)])
                if dk:
                    probs.append(P("zero-parents-changed-state", g, "num_parents = 0 changed %s" % dk, True, fields=dk))
            # ---- O4 + C3: weighted mean of the selected parents; exact model; counters
            mean_m, count_m, parents_m, w = exact_mean_check(case, driver, pre["mean"], pre[cnt_key], sols, ranking, mu,
                                                             1 if strategy == "lm" else 0)
            if count_m != post[cnt_key]:
                probs.append(P("counter", g, "%s: model %d, implementation %d" % (cnt_key, count_m, post[cnt_key]), False))
            if parents_m != [int(i) for i in ranking[:mu]]:
                probs.append(P("model-internal", g, "parent ids %s" % parents_m, False))
            if mu > 0:
                par = sols[ranking[:mu]].astype(np.float64)
                ref = np.sum(par * w[:, None], axis=0)
                tol = 8 * (mu + 2) * U.EPS64 * np.sum(np.abs(par * w[:, None]), axis=0) + 1e-300
                real = post["mean"].astype(np.float64)
                if real.shape != ref.shape or not np.all(np.abs(real - ref) <= tol):
                    probs.append(P("mean-not-weighted-average", g, "mean after tell %s is not the log-rank-weighted average %s of parents %s" % (
                        real.tolist(), ref.tolist(), [int(i) for i in ranking[:mu]]), True))
                mm = np.array([float(x) for x in mean_m])
                if real.shape != mm.shape or not np.all(np.abs(real - mm) <= tol):
                    probs.append(P("mean-model", g, "mean after tell %s differs from the model's exact recombination %s" % (real.tolist(), mm.tolist()), False))
            else:
                if [q(x) for x in post["mean"]] != mean_m:
                    probs.append(P("mean-model", g, "zero parents: model keeps the mean, implementation has %s" % post["mean"].tolist(), False))
            # ---- C4: one-step shadow of the real-number model
            with warnings.catch_warnings():
                warnings.simplefilter("ignore")
                if strategy == "cma":
                    pre2 = dict(pre, invsqrt=eig["invsqrt"])
                    sh = U.shadow_tell_cma(pre2, sols, ranking, mu, es.batch_size)
                    keys = ["sigma", "ps", "pc", "cov", "mean"]
                elif strategy == "sep":
                    sh = U.shadow_tell_sep(pre, sols, ranking, mu, es.batch_size)
                    keys = ["sigma", "ps", "pc", "cov", "mean"]
                else:
                    sh = U.shadow_tell_lm(pre, sols, exp["noise"].astype(dt), ranking, mu, batch, pre["n_vectors"])
                    keys = ["sigma", "ps", "m", "mean"]
            if sh.get("margin", 1.0) < 1e-9:
                stats["ambiguous"] += 1
            else:
                for k in keys:
                    if not U.rel_close(post[k], sh[k], 1e-9):
                        probs.append(P("update-rule", g, "%s after tell differs from the model's update formula: impl %s, model %s" % (
                            k, np.asarray(post[k]).tolist(), np.asarray(sh[k]).tolist()), False, field=k))
                        break
                if mu > 0 and strategy in ("cma", "sep") and not (sh["alpha"] >= 0 and sh["beta"] >= 0 and sh["gamma"] >= 0):
                    probs.append(P("coefficients", g, "alpha/beta/gamma = %r/%r/%r not all >= 0" % (sh["alpha"], sh["beta"], sh["gamma"]), False))
        else:
            # OpenAI-ES: theta' = Adam(published rule) on the model's rank-centred gradient computed from the recorded noise
            if es.noise is not None and np.shape(es.noise) == (batch, dim):
                out = driver.call("C18", [3, strategy == "openai_mirror", batch, dim, q(es.sigma0), [[q(x) for x in row] for row in exp["noise"]],
                                           [int(i) for i in ranking]])
                grad = np.array([float(Fraction(a, b)) for a, b in out[0]])
                th, rm, rv, rt = U.adam_published(pre["theta"], rm, rv, rt, grad, ad["lr"], ad["beta1"], ad["beta2"], ad["epsilon"], ad["l2_coeff"])
                tol = 1e-5 if dt == np.float32 else 1e-9
                real = post["theta"].astype(np.float64)
                if not np.all(np.abs(real - th) <= tol * (np.abs(th) + abs(ad["lr"]))):
                    probs.append(P("openai-es-update", g, "theta after tell %s differs from Adam(published rule) applied to the rank-centred gradient "
                                   "estimate of the recorded noise %s" % (real.tolist(), th.tolist()), False))
                if mu == 0 and not same(pre["theta"], post["theta"]):
                    stats["openai_mu0_moves"] = stats.get("openai_mu0_moves", 0) + 1
            if not np.all(np.isfinite(post["theta"])):
                probs.append(P("mean-not-finite", g, "theta = %s" % post["theta"].tolist(), True))
        try:
            r = es.check_stop(vals[ranking])
            if not isinstance(r, (bool, np.bool_)):
                probs.append(P("check-stop", g, "check_stop returned %r" % (r,), False))
        except Exception as e:  # noqa
            probs.append(P("check-stop", g, "check_stop raised %r" % (e,), False))
        # ---- O7: reset
        if case.get("reset_after") == g and not done():
            x1 = np.array(case["x1"], dtype=dt)
            es.reset(x1)
            twin.reset(x1)
            fresh = make_es(case)
            fresh.reset(x1)
            a, b = snapshot(strategy, es), snapshot(strategy, fresh)
            dk = snap_diff(a, b)
            if dk:
                probs.append(P("reset-not-initial", g, "after reset(x1) the fields %s differ from a freshly constructed optimizer reset at x1" % dk, True, fields=dk))
            dev = initial_deviations(strategy, es, x1, case)
            if dev:
                probs.append(P("reset-not-initial", g, "after a history and reset(x1) the fields %s are not the initial distribution at x1 "
                               "(mean x1, sigma0, zero paths, identity covariance, zero counters)" % dev, True, fields=dev))
            rm, rv, rt = np.zeros(dim), np.zeros(dim), 0
            stats["resets"] += 1
    return probs, stats


# ---------------------------------------------------------------------------------------------------------------
# generation
def _norm_q(p):
    """z with P(-z < N(0,1) < z) = p (bisection; no scipy needed)"""
    import math
    lo, hi = 0.0, 8.0
    for _ in range(60):
        mid = (lo + hi) / 2
        if math.erf(mid / math.sqrt(2)) < p:
            lo = mid
        else:
            hi = mid
    return (lo + hi) / 2


def gen_case(rng, tier, strategy=None):
    strategy = strategy or rng.choice(NATIVE)
    dim = rng.choice([1, 1, 2, 2, 3, 3, 4, 5, 6, 7, 8, 9, 10])
    if strategy == "lm":
        batch = rng.randint(1, dim)
    elif strategy == "openai":
        batch = rng.choice([2, 3, 4, 5, 6, 7, 9, 12])
    elif strategy == "openai_mirror":
        batch = rng.choice([2, 4, 6, 8, 12])
    else:
        batch = rng.choice([2, 2, 3, 4, 5, 6, 7, 8, 10, 12, 1 if rng.random() < 0.3 else 4])
    dtype = rng.choice(["float64", "float64", "float32"])
    sigma0 = rng.choice([0.125, 0.5, 1.0, 2.5])
    x0 = [round(rng.uniform(-2, 2), 3) for _ in range(dim)]
    layout = "none" if strategy == "openai_mirror" else rng.choice(["none", "scalar", "scalar", "vector", "vector", "mixed", "lower", "upper", "zero"])
    acc = rng.choice([0.9, 0.6, 0.35, 0.2])
    zq = _norm_q(acc ** (1.0 / dim))
    lb = ub = None
    if layout == "zero":
        # ONE scalar bound that is exactly zero (0.0 or -0.0), the other side unbounded
        a0 = round(zq * sigma0 * rng.uniform(0.7, 1.3), 3) + 0.001
        if rng.random() < 0.5:
            x0, lb = [a0] * dim, rng.choice([0.0, -0.0])
        else:
            x0, ub = [-a0] * dim, rng.choice([0.0, -0.0])
    elif layout == "scalar":
        x0 = [x0[0]] * dim
        lb, ub = x0[0] - zq * sigma0 * rng.uniform(0.7, 1.3), x0[0] + zq * sigma0 * rng.uniform(0.7, 1.3)
    elif layout in ("vector", "mixed", "lower", "upper"):
        lb = [x - zq * sigma0 * rng.uniform(0.6, 1.5) for x in x0]
        ub = [x + zq * sigma0 * rng.uniform(0.6, 1.5) for x in x0]
        if layout == "mixed":
            for i in range(dim):
                r = rng.random()
                if r < 0.3:
                    lb[i] = float("-inf")
                elif r < 0.6:
                    ub[i] = float("inf")
        if layout == "lower":
            ub = None
        if layout == "upper":
            lb = None
    # bounds must be representable in the dtype so that x0 stays inside after casting
    if dtype == "float32":
        cast = lambda v: None if v is None else ([float(np.float32(t)) for t in v] if isinstance(v, list) else float(np.float32(v)))
        lb, ub, x0, sigma0 = cast(lb), cast(ub), cast(x0), float(np.float32(sigma0))
    ngen = rng.randint(2, 7) if tier == "quick" else rng.randint(2, 24)
    gens = []
    for _ in range(ngen):
        perm = list(range(batch))
        rng.shuffle(perm)
        r = rng.random()
        mu = 0 if r < 0.15 else 1 if r < 0.25 else batch if r < 0.35 else max(batch // 2, 1) if r < 0.6 else rng.randint(1, batch)
        gens.append({"perm": perm, "mu": mu})
    case = {"strategy": strategy, "dim": dim, "batch": batch, "dtype": dtype, "sigma0": sigma0, "x0": x0, "lb": lb, "ub": ub,
            "layout": layout, "seed": rng.randrange(1 << 30), "gens": gens}
    if rng.random() < 0.3:
        case["relay"] = [rng.choice(["deepcopy", "pickle"]), rng.choice([1, 2, 3])]
    if rng.random() < 0.45:
        case["reset_after"] = rng.randrange(ngen)
        x1 = [round(rng.uniform(-1, 1), 3) for _ in range(dim)]
        if layout == "scalar":
            x1 = [(lb + ub) / 2] * dim
        elif layout == "zero":
            x1 = [sigma0 if lb is not None else -sigma0] * dim
        elif lb is not None or ub is not None:
            x1 = []
            for i in range(dim):
                lo = lb[i] if lb is not None else float("-inf")
                hi = ub[i] if ub is not None else float("inf")
                x1.append((lo + hi) / 2 if np.isfinite(lo) and np.isfinite(hi) else (lo + sigma0 if np.isfinite(lo) else hi - sigma0 if np.isfinite(hi) else 0.0))
        case["x1"] = x1
    if strategy == "lm" and rng.random() < 0.5:
        case["n_vectors"] = rng.randint(1, batch + 2)
    if strategy in ("openai", "openai_mirror") and rng.random() < 0.6:
        case["adam"] = {"lr": rng.choice([0.001, 0.05, 0.3]), "beta1": rng.choice([0.9, 0.5, 0.0]), "beta2": rng.choice([0.999, 0.9]),
                        "epsilon": rng.choice([1e-8, 1e-3]), "l2_coeff": rng.choice([0.0, 0.0, 0.01, 0.5])}
    return case


def reduce_case(case, dim=None, batch=None):
    c = json.loads(json.dumps(case))
    if dim is not None and dim < c["dim"]:
        c["dim"] = dim
        for k in ("x0", "x1", "lb", "ub"):
            if isinstance(c.get(k), list):
                c[k] = c[k][:dim]
    if batch is not None and batch < c["batch"]:
        c["batch"] = batch
        for g in c["gens"]:
            g["perm"] = [i for i in g["perm"] if i < batch]
            g["mu"] = min(g["mu"], batch)
    if c["strategy"] == "lm" and c["batch"] > c["dim"]:
        return None
    if c["strategy"] == "openai" and c["batch"] < 2:
        return None
    if c["strategy"] == "openai_mirror" and (c["batch"] < 2 or c["batch"] % 2):
        return None
    if c["batch"] < 1 or c["dim"] < 1:
        return None
    return c


def shrink(case, kind, driver, budget=12.0):
    """truncate at the first failing generation, then greedily drop generations / reduce batch and dim while the same kind
    of problem persists"""
    t0 = time.time()

    def fails(c):
        if c is None or time.time() - t0 > budget:
            return None
        try:
            pr, _ = run_case(c, driver)
        except Exception:  # noqa
            return None
        pr = [p for p in pr if p["kind"] == kind]
        return pr or None

    best = case
    pr = fails(case)
    if not pr:
        return case, None
    g = min(p["gen"] for p in pr)
    c = dict(best, gens=best["gens"][:g + 1])
    if c.get("reset_after") is not None and c["reset_after"] > g:
        c.pop("reset_after")
    if fails(c):
        best = c
    changed = True
    while changed and time.time() - t0 < budget:
        changed = False
        for k in range(len(best["gens"]) - 1):
            c = dict(best, gens=best["gens"][:k] + best["gens"][k + 1:])
            ra = c.get("reset_after")
            if ra is not None:
                if ra == k:
                    c.pop("reset_after")
                elif ra > k:
                    c["reset_after"] = ra - 1
            if fails(c):
                best, changed = c, True
                break
        if changed:
            continue
        for c in (reduce_case(best, batch=best["batch"] - 1), reduce_case(best, batch=best["batch"] - 2), reduce_case(best, dim=best["dim"] - 1)):
            if c is not None and c != best and fails(c):
                best, changed = c, True
                break
    return best, fails(best) or pr


def nontrivial(case, stats):
    return stats["gens"] >= 2 and stats["mu_mid"] >= 1 and (stats["multi_round"] >= 1 or case["strategy"] == "openai_mirror")


TAG_OF = {"openai-es-noise-bookkeeping": "openai-es-noise-bookkeeping"}
THEOREMS = {
    "ask-structure": ["C18_bookkeeping (round structure of the resampling loop)"],
    "openai-es-noise-bookkeeping": ["C18_bookkeeping", "C18_bookkeeping_openai_unpatched_refuted"],
    "lm-ma-es-z-bookkeeping": ["C18_bookkeeping"],
    "out-of-bounds-sample": ["resample_all_in_bounds"],
    "mean-not-weighted-average": ["C18_weights", "C18_mean_in_hull"], "mean-model": ["C18_mean_in_hull"],
    "zero-parents-changed-state": ["C18_zero_parents"], "ranking-values-used": ["C18_order_only", "C18_order_only_histories"],
    "reset-not-initial": ["C18_reset", "C18_initial_distribution"], "sigma-not-positive-finite": ["C18_sigma_pos"],
    "cov-not-symmetric": ["C18_cov_psd_sym"], "cov-not-psd": ["C18_cov_psd_sym", "C18_sep_diag_pos_partial"],
    "coefficients": ["C18_cov_coefficients_cma", "C18_cov_coefficients_sep"],
    "update-rule": ["correspondence Model/OptReal.v (via harness/c18_util.py) vs tell()"], "counter": ["C18_zero_parents (counter clause)"],
    "lazy-eigen": ["correspondence: DecompMatrix.update_eigensystem"], "openai-es-update": ["correspondence: Model/Opt.v openai_gradient + published Adam"],
}


def report_problem(rep, case, kind, driver, reported):
    if kind in reported:
        return
    reported.add(kind)
    small, pr = shrink(case, kind, driver)
    pr = pr or []
    found = any(p["oracle"] for p in pr)
    first = pr[0] if pr else {"detail": "(not reproducible while shrinking)", "gen": None}
    rep.violation("%s [%s]: %s" % (kind, small["strategy"], first["detail"][:600]),
                  {"kind": "correspondence" if not found else "property", "broken": THEOREMS.get(kind, [kind]), "case": small,
                   "problems": [{k: v for k, v in p.items()} for p in pr[:4]],
                   "replay_hint": "harness/c18.py: run_case(case, driver)"},
                  found, {"kind": TAG_OF.get(kind, kind), "strategy": small["strategy"]})


# ---------------------------------------------------------------------------------------------------------------
# gradient optimizers vs published rules
def check_grad_opts(rep, rng, n):
    from ribs.emitters.opt import AdamOpt, GradientAscentOpt
    worst = None
    for i in range(n):
        dim = rng.choice([1, 2, 3, 7])
        r = np.random.default_rng(rng.randrange(1 << 30))
        hp = dict(lr=rng.choice([0.001, 0.01, 0.3, 1.0]), beta1=rng.choice([0.9, 0.5, 0.0, 0.99]), beta2=rng.choice([0.999, 0.9, 0.5]),
                  epsilon=rng.choice([1e-8, 1e-3, 1.0]), l2_coeff=rng.choice([0.0, 0.0, 0.01, 0.5, 2.0]))
        theta0 = r.normal(0, rng.choice([0.0, 1.0, 100.0]), dim)
        steps = rng.randint(1, 12)
        grads = [r.normal(0, rng.choice([1e-6, 1.0, 1e3]), dim) * (r.random(dim) > 0.15) for _ in range(steps)]
        opt = AdamOpt(theta0.copy(), **hp)
        th, m, v, t = theta0.astype(np.float64), np.zeros(dim), np.zeros(dim), 0
        rep.count("adam_sequences")
        for k, g in enumerate(grads):
            if k == steps // 2 and rng.random() < 0.3:
                opt.reset(theta0.copy())
                th, m, v, t = theta0.astype(np.float64), np.zeros(dim), np.zeros(dim), 0
            g_in = g.copy()
            if rng.random() < 0.2:
                # a step() that raises (gradient None / not numeric) is not a step: the rule continues from where it was
                try:
                    opt.step(None if rng.random() < 0.5 else ["x"] * dim)
                    rep.count("adam_bad_gradient_accepted")
                except Exception:  # noqa
                    rep.count("adam_rejected_steps")
            opt.step(g_in if rng.random() < 0.5 else g_in.tolist())
            th, m, v, t = U.adam_published(th, m, v, t, g, **hp)
            real = np.asarray(opt.theta, dtype=np.float64)
            if not np.all(np.abs(real - th) <= 1e-12 * (np.abs(th) + hp["lr"])):
                worst = worst or {"optimizer": "AdamOpt", "hyper": hp, "theta0": theta0.tolist(), "gradients": [x.tolist() for x in grads[:k + 1]],
                                  "impl_theta": real.tolist(), "published_rule_theta": th.tolist(), "step": k}
                break
        lr = rng.choice([0.001, 0.1, 1.0, 3.0])
        ga = GradientAscentOpt(theta0.copy(), lr)
        th = theta0.astype(np.float64)
        rep.count("ga_sequences")
        for k, g in enumerate(grads):
            if rng.random() < 0.2:
                try:
                    ga.step(None if rng.random() < 0.5 else ["x"] * dim)
                except Exception:  # noqa
                    rep.count("ga_rejected_steps")
            ga.step(g)
            th = U.ga_published(th, g, lr)
            real = np.asarray(ga.theta, dtype=np.float64)
            if not np.all(np.abs(real - th) <= 1e-12 * (np.abs(th) + lr)):
                worst = worst or {"optimizer": "GradientAscentOpt", "lr": lr, "theta0": theta0.tolist(), "gradients": [x.tolist() for x in grads[:k + 1]],
                                  "impl_theta": real.tolist(), "published_rule_theta": th.tolist(), "step": k}
                break
    return worst


# ---------------------------------------------------------------------------------------------------------------
# strategy parameters: the real _calc_strat_params against the model's formulas (Model/OptReal.v via c18_util) and against the
# statements of C18_weights / C18_cov_coefficients_* evaluated numerically
def check_strat_params(rep, rng, tier):
    from ribs.emitters.opt import CMAEvolutionStrategy, LMMAEvolutionStrategy, SeparableCMAEvolutionStrategy
    dims = [1, 2, 3, 5, 10, 33, 100] + ([rng.randint(1, 400) for _ in range(6)] if tier == "quick" else list(range(4, 60, 5)) + [rng.randint(1, 3000) for _ in range(20)])
    mus = [1, 2, 3, 4, 7, 16, 26, 27, 64, 257] + [rng.randint(1, 600) for _ in range(4 if tier == "quick" else 30)]
    worst = None
    alpha_zero = 0

    def bad(kind, what, **kw):
        nonlocal worst
        if worst is None:
            worst = dict(kind=kind, what=what, **kw)

    for n in dims:
        objs = {}
        with warnings.catch_warnings(), np.errstate(all="ignore"):
            warnings.simplefilter("ignore")
            objs["cma"] = CMAEvolutionStrategy(sigma0=1.0, solution_dim=n, batch_size=4, seed=1)
            objs["sep"] = SeparableCMAEvolutionStrategy(sigma0=1.0, solution_dim=n, batch_size=4, seed=1)
            objs["lm"] = LMMAEvolutionStrategy(sigma0=1.0, solution_dim=max(n, 1), batch_size=1, seed=1)
        for mu in mus:
            ref_w = U.log_weights(mu)
            for strat, es in objs.items():
                fn = getattr(es, "_calc_strat_params", None)
                if fn is None:
                    rep.count("strat_params_private_method_missing")
                    continue
                try:
                    out = fn(mu) if strat in ("cma", "lm") else fn(n, mu)
                except Exception as e:  # noqa
                    bad("strategy-parameters", "%s._calc_strat_params(num_parents=%d) raised %r" % (strat, mu, e), strategy=strat, dim=n, mu=mu)
                    continue
                rep.count("strat_params_evaluated")
                w = np.asarray(out[0], dtype=np.float64)
                # C18_weights, numerically: positive, strictly decreasing, sum 1, proportional to ln(mu + 1/2) - ln(i)
                ok_w = (w.shape == (mu,) and np.all(w > 0) and np.all(np.diff(w) < 0) and abs(float(np.sum(w)) - 1.0) <= 1e-12 * max(1, mu ** 0.5)
                        and np.allclose(w, ref_w, rtol=1e-9, atol=1e-14))
                if not ok_w:
                    bad("weights", "%s recombination weights for num_parents=%d are not the normalised ln(mu+1/2)-ln(i): positive, strictly "
                        "decreasing, summing to 1" % (strat, mu), strategy=strat, dim=n, mu=mu, impl=w[:8].tolist(), model=ref_w[:8].tolist())
                    continue
                if strat == "lm":
                    if not U.rel_close(out[1], U.mueff_of(ref_w), 1e-10):
                        bad("strategy-parameters", "lm mueff %r differs from the model's %r" % (float(out[1]), float(U.mueff_of(ref_w))), strategy=strat, dim=n, mu=mu)
                    continue
                model = (U.cma_params if strat == "cma" else U.sep_params)(n, mu)
                names = ["weights", "mueff", "cc", "cs", "c1", "cmu"]
                for nm, a, b in zip(names[1:], out[1:], model[1:]):
                    if not U.rel_close(a, b, 1e-10):
                        bad("strategy-parameters", "%s %s = %r differs from the model's formula %r (dim %d, num_parents %d)" % (strat, nm, float(a), float(b), n, mu),
                            strategy=strat, dim=n, mu=mu, field=nm)
                _, mueff, cc, cs, c1, cmu = [float(x) if np.ndim(x) == 0 else x for x in out]
                sw = float(np.sum(w))
                for hsig in (0, 1):
                    c1a = c1 * (1 - (1 - hsig ** 2) * cc * (2 - cc))
                    alpha = 1 - c1a - cmu * sw
                    cond = (mueff >= 1 - 1e-12 and 0 <= c1a <= c1 * (1 + 1e-15) and 0 <= cmu <= 1 - c1 + 1e-15 and alpha >= -4e-16 * mu ** 0.5)
                    if not cond:
                        bad("coefficients", "%s dim %d num_parents %d hsig %d: c1a=%r c1=%r cmu=%r alpha=%r violate 0<=c1a<=c1, 0<=cmu<=1-c1, alpha>=0 "
                            "(C18_cov_coefficients_%s)" % (strat, n, mu, hsig, c1a, c1, cmu, alpha, strat), strategy=strat, dim=n, mu=mu)
                    if alpha <= 1e-12:
                        alpha_zero += 1
    rep.count("strat_params_alpha_zero_reached", alpha_zero)
    return worst


# ---------------------------------------------------------------------------------------------------------------
# observations (statistical; generous thresholds)
def observe_moments(rep, rng, strategy, dim, N):
    case = {"strategy": strategy, "dim": dim, "batch": min(4, dim) if strategy == "lm" else 6, "dtype": "float64", "sigma0": 0.7,
            "x0": [0.3] * dim, "lb": None, "ub": None, "seed": rng.randrange(1 << 30), "gens": []}
    es = make_es(case)
    es.reset(np.array(case["x0"]))
    r = np.random.default_rng(case["seed"] + 1)
    for _ in range(8):   # move away from the initial isotropic state
        s = np.array(es.ask())
        f = -np.sum((s - 1.0) ** 2 * np.arange(1, dim + 1), axis=1)
        with warnings.catch_warnings():
            warnings.simplefilter("ignore")
            es.tell(np.argsort(-f), f, case["batch"] // 2 or 1)
    if strategy in ("openai", "openai_mirror"):
        mean, cov = np.array(es.adam_opt.theta, dtype=float), es.sigma0 ** 2 * np.eye(dim)
        X = np.concatenate([np.array(es.ask()) for _ in range(N // case["batch"])])
    else:
        X = np.array(es.ask(batch_size=N))
        mean = np.array(es.mean, dtype=float)
        if strategy == "cma":
            B, D = es.cov.eigenbasis.astype(float), es.cov.eigenvalues.astype(float)
            cov = es.sigma ** 2 * (B * D) @ B.T
        elif strategy == "sep":
            cov = es.sigma ** 2 * np.diag(es.cov.eigenvalues.astype(float))
        else:
            M = np.eye(dim)
            for j in range(min(es.current_gens, es.n_vectors)):
                M = ((1 - es.cd[j]) * np.eye(dim) + es.cd[j] * np.outer(es.m[j], es.m[j])) @ M
            cov = es.sigma ** 2 * M @ M.T
    n = len(X)
    zmax = float(np.max(np.abs(X.mean(axis=0) - mean) / np.sqrt(np.diag(cov) / n)))
    S = np.cov(X.T).reshape(dim, dim)
    rel = float(np.linalg.norm(S - cov) / np.linalg.norm(cov))
    rep.extra.setdefault("observations", []).append({"observation": "sample moments", "strategy": strategy, "dim": dim, "draws": n,
                                                     "max_z_of_sample_mean": round(zmax, 3), "rel_frobenius_error_of_sample_cov": round(rel, 4)})
    return zmax, rel


def observe_convergence(rep, rng, strategy, dim, gens):
    opt_pt = np.linspace(0.5, 1.5, dim)
    a = np.linspace(1.0, 3.0, dim)
    if strategy == "pycma":
        from ribs.emitters.opt import PyCMAEvolutionStrategy
        es = PyCMAEvolutionStrategy(sigma0=0.5, solution_dim=dim, batch_size=8, seed=rng.randrange(1 << 30), lower_bounds=-4.0, upper_bounds=4.0)
    else:
        if strategy == "lm":
            dim, gens = 10, 300   # LM-MA-ES needs batch_size <= solution_dim and is meant for batch << dim
        case = {"strategy": strategy, "dim": dim, "batch": 5 if strategy == "lm" else 8, "dtype": "float64", "sigma0": 0.5, "x0": [0.0] * dim,
                "lb": -4.0, "ub": 4.0, "seed": rng.randrange(1 << 30), "gens": []}
        if strategy == "openai_mirror":
            case["lb"] = case["ub"] = None
        if strategy in ("openai", "openai_mirror"):
            case["adam"] = {"lr": 0.05}
            case["sigma0"] = 0.1
        es = make_es(case)
    es.reset(np.zeros(dim))
    opt_pt, a = np.linspace(0.5, 1.5, dim), np.linspace(1.0, 3.0, dim)
    d0 = float(np.linalg.norm(opt_pt))
    inb = True
    for _ in range(gens):
        s = np.array(es.ask())
        inb = inb and bool(np.all(np.isfinite(s)) and np.all(s >= -4.0) and np.all(s <= 4.0)) if strategy != "openai_mirror" else inb
        f = -np.sum(a * (s - opt_pt) ** 2, axis=1)
        with warnings.catch_warnings():
            warnings.simplefilter("ignore")
            es.tell(np.argsort(-f), f, len(s) // 2)
    if strategy == "pycma":
        s = np.array(es.ask())
        d1 = float(np.linalg.norm(s.mean(axis=0) - opt_pt))
    elif strategy in ("openai", "openai_mirror"):
        d1 = float(np.linalg.norm(es.adam_opt.theta - opt_pt))
    else:
        d1 = float(np.linalg.norm(es.mean - opt_pt))
    rep.extra.setdefault("observations", []).append({"observation": "convergence on a convex quadratic (true ranks)", "strategy": strategy, "dim": dim,
                                                     "generations": gens, "distance_before": round(d0, 4), "distance_after": d1, "all_samples_in_bounds": inb})
    return d0, d1, inb


def check_pycma(rep, rng):
    """pycma wrapper: bounds, finiteness, reset (observed only)"""
    try:
        import cma  # noqa
    except Exception:  # noqa
        rep.notes.append("pycma not importable: wrapper not exercised")
        return
    from ribs.emitters.opt import PyCMAEvolutionStrategy
    for dim, dt in ((2, np.float64), (3, np.float32), (5, np.float64)):
        lbv, ubv = -1.0, 2.0
        es = PyCMAEvolutionStrategy(sigma0=0.8, solution_dim=dim, batch_size=6, seed=rng.randrange(1 << 30), dtype=dt, lower_bounds=lbv, upper_bounds=ubv)
        x0 = np.full(dim, 0.5)
        es.reset(x0)
        rep.count("pycma_histories")
        for g in range(6):
            s = np.array(es.ask())
            ok = s.shape == (6, dim) and s.dtype == np.dtype(dt) and np.all(np.isfinite(s)) and np.all(s >= np.float32(lbv) - 1e-6) and np.all(s <= np.float32(ubv) + 1e-6)
            if not ok:
                rep.violation("pycma wrapper returned out-of-bounds / non-finite / mis-typed samples", {"kind": "property", "dim": dim, "dtype": np.dtype(dt).name,
                              "generation": g, "samples": s.tolist(), "bounds": [lbv, ubv]}, True, {"kind": "pycma-samples"})
                return
            f = -np.sum((s - 1.0) ** 2, axis=1)
            es.tell(np.argsort(-f), f, 3)
        es.reset(x0)
        s = np.array(es.ask())
        if not (np.all(np.isfinite(s)) and np.all(np.abs(s - x0[None]) <= 8 * 0.8 + 1e-9)):
            rep.violation("pycma wrapper: samples after reset(x0) are not around x0 with the initial step size", {"kind": "property", "dim": dim, "samples": s.tolist()},
                          True, {"kind": "pycma-reset"})
            return


def check_explicit_batch(rep, rng):
    """ask(batch_size=K) with K different from the constructor's batch size is documented; the strategies count the solutions they were
    actually told about (the evaluation counter drives the lazy eigendecomposition and the h_sigma normaliser of the update rules)"""
    from ribs.emitters.opt import CMAEvolutionStrategy, SeparableCMAEvolutionStrategy
    for cls, name in ((CMAEvolutionStrategy, "cma_es"), (SeparableCMAEvolutionStrategy, "sep_cma_es")):
        for dt in (np.float64, np.float32):
            b0, K = rng.choice([(4, 10), (6, 3), (2, 7)])
            es = cls(sigma0=0.5, solution_dim=3, batch_size=b0, seed=rng.randrange(1 << 30), dtype=dt)
            es.reset(np.zeros(3))
            rep.count("explicit_batch_histories")
            told = 0
            for g in range(5):
                X = np.array(es.ask(batch_size=K))
                f = -np.sum((X.astype(np.float64) - 0.5) ** 2, axis=1)
                es.tell(np.argsort(-f), f, max(K // 2, 1))
                told += K
                if X.shape != (K, 3) or int(es.current_eval) != told:
                    rep.violation("%s: after %d generations of ask(batch_size=%d) / tell the strategy has counted %d evaluations, %d solutions were told "
                                  "(constructor batch size %d)" % (name, g + 1, K, int(es.current_eval), told, b0),
                                  {"kind": "property", "broken": "C18 (update rules: the evaluation counter feeds the lazy eigen-update and h_sigma)",
                                   "case": {"strategy": name, "dtype": np.dtype(dt).name, "ctor_batch": b0, "ask_batch": K, "generation": g + 1}},
                                  True, {"kind": "evaluation-counter"})
                    return


def check_slow_resampling(rep, rng):
    """bounds that reject almost every draw (the mean sits in a corner of an 8-dimensional box: acceptance 2^-8 per row), so that the
    resampling loops run for HUNDREDS of rounds (OpenAI-ES warns after 100): the returned rows are in bounds and, for OpenAI-ES without
    mirror sampling, row i is still exactly theta + sigma0 * noise[i] of the recorded noise"""
    import warnings
    from ribs.emitters.opt import CMAEvolutionStrategy, OpenAIEvolutionStrategy
    dim = 8
    for cls, name, kw in ((OpenAIEvolutionStrategy, "openai_es", {"mirror_sampling": False}), (CMAEvolutionStrategy, "cma_es", {})):
        dt = rng.choice([np.float64, np.float32])
        lb, ub = np.zeros(dim, dtype=dt), np.full(dim, 4.0, dtype=dt)
        corner = np.array([0.0 if rng.random() < 0.5 else 4.0 for _ in range(dim)], dtype=dt)
        es = cls(sigma0=0.25, solution_dim=dim, batch_size=6, seed=rng.randrange(1 << 30), dtype=dt, lower_bounds=lb, upper_bounds=ub, **kw)
        es.reset(corner.copy())
        rep.count("slow_resampling_asks")
        with warnings.catch_warnings():
            warnings.simplefilter("ignore")
            X = np.array(es.ask())
        where = None
        if X.shape != (6, dim) or not np.all((X >= lb) & (X <= ub)):
            where = "rows outside the bounds"
        elif name == "openai_es":
            theta = np.asarray(es.adam_opt.theta)
            rec = (theta[None] + es.sigma0 * np.asarray(es.noise)).astype(dt) if np.shape(es.noise) == (6, dim) else None
            if rec is None or not np.array_equal(rec, X):
                rows = [] if rec is None else [int(i) for i in np.where(np.any(rec != X, axis=1))[0]]
                where = "solutions[i] != theta + sigma0*noise[i] for rows %s" % rows
        if where:
            rep.violation("%s with the mean in a corner of its bounds (hundreds of resampling rounds): %s" % (name, where),
                          {"kind": "property", "broken": "C18 (what an optimizer records about a sample corresponds to the sample it returned; samples respect the bounds)",
                           "case": {"strategy": name, "dtype": np.dtype(dt).name, "dim": dim, "batch": 6, "sigma0": 0.25, "theta": corner.tolist(),
                                    "bounds": [0.0, 4.0]}, "solutions": X.tolist()}, True,
                          {"kind": "openai-es-noise-bookkeeping" if name == "openai_es" else "ask-structure"})
            return


def check_unusual_orders(rep, rng):
    """histories that do not alternate: (1) ask() changes nothing -- after some real generations, ask(K) twice in a row returns the rows that
    one ask(2K) of a deep copy returns (unbounded: no resampling, so the draws are consumed in the same order); (2) reset(x0') in the
    middle of a generation followed by the tell of the outstanding samples: the step size stays finite and grows by at most the
    published cap e = exp(1) in one tell"""
    import copy
    from ribs.emitters.opt import CMAEvolutionStrategy, LMMAEvolutionStrategy, SeparableCMAEvolutionStrategy
    for cls, name in ((LMMAEvolutionStrategy, "lm_ma_es"), (CMAEvolutionStrategy, "cma_es"), (SeparableCMAEvolutionStrategy, "sep_cma_es")):
        dim, K = 6, 4
        es = cls(sigma0=0.5, solution_dim=dim, batch_size=K, seed=rng.randrange(1 << 30), dtype=np.float64)
        es.reset(np.full(dim, 0.3))
        for g in range(3):
            X = np.array(es.ask())
            f = -np.sum((X - 1.0) ** 2, axis=1)
            es.tell(np.argsort(-f), f, max(K // 2, 1))
        twin = copy.deepcopy(es)
        a = np.concatenate([np.array(es.ask()), np.array(es.ask())])
        b = np.array(twin.ask(batch_size=2 * K))
        rep.count("ask_twice_probes")
        if a.shape != b.shape or not np.allclose(a, b, rtol=1e-12, atol=1e-12):
            rep.violation("%s: after three generations, ask() twice in a row does not return the rows one ask(batch_size=2K) of a deep copy returns "
                          "(max abs difference %s): the second ask() found another distribution than the first" % (
                              name, float(np.max(np.abs(a - b))) if a.shape == b.shape else "shape %s vs %s" % (a.shape, b.shape)),
                          {"kind": "property", "broken": "C18 (samples follow the current mean / scale / shape for every ask / tell history)",
                           "case": {"strategy": name, "dim": dim, "batch": K}}, True, {"kind": "ask-structure"})
            return
    for cls, name in ((CMAEvolutionStrategy, "cma_es"), (SeparableCMAEvolutionStrategy, "sep_cma_es")):
        dim, K = 5, 8
        shift = rng.choice([3.0, 1000.0])
        es = cls(sigma0=0.5, solution_dim=dim, batch_size=K, seed=rng.randrange(1 << 30), dtype=np.float64)
        es.reset(np.zeros(dim))
        X = np.array(es.ask())
        es.reset(np.full(dim, shift))
        f = -np.sum(X ** 2, axis=1)
        es.tell(np.argsort(-f), f, K // 2)
        rep.count("reset_mid_generation_probes")
        if not np.isfinite(es.sigma) or not (0 < es.sigma <= 0.5 * np.e * (1 + 1e-9)):
            rep.violation("%s: ask(); reset(x0 + %g); tell(the outstanding samples): sigma goes from 0.5 to %r in ONE tell (the published update "
                          "multiplies by at most e)" % (name, shift, float(es.sigma)),
                          {"kind": "property", "broken": "C18 (the step size stays positive and finite; sigma update rule)",
                           "case": {"strategy": name, "dim": dim, "batch": K, "shift": shift}}, True, {"kind": "sigma-update"})
            return


def check_pycma_ranking(rep, rng):
    """pycma wrapper: the update uses the ranking ORDER only -- two identically seeded wrappers told the same ranking once through 1-D
    ranking values and once through 2-D ones (the two-stage rankers' layout) must stay in lock step (bit-identical next ask)"""
    try:
        import cma  # noqa
    except Exception:  # noqa
        return
    from ribs.emitters.opt import PyCMAEvolutionStrategy
    for dim, dt, bs in ((3, np.float64, 7), (4, np.float32, 6)):
        seed = rng.randrange(1 << 30)
        mk = lambda: PyCMAEvolutionStrategy(sigma0=0.5, solution_dim=dim, batch_size=bs, seed=seed, dtype=dt)
        a, b = mk(), mk()
        x0 = np.linspace(-1.0, 1.0, dim)
        a.reset(x0)
        b.reset(x0)
        rep.count("pycma_ranking_histories")
        for g in range(5):
            sa, sb = np.array(a.ask()), np.array(b.ask())
            if not np.array_equal(sa, sb):
                rep.violation("pycma wrapper: 1-D and 2-D ranking values with the same ranking order lead to different samples at generation %d "
                              "(the update must depend on the order alone)" % g,
                              {"kind": "property", "dim": dim, "dtype": np.dtype(dt).name, "generation": g, "seed": seed,
                               "ask_1d": sa.tolist(), "ask_2d": sb.tolist()}, True, {"kind": "pycma-ranking-values"})
                return
            f = -np.sum((sa.astype(np.float64) - 0.25) ** 2, axis=1) + np.arange(bs) * 1e-9     # distinct values
            order = np.argsort(-f)                                                            # not an involution in general
            a.tell(order, f, bs // 2)
            b.tell(order, np.stack([np.ones(bs), f], axis=1), bs // 2)


class _ObsSink:
    """stands in for the report inside observe_* (which only append to rep.extra['observations'])"""

    def __init__(self):
        self.extra = {}


def observe_strategies(strategies, tier, seed):
    """moment + convergence observations for the given strategies; returns (records, failures).  Every observation runs under an
    alarm: an optimizer whose distribution degenerates (e.g. sigma growing without bound) never leaves the resampling loop of ask(),
    and that is reported as the observation failing, not as a hung check."""
    sink, fails = _ObsSink(), []
    with np.errstate(all="ignore"), warnings.catch_warnings():
        warnings.simplefilter("ignore")
        for s in strategies:
            r = random.Random("%s|obs|%s" % (seed, s))
            if s != "pycma":
                try:
                    zmax, rel = guarded(lambda: observe_moments(sink, r, s, 3 if tier == "quick" else 5, 6000 if tier == "quick" else 40000), 40)
                    if zmax > 7.0 or rel > 0.35:
                        fails.append({"observation": "moments", "strategy": s, "max_z": zmax, "rel_cov_error": rel})
                except _Hang:
                    fails.append({"observation": "moments", "strategy": s, "did_not_terminate_within_s": 40})
            gens = {"openai": 400, "openai_mirror": 400}.get(s, 120)
            try:
                d0, d1, inb = guarded(lambda: observe_convergence(sink, r, s, 3, gens), 40)
            except _Hang:
                fails.append({"observation": "convergence", "strategy": s, "did_not_terminate_within_s": 40,
                              "hint": "ask() keeps resampling under the bounds [-4, 4]^3: the search distribution left the box or blew up"})
                continue
            if not (d1 < 0.2 * d0) or not inb:
                fails.append({"observation": "convergence", "strategy": s, "distance_before": d0, "distance_after": d1, "in_bounds": inb})
    return sink.extra.get("observations", []), fails


# ---------------------------------------------------------------------------------------------------------------
WORKER_GROUPS = [("cma",), ("sep",), ("lm", "openai", "openai_mirror")]
ZERO_STATS = {"gens": 0, "multi_round": 0, "mu_mid": 0, "mu0": 0, "ambiguous": 0, "too_long": 0, "resets": 0, "refresh": 0,
              "bitwise_asks": 0, "asks": 0, "max_rounds": 0}
_WDRV = None


def _worker_init():
    global _WDRV
    import common
    _WDRV = common.Driver()


def _run_group(idx_cases, budget, min_cases, drv):
    import traceback
    out = []
    t0 = time.time()
    for ci, case in idx_cases:
        if time.time() - t0 > budget and len(out) >= min_cases:
            break
        try:
            with np.errstate(all="ignore"):
                probs, stats = run_case(case, drv)
        except Exception as e:  # noqa
            probs, stats = [P("harness-exception", 0, "%r\n%s" % (e, traceback.format_exc()[-1500:]), False)], dict(ZERO_STATS)
        out.append((ci, probs, stats))
    return out


def _worker_run(args):
    """histories of one strategy group, then (kernels compiled by now) the observations of its strategies"""
    idx_cases, budget, min_cases, strategies, tier, seed = args
    with warnings.catch_warnings():
        warnings.simplefilter("ignore")
        res = _run_group(idx_cases, budget, min_cases, _WDRV)
        return res, observe_strategies(list(strategies), tier, seed)


def check(rep, tier, seed, driver):
    rng = random.Random(seed)
    t_start = time.time()
    rep.rule = ("histories of ask / tell(random ranking permutation, num_parents in {0,1,batch//2,batch,random}) / reset over "
                "CMA-ES, sep-CMA-ES, LM-MA-ES, OpenAI-ES (mirror / non-mirror) x dims 1..10 x batch sizes 1..12 x float32/float64 x bounds layouts "
                "(none, scalar, vector, mixed +-inf, lower only, upper only) tuned so that resampling rounds occur; every ask is reproduced from a "
                "same-seed numpy Generator with the model deciding the round structure; every tell is compared with the exact-rational model "
                "(mean, parents, counter), the one-step numpy transcription of the real-number model, the property oracle (sigma > 0 finite, covariance symmetric PSD by eigvalsh, "
                "mean = weighted parents, zero parents change nothing but the counter, reset = initial distribution field by field) and a twin fed OTHER "
                "ranking values (same order / 2-D / reversed / flat / unrelated to the ranking). Separately: _calc_strat_params of the three classes on a "
                "dimension x parent-count sweep against the model's formulas and the statements of C18_weights / C18_cov_coefficients_*; Adam / gradient "
                "ascent step sequences against the published rules. A history is non-trivial when it has >= 2 generations, a tell with 1 < num_parents < batch and an ask with >= 2 "
                "resampling rounds (mirror sampling: any); distinct by hash of the case")
    # ---- translated fragments
    st = py2v_c18.STATUS
    rep.extra["translator"] = {k: st.get(k) for k in ("ok", "error", "source", "written", "sha")}
    phases = rep.extra.setdefault("phase_wall_s", {})
    grad_fail = check_grad_opts(rep, rng, 150 if tier == "quick" else 1500)
    phases["gradient_optimizers"] = round(time.time() - t_start, 1)
    if not st.get("ok"):
        rep.violation("py2v_c18 could not translate AdamOpt.step / GradientAscentOpt.step (fail-closed translator: broken tie): %s" % st.get("error"),
                      {"kind": "translation", "broken": "harness/py2v_c18.py -> coq/Generated/OptGen.v", "error": st.get("error"),
                       "numeric_search": grad_fail or "no-failing-input-found"}, grad_fail is not None, {"kind": "gradient-opt-rule"})
    elif grad_fail is not None:
        rep.violation("%s does not follow its published ascent rule" % grad_fail["optimizer"],
                      {"kind": "property", "broken": ["Refine/OptRefine.v: adam_step_refines / ga_step_refines"], "case": grad_fail}, True,
                      {"kind": "gradient-opt-rule", "optimizer": grad_fail["optimizer"]})
    else:
        for v in rep.violations:
            if v["tags"].get("kind") == "build" and "OptRefine" in json.dumps(v["replay"]):
                v["replay"]["numeric_search"] = "no-failing-input-found: real AdamOpt / GradientAscentOpt agree with the published rules to 1e-12 on %d random sequences" % rep.hist.get("adam_sequences", 0)
    t1 = time.time()
    sp = check_strat_params(rep, rng, tier)
    phases["strategy_parameters"] = round(time.time() - t1, 1)
    if sp is not None:
        rep.violation("%s: %s" % (sp["kind"], sp["what"]),
                      {"kind": "property" if sp["kind"] != "strategy-parameters" else "correspondence",
                       "broken": {"weights": ["C18_weights"], "coefficients": ["C18_cov_coefficients_cma", "C18_cov_coefficients_sep", "C18_cov_psd_sym"],
                                  "strategy-parameters": ["correspondence Model/OptReal.v (strategy parameters) vs _calc_strat_params"]}[sp["kind"]],
                       "case": sp}, sp["kind"] != "strategy-parameters", {"kind": sp["kind"], "strategy": sp.get("strategy")})
    if rep.hist.get("strat_params_alpha_zero_reached"):
        rep.notes.append("observation: alpha = 1 - c1a - cmu*sum(w) reaches 0 (to 1e-12) for %d (strategy, dim, num_parents, hsig) combinations of the sweep -- the "
                         "hypothesis alpha > 0 of C18_sep_diag_pos_partial is not always met (solution_dim 1 with many parents)" % rep.hist["strat_params_alpha_zero_reached"])
    if driver is None:
        rep.violation("extracted model driver not available", {"kind": "harness"}, False, {"kind": "build"})
        return
    # ---- corpus first, then generated histories
    cases = []
    cdir = os.path.join(CORPUS, "C18")
    if os.path.isdir(cdir):
        for f in sorted(os.listdir(cdir)):
            if f.endswith(".json"):
                cases.append(json.load(open(os.path.join(cdir, f))))
    rep.count("corpus_cases", len(cases))
    n = 260 if tier == "quick" else 5200
    budget = 30 if tier == "quick" else 300
    # all native strategies x dims 1..10 covered systematically first, then random
    for s in NATIVE:
        for _ in range(4 if tier == "quick" else 20):
            cases.append(gen_case(rng, tier, s))
    cases += [gen_case(rng, tier) for _ in range(n)]
    reported = set()
    t0 = time.time()
    # The numba JIT of the strategies' kernels (one compilation per dtype x bounds-layout signature, ~1 s each) dominates the run:
    # the histories are split by strategy over forked workers (each with its own model driver), so the compilations proceed in parallel.
    # Cases and their order are fixed by the seed; only how many fit into the time budget depends on the machine.
    groups = [[(ci, c) for ci, c in enumerate(cases) if c["strategy"] in g] for g in WORKER_GROUPS]
    min_cases = 12 if tier == "quick" else 40
    results = obs_parts = None
    try:
        import multiprocessing
        ctx = multiprocessing.get_context("fork")
        with ctx.Pool(processes=len(groups), initializer=_worker_init) as pool:
            parts = pool.map(_worker_run, [(g, budget, min_cases, sg, tier, seed) for g, sg in zip(groups, WORKER_GROUPS)], chunksize=1)
        results = sorted((r for part, _ in parts for r in part), key=lambda r: r[0])
        obs_parts = [o for _, o in parts]
        rep.count("history_workers", len(groups))
    except Exception as e:  # noqa  (no fork / pool failure: run in this process)
        rep.notes.append("worker pool unavailable (%r): histories run sequentially" % (e,))
    if results is None:
        results = []
        for g in groups:
            results += _run_group(g, budget / len(groups), min_cases, driver)
        results.sort(key=lambda r: r[0])
    if len(results) < len(cases):
        rep.count("cases_skipped_for_time", len(cases) - len(results))
    for ci, probs, stats in results:
        case = cases[ci]
        rep.count("strategy_" + case["strategy"])
        rep.count("dim_%d" % case["dim"])
        rep.count("batch_%d" % case["batch"])
        rep.count("dtype_" + case["dtype"])
        rep.count("bounds_" + case.get("layout", "corpus"))
        for k in ("gens", "multi_round", "mu0", "mu_mid", "ambiguous", "too_long", "resets", "refresh", "bitwise_asks", "asks"):
            rep.count("n_" + k, stats[k])
        if stats.get("openai_mu0_moves"):
            rep.count("openai_zero_parents_moves_theta", stats["openai_mu0_moves"])
        rep.count("rounds_max_%s" % ("1" if stats["max_rounds"] <= 1 else "2-3" if stats["max_rounds"] <= 3 else "4-10" if stats["max_rounds"] <= 10 else "11+"))
        nt = nontrivial(case, stats)
        rep.case(case, nt, sample=case if nt else None)
        for kind in sorted({p["kind"] for p in probs}):
            if kind == "harness-exception":
                if kind not in reported:
                    reported.add(kind)
                    rep.violation("harness exception on a case: " + probs[0]["detail"][:300], {"kind": "harness-crash", "case": case, "trace": probs[0]["detail"]}, False, {"kind": "crash"})
            else:
                report_problem(rep, case, kind, driver, reported)
    phases["histories"] = round(time.time() - t0, 1)
    if rep.hist.get("openai_zero_parents_moves_theta"):
        rep.notes.append("observation (not reported as a violation): OpenAIEvolutionStrategy.tell ignores num_parents, so num_parents = 0 still moves theta "
                         "(%d tells here); the zero-parents clause is claimed for the log-rank-weighted strategies (CMA-ES, sep-CMA-ES, LM-MA-ES)" % rep.hist["openai_zero_parents_moves_theta"])
    asks, multi = rep.hist.get("n_asks", 0), rep.hist.get("n_multi_round", 0)
    if asks and multi < 0.08 * asks:
        rep.violation("generator degenerate: only %d of %d asks needed a second resampling round" % (multi, asks), {"kind": "generator"}, False, {"kind": "generator"})
    # ---- pycma + observations
    obs_fail = []
    t1 = time.time()
    try:
        guarded(lambda: check_pycma(rep, rng), 60)
        guarded(lambda: check_pycma_ranking(rep, rng), 60)
        guarded(lambda: check_explicit_batch(rep, rng), 60)
        guarded(lambda: check_slow_resampling(rep, rng), 120)
        guarded(lambda: check_unusual_orders(rep, rng), 120)
    except _Hang:
        obs_fail.append({"observation": "pycma", "strategy": "pycma", "did_not_terminate_within_s": 60})
    strategies = ["pycma"] if _has_cma() else []
    if obs_parts is None:           # no worker pool: observe here
        strategies = NATIVE + strategies
    else:
        for recs, fails in obs_parts:
            rep.extra.setdefault("observations", []).extend(recs)
            obs_fail += fails
    recs, fails = observe_strategies(strategies, tier, seed)
    rep.extra.setdefault("observations", []).extend(recs)
    obs_fail += fails
    rep.extra["observations"].sort(key=lambda o: (o["observation"], o["strategy"]))
    for o in obs_fail:
        rep.violation("observation outside its (generous) threshold: %s" % o, {"kind": "observation", "observation": o}, True,
                      {"kind": "observation-" + o["observation"], "strategy": o["strategy"]})
    phases["pycma_and_observations"] = round(time.time() - t1, 1)
    rep.extra["harness_wall_s"] = round(time.time() - t_start, 1)


def _has_cma():
    try:
        import cma  # noqa
        return True
    except Exception:  # noqa
        return False
