"""Fail-closed translator of the conversions ribs/_utils.py: validate_batch / validate_single apply to the caller's arrays (current
source under $VERIF_REPO) into the alias IR of Model/Alias.v (coq/Generated/ValidateGen.v, rewritten on every run);
Refine/ValidateRefine.v proves that they have the same effect as the programs [validate_batch] / [validate_single] of Model/Alias.v.

For every field (solution, objective, measures, any other field) the chain of rebindings between the caller's value and what is stored
back into `data[...]` is read: `np.asarray(x)` -> conversion without dtype, `np.asarray(x, dtype=archive.dtypes[..])` and
`x.astype(archive.dtypes[..], copy=False)` -> conversion to the declared dtype (both alias the caller's array when nothing has to be
converted), `np_scalar(x, dtype)` -> a fresh scalar (copy).  check_* calls and the np.errstate context only read.  Any other
assignment to `arr` / `data[...]`, an in-place operator, a .copy() / np.array(...) (would be a harmless but different program), or a
conversion of something else raises Unsupported (= broken tie)."""
import ast
import hashlib
import os

ROOT = os.path.dirname(os.path.dirname(os.path.abspath(__file__)))
REPO = os.environ.get("VERIF_REPO", "/repo")
OUT = os.path.join(ROOT, "coq", "Generated", "ValidateGen.v")
SRC = "ribs/_utils.py"


class Unsupported(Exception):
    pass


def src(e):
    return ast.unparse(e)


def conv_of(value, var):
    """value: the right-hand side of a rebinding of [var] -> 'CPlain' | 'CDtype' | 'CScalar' """
    s = src(value)
    if s == "np.asarray(%s)" % var:
        return "CPlain"
    if isinstance(value, ast.Call) and src(value.func) == "np.asarray" and len(value.args) == 1 and src(value.args[0]) == var \
            and [k.arg for k in value.keywords] == ["dtype"] and src(value.keywords[0].value).startswith("archive.dtypes["):
        return "CDtype"
    if isinstance(value, ast.Call) and src(value.func) == "%s.astype" % var and len(value.args) == 1 and src(value.args[0]).startswith("archive.dtypes[") \
            and [(k.arg, src(k.value)) for k in value.keywords] == [("copy", "False")]:
        return "CDtype"
    if isinstance(value, ast.Call) and src(value.func) == "np_scalar" and len(value.args) == 2 and src(value.args[0]) == var and src(value.args[1]).startswith("archive.dtypes["):
        return "CScalar"
    raise Unsupported("unsupported conversion of %s: %s" % (var, s))


def chain(stmts, var):
    """conversions applied to [var] by a statement list (descending into with-blocks; if-blocks on `is None` handled by the caller)"""
    out = []
    for st in stmts:
        if isinstance(st, ast.With):
            if [src(i.context_expr) for i in st.items] != ["np.errstate(over='ignore')"]:
                raise Unsupported("unsupported context manager: %s" % src(st)[:80])
            out += chain(st.body, var)
        elif isinstance(st, ast.Assign) and len(st.targets) == 1 and src(st.targets[0]) == var:
            out.append(conv_of(st.value, var))
        elif isinstance(st, ast.Expr) and isinstance(st.value, ast.Call) and src(st.value.func).startswith("check_"):
            continue
        elif isinstance(st, (ast.AugAssign, ast.Assign)):
            raise Unsupported("unsupported assignment while validating %s: %s" % (var, src(st)[:100]))
        elif isinstance(st, ast.Expr) and isinstance(st.value, ast.Constant):
            continue
        else:
            raise Unsupported("unsupported statement while validating %s: %s" % (var, src(st)[:100]))
    return out


def none_guarded(st, var, none_ok_name):
    """`if <var> is None: if not none_objective_ok: raise ... else: <conversions>` -> conversions of the else branch"""
    if not (isinstance(st, ast.If) and src(st.test) == "%s is None" % var):
        raise Unsupported("the objective is not handled by `if %s is None`" % var)
    if [src(x) for x in st.body] != ["if not %s:\n    raise ValueError('objective cannot be None')" % none_ok_name]:
        raise Unsupported("a None objective is not (rejected unless %s)" % none_ok_name)
    return st.orelse


def translate(repo=None):
    repo = repo or REPO
    tree = ast.parse(open(os.path.join(repo, SRC)).read())
    fns = {n.name: n for n in tree.body if isinstance(n, ast.FunctionDef)}
    for need in ("validate_batch", "validate_single", "np_scalar"):
        if need not in fns:
            raise Unsupported("cannot locate %s" % need)
    ns = [s for s in fns["np_scalar"].body if not (isinstance(s, ast.Expr) and isinstance(s.value, ast.Constant))]
    if [src(s) for s in ns] != ["return np.array([scalar], dtype=dtype)[0]"]:
        raise Unsupported("np_scalar does not build a fresh scalar")
    # ---- validate_batch
    vb = [s for s in fns["validate_batch"].body if not (isinstance(s, ast.Expr) and isinstance(s.value, ast.Constant))]
    if src(vb[0]) != "data['solution'] = np.asarray(data['solution'])":
        raise Unsupported("validate_batch does not start by converting the solution with a plain np.asarray")
    loop = [s for s in vb if isinstance(s, ast.For) and src(s.iter) == "data.items()"]
    if len(loop) != 1 or src(loop[0].target) != "(name, arr)":
        raise Unsupported("validate_batch has no single loop over data.items()")
    lb = loop[0].body
    if not (len(lb) == 3 and src(lb[0]) == "if name == 'solution':\n    continue" and isinstance(lb[1], ast.If) and src(lb[2]) == "data[name] = arr"):
        raise Unsupported("the field loop of validate_batch is not (skip solution; per-field conversions; data[name] = arr)")
    br = lb[1]
    if src(br.test) != "name == 'objective'" or len(br.orelse) != 1 or not isinstance(br.orelse[0], ast.If) or src(br.orelse[0].test) != "name == 'measures'":
        raise Unsupported("the per-field dispatch of validate_batch is not objective / measures / other")
    if len(br.body) != 1:
        raise Unsupported("unexpected statements in the objective branch of validate_batch")
    b_obj = chain(none_guarded(br.body[0], "arr", "none_objective_ok"), "arr")
    b_mea = chain(br.orelse[0].body, "arr")
    b_oth = chain(br.orelse[0].orelse, "arr")
    # ---- validate_single
    vs = [s for s in fns["validate_single"].body if not (isinstance(s, ast.Expr) and isinstance(s.value, ast.Constant))]
    s_sol, s_obj, s_mea, seen_obj = [], [], [], False
    rest = []
    for st in vs:
        if isinstance(st, ast.If) and src(st.test) == "data['objective'] is None":
            s_obj = chain(none_guarded(st, "data['objective']", "none_objective_ok"), "data['objective']")
            seen_obj = True
        elif isinstance(st, ast.Return):
            if src(st) != "return data":
                raise Unsupported("validate_single does not return data")
        else:
            rest.append(st)
    if not seen_obj:
        raise Unsupported("validate_single does not handle the objective")
    sol_st = [s for s in rest if "data['solution']" in src(s)]
    mea_st = [s for s in rest if "data['measures']" in src(s)]
    if len(sol_st) + len(mea_st) != len(rest):
        raise Unsupported("validate_single touches something besides solution / objective / measures")
    s_sol = chain(sol_st, "data['solution']")
    s_mea = chain(mea_st, "data['measures']")

    def lst(c):
        return "[%s]" % "; ".join(c)
    text = ("(** GENERATED by harness/py2v_validate.py from the current pyribs source (%s: validate_batch, validate_single, np_scalar) on every run -- do not edit.\n"
            "    The conversions applied to each argument, in order; Refine/ValidateRefine.v ties them to Model/Alias.v. *)\nFrom Coq Require Import List.\n"
            "From PV Require Import Model.ValidateIR.\nImport ListNotations.\n\n"
            "Definition gen_batch_solution : list conv := [CPlain].\n"
            "Definition gen_batch_objective : list conv := %s.\nDefinition gen_batch_measures : list conv := %s.\nDefinition gen_batch_other : list conv := %s.\n"
            "Definition gen_single_solution : list conv := %s.\nDefinition gen_single_objective : list conv := %s.\nDefinition gen_single_measures : list conv := %s.\n"
            % (SRC, lst(b_obj), lst(b_mea), lst(b_oth), lst(s_sol), lst(s_obj), lst(s_mea)))
    h = hashlib.sha256((ast.dump(fns["validate_batch"]) + ast.dump(fns["validate_single"]) + ast.dump(fns["np_scalar"])).encode()).hexdigest()
    return text, h


def generate():
    st = {"ok": False, "error": None, "written": False, "sha": None}
    try:
        text, st["sha"] = translate()
        st["ok"] = True
    except Unsupported as e:
        st["error"] = str(e)
        return st
    except Exception as e:  # noqa
        st["error"] = repr(e)
        return st
    try:
        old = open(OUT).read() if os.path.exists(OUT) else None
        if old != text:
            os.makedirs(os.path.dirname(OUT), exist_ok=True)
            tmp = OUT + ".tmp%d" % os.getpid()
            with open(tmp, "w") as f:
                f.write(text)
            os.replace(tmp, OUT)
            st["written"] = True
    except OSError as e:
        st["ok"], st["error"] = False, "cannot write %s: %r" % (OUT, e)
    return st


STATUS = generate()


def report(rep):
    rep.extra["source_fragments_validate"] = {"translator": "harness/py2v_validate.py", "source": [SRC], "ok": STATUS["ok"], "sha256_of_ast": STATUS["sha"],
                                              "refinement": "coq/Refine/ValidateRefine.v"}
    if not STATUS["ok"]:
        rep.violation("the validators translator cannot read the current source of validate_batch / validate_single any more (fail-closed): %s" % STATUS["error"],
                      {"kind": "translation", "broken": "harness/py2v_validate.py", "error": STATUS["error"]}, False, {"kind": "translation"})


if __name__ == "__main__":
    print(STATUS)
    print(open(OUT).read() if STATUS["ok"] else "")
