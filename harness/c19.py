"""C19 correspondence: the real GradientArborescenceEmitter / GradientOperatorEmitter against the extracted DQD model
(coq/Model/DQD.v through run_C19) and against an independent oracle stating the property on the implementation's outputs.

Collaborators are spies injected through the public arguments (es=, ranker=, grad_opt=, seed=, an archive subclass): the
evolution strategy answers scripted coefficient rows, the ranker scripted or stock rankings, the gradient optimiser is the
real gradient ascent / Adam wrapped in a recorder, the real gradient ascent by name, or an opaque scripted optimiser; the
GradientOperatorEmitter's generator answers scripted normal draws (or is a seeded generator whose stream the harness
reproduces with a clone).

Numbers.  Exact stream: dyadic solution points, parents, Jacobians (zero and rank-deficient included; under normalisation
rows whose Euclidean norm m is rational with m + epsilon a power of two) and coefficients.  For every operation the harness
PROVES with fractions.Fraction that each float operation of the implementation is exact (c19_util.sum_exact / is_f64 /
norm_info); then implementation and model must agree to the last bit.  Where that proof fails (arbitrary Jacobians under
normalisation, two or more recombination parents -- the weights are logarithms --, the wild stream) both are compared within a
rigorous rounding bound (a few units of 2^-52 of the sum of the absolute values of the terms) and the model's solution point
is re-synchronised with the implementation's afterwards."""
import py2v_es
import py2v_dqd
import json
import os
import random
from fractions import Fraction

import numpy as np

from common import CORPUS, err_code
from c19_util import (STOCK, U, U32, exact_sqrt, fr, frl, gen_gae, gen_goe, is_f64, norm_info, rank_of, recomb_weights, rep, show,
                      sum_exact)
from es_spies import make_spy_archive, make_spy_es, make_spy_generator, make_spy_grad, make_spy_ranker

CONFIG = {
    "source_ties": "Since round 7 also tied statically: harness/py2v_dqd.py translates the arithmetic and the phase order of GradientArborescenceEmitter.{tell_dqd, ask, tell} on every run; Refine/DqdRefine.v proves them equal to normalise / branch / the gradient step / the skip-empty guard of Model/DQD.v and to the order of gae_tell's action log.",
    "cone": ["Base/ListUtil.v", "Base/QVec.v", "Model/Store.v", "Model/ESControl.v", "Spec/ESControlSpec.v", "Proofs/ESControlProofs.v",
             "Model/DQD.v", "Proofs/DQDProofs.v", "Generated/ESGen.v", "Refine/ESRefine.v", "Properties/C19.v",
             "Model/DqdPhases.v", "Generated/DqdGen.v", "Refine/DqdRefine.v"],
    "extra_property_files": ["Refine/ESRefine.v", "Refine/DqdRefine.v"],
    "trusted": ["harness/py2v_es.py: fail-closed translator of _check_restart, the num_parents expression and the restart test of tell() of "
                "EvolutionStrategyEmitter and GradientArborescenceEmitter into Generated/ESGen.v on every run; Refine/ESRefine.v proves both "
                "copies equal to Model/ESControl.v for all arguments",
                "Model/DQD.v models the emitters' own arithmetic and control over exact rationals; the coefficient rows of the evolution "
                "strategy / the Gaussian sampler, the ranking, the stop signal, numpy's Euclidean norms, the normalised recombination weights "
                "ln(mu+1/2)-ln(i), the sampled elite and the new point of a gradient optimiser other than gradient ascent are inputs of the "
                "model (arbitrary in the theorems); the harness checks per observed call that numpy's norm is the Euclidean norm (exactly on "
                "the exact stream) and computes the weights itself with math.log",
                "GradientOperatorEmitter.ask clips to the emitter bounds after branching (fix commit 38b7b54f); the model has no bounds, the "
                "harness clips the model's rows before comparing (so the span clause is checked for unclipped coordinates only)"],
    "level_text": "Theorems in coq/Properties/C19.v hold for every solution/measure dimension, Jacobian (zero and rank-deficient included: no "
                  "hypothesis beyond its shape), normalisation setting and epsilon, coefficient rows, ranking, stop signal, selection and "
                  "restart rule and feedback: every ask() solution is the solution point (GAE) / the parent returned by ask_dqd (GOE) plus the "
                  "stated linear combination of the supplied gradients (coefficients divided by ||g||+eps when normalising; |c0| on the "
                  "objective gradient and sigma_g * objective gradient without measure gradients in GOE); ask/tell refuse with RuntimeError "
                  "until tell_dqd supplied gradients (induction over histories); tell with gradient ascent moves theta to theta + lr*(mean_w - "
                  "theta), on the segment to the rank-weighted mean for 0<lr<=1, the mean lying in the hull of the selected solutions; zero "
                  "selected parents leave theta and the optimiser untouched; a restart re-centres on an elite of the current archive, resets "
                  "ES and ranker and counts. Tied to the two emitter modules by a differential run of the extracted model and by an "
                  "independent oracle on every run.",
    "level_note": "All clauses proved (no _partial). C19_zero_parents holds for the model of the FIXED code (fixes/F11.patch); "
                  "C19_zero_parents_refuted_for_unchanged_code exhibits the pre-fix update, C19_unchanged_code_differs_only_there bounds the "
                  "difference. Trusted: Coq kernel; extraction + OCaml driver; the hand-written model (tied by sampling only; the py2v "
                  "fragments of DESIGN 2.2(b) are not implemented for this property); harness generators / exactness bookkeeping / spies. "
                  "Adam's own update is C18's subject: here it is an opaque optimiser whose new point is an input. In the model ask() is a pure "
                  "function of the emitter state (repeatable); GradientOperatorEmitter.ask with measure_gradients=False is so only with "
                  "fixes/FC19a.patch (found by this check). No axioms.",
    "technique": "Rocq/Coq proof over an executable Gallina model + model-vs-implementation correspondence run + independent oracle",
    "design_ref": "DESIGN.md section 5, C19",
}


class Stop(Exception):
    pass


def q2(x):
    return Fraction(x[0], x[1])


def qvec(v):
    return [q2(x) for x in v]


def rule_sx(r):
    return [0] if r == "basic" else [1] if r == "no_improvement" else [2, int(r)]


def fires(case, t, status, stop):
    r = case["rule"]
    return bool(stop or (r == "no_improvement" and not any(status)) or (not isinstance(r, str) and t % r == 0))


def expected_parents(case, status):
    return sum(1 for s in status if s != 0) if case["sel"] == "filter" else case["batch"] // 2


def ftol(dtype, val):
    """extra slack for a final rounding to float32"""
    return U32 * abs(val) if np.dtype(dtype) == np.float32 else Fraction(0)


# ---------------------------------------------------------------------------------------------------------------
# GradientArborescenceEmitter
def run_gae(case):
    """Runs the history on the real emitter.  Returns records, one per executed operation:
       kind, mop (model operation or None), impl (canonical implementation output), tol (None = bitwise, else bounds), fact."""
    from ribs.emitters import GradientArborescenceEmitter
    log = []
    n, mdim, B = case["n"], case["mdim"], case["batch"]
    dt = np.dtype(case["dtype"])
    Arch = make_spy_archive(log)
    archive = Arch(solution_dim=n, dims=[6] * mdim, ranges=[(-1, 1)] * mdim, seed=case.get("aseed", 7), dtype=dt)
    for sol, obj, meas in case["init_elites"]:
        archive.add_single(sol, obj, meas)
    script = {"batch": B, "asks": [], "stops": [], "ranks": [], "thetas": []}
    mode, lr = case["grad_opt"]["mode"], case["grad_opt"]["lr"]
    grad = "gradient_ascent" if mode == "ga_str" else make_spy_grad(log, mode, script)
    rule = case["rule"]
    em = GradientArborescenceEmitter(archive, x0=np.array(case["x0"], dtype=float), sigma0=0.5, lr=lr,
                                     ranker=make_spy_ranker(log, case["ranker"], script), selection_rule=case["sel"],
                                     restart_rule=rule, grad_opt=grad, es=make_spy_es(log, script), normalize_grad=case["norm"],
                                     batch_size=B, epsilon=case["eps"])
    eps, lrq = fr(case["eps"]), fr(lr)
    recs = []
    theta = frl(np.array(case["x0"], dtype=float).astype(dt))      # what the constructor is documented to start from
    jac = None           # dict(J=[[Fraction]], Jn=[[Fraction]] stored gradients (exact value), exact=bool)
    last_rows = None
    itrs = restarts = 0
    ntell = 0

    def counters(tag):
        if int(em.itrs) != itrs or int(em.restarts) != restarts:
            return "%s: itrs/restarts (%d, %d), expected (%d, %d)" % (tag, em.itrs, em.restarts, itrs, restarts)
        return None

    for k, op in enumerate(case["ops"]):
        kind = op["op"]
        side = []
        if kind == "ask_dqd":
            out = em.ask_dqd()
            o = np.asarray(out)
            if o.shape != (1, n):
                side.append("ask_dqd shape %s" % (o.shape,))
            impl = frl(o[0]) if o.ndim == 2 and o.shape[0] >= 1 else []
            recs.append({"k": k, "kind": kind, "mop": [0], "impl": impl, "tol": None, "side": side + [c for c in [counters("ask_dqd")] if c],
                         "fact": {"theta": impl}})
        elif kind == "tell_dqd":
            J = np.array(op["jac"], dtype=float).reshape(1, mdim + 1, n)
            norms = np.linalg.norm(J.copy(), axis=2)[0]
            Jq = frl(J[0])
            exact, okn, Jn = True, True, []
            for row, m in zip(Jq, norms):
                if case["norm"]:
                    ok, ex, qs = norm_info(row, m, eps)
                    okn, exact = okn and ok, exact and ex
                    Jn.append(qs if qs is not None else [Fraction(0)] * n)
                    if qs is None:
                        raise Stop("0/0 normalisation (generator must not produce it)")
                else:
                    Jn.append(row)
            if not okn:
                side.append("numpy's norm is not the Euclidean norm of the supplied gradient")
            try:
                em.tell_dqd(np.array([[float(x) for x in theta]], dtype=dt), [0.0], [[0.0] * mdim], J.copy(),
                            {"status": np.zeros(1, dtype=np.int32), "value": np.zeros(1)})
                impl = [0]
                jac = {"J": Jq, "Jn": Jn, "exact": exact, "norms": frl(norms)}
            except Exception as e:  # noqa
                impl = [err_code(e), repr(e)[:80]]
            recs.append({"k": k, "kind": kind, "mop": [1, Jq, frl(norms)], "impl": impl, "tol": None,
                         "side": side + [c for c in [counters("tell_dqd")] if c], "fact": {"J": Jq, "norms": frl(norms)}})
        elif kind == "ask":
            C = np.array(op["coeffs"], dtype=float).reshape(B, mdim + 1).astype(dt)
            Cq = frl(C)
            script["asks"] = [C.copy()]
            del log[:]
            try:
                rows = np.array(em.ask(), copy=True)
                if rows.shape != (B, n):
                    side.append("ask shape %s" % (rows.shape,))
                if rows.dtype != dt:
                    side.append("ask dtype %s in a %s archive" % (rows.dtype, dt))
                impl = [0, frl(rows)]
                last_rows = rows
            except Exception as e:  # noqa
                impl = [err_code(e)]
            script["asks"] = []
            tol = None
            if impl[0] == 0 and jac is not None:
                bounds, allexact = [], jac["exact"]
                for i in range(B):
                    brow = []
                    for c in range(n):
                        terms = [theta[c]] + [Cq[i][j] * jac["Jn"][j][c] for j in range(mdim + 1)]
                        s = sum(terms)
                        if not (all(is_f64(t) for t in terms) and sum_exact(terms) and rep(s, dt)):
                            allexact = False
                        brow.append(16 * U * sum(abs(t) for t in terms) + ftol(dt, s))
                    bounds.append(brow)
                tol = None if allexact else bounds
            recs.append({"k": k, "kind": kind, "mop": [2, Cq], "impl": impl, "tol": tol, "side": side + [c for c in [counters("ask")] if c],
                         "fact": {"theta": theta, "coeffs": Cq, "jac": jac, "had_jac": jac is not None}})
        elif kind == "tell":
            for sol, obj, meas in op["extra_elites"]:
                archive.add_single(sol, obj, meas)
            if op["sols"] == "last" and last_rows is not None:
                sols = np.array(last_rows, copy=True)
            else:
                sols = np.array(op["synth"], dtype=float).astype(dt)
            objective = np.array(op["objective"], dtype=float)
            measures = np.array(op["measures"], dtype=float)
            if op["feedback"] == "real":
                add_info = dict(archive.add(sols, objective, measures))
            else:
                add_info = {"status": np.array(op["status"], dtype=np.int32), "value": np.array(op["value"], dtype=float)}
            add_info["novelty"] = np.array(op["novelty"], dtype=float)
            status = [int(x) for x in add_info["status"]]
            arch_sols = frl(np.array(archive.data("solution"), copy=True)) if len(archive) else []
            script["stops"], script["ranks"], script["thetas"] = [bool(op["stop"])], [op["rank"]], [list(op["theta_after"])]
            del log[:]
            try:
                em.tell(sols, objective, measures, add_info)
                res = 0
            except Exception as e:  # noqa
                res = err_code(e)
            entries = list(log)
            script["stops"], script["ranks"], script["thetas"] = [], [], []
            ilog, ridx, pick = [], [], 0
            for en in entries:
                if en[0] == "rank":
                    ridx = [int(i) for i in en[1]["idx"]]
                    if not np.array_equal(en[1]["solution"], sols):
                        side.append("ranker saw solutions different from those passed to tell")
                elif en[0] == "opt_tell":
                    ilog.append([0, [int(i) for i in en[1]], int(en[3])])
                elif en[0] == "grad_step":
                    ilog.append([1, frl(en[1])])
                elif en[0] == "sample":
                    ilog.append([2, int(en[1])])
                    if en[2] is not None and len(en[2]) >= 1:
                        sv = frl(en[2][0])
                        pick = arch_sols.index(sv) if sv in arch_sols else len(arch_sols)
                elif en[0] == "grad_reset":
                    ilog.append([3, frl(en[1])])
                elif en[0] == "opt_reset":
                    x = np.asarray(en[1])
                    ilog.append([4] if x.shape == (mdim + 1,) and not np.any(x) else [4, "not zeros(%d)" % (mdim + 1)])
                elif en[0] == "ranker_reset":
                    ilog.append([5])
            insts = script.get("grad_instances") or []
            if insts and k % 2 == 1:
                # the solution point is read from the gradient optimizer the harness itself supplied (its public .theta), NOT through the
                # emitter: a probing ask_dqd() between tell and the next ask could refresh state the emitter keeps about its solution point
                th_after = frl(np.array(insts[-1].theta, copy=True))
            else:
                th_after = frl(np.asarray(em.ask_dqd())[0])
            solsq = frl(sols)
            np_ = expected_parents(case, status)
            wts = [fr(w) for w in recomb_weights(np_)]
            fire = fires(case, ntell + 1, status, op["stop"]) if jac is not None else False
            after = frl(np.array(op["theta_after"], dtype=float)) if mode == "scripted" else th_after
            mop = [3, solsq, status, ridx, bool(op["stop"]), wts, arch_sols, pick, after]
            tol = None
            if res == 0:
                impl = [0, ilog, th_after, int(em.itrs), int(em.restarts)]
            else:
                impl = [res]
            if jac is not None and res == 0:
                ntell += 1
                itrs += 1
                if fire:
                    restarts += 1
                # exactness of mean / step / update
                parents = [solsq[i] for i in ridx if 0 <= i < len(solsq)][:np_]
                sb, tb, exact = [], [], True
                for c in range(n):
                    terms = [w * p[c] for w, p in zip(wts, parents)]
                    mean = sum(terms)
                    step = mean - theta[c]
                    upd = lrq * step
                    new = theta[c] + upd
                    if np_ >= 2 or not (is_f64(step) and is_f64(upd) and rep(new, dt)):
                        exact = False
                    b1 = (np_ + 64) * U * (sum(abs(t) for t in terms) + abs(theta[c]))   # 64: ln(mu+1/2)-ln(i) cancels, math.log vs numpy.log may differ by an ulp
                    sb.append(b1)
                    tb.append(abs(lrq) * b1 + 4 * U * (abs(upd) + abs(new)) + ftol(dt, new))
                if np_ == 0:
                    exact = True
                if not exact:
                    tol = {"step": sb, "theta": tb if mode in ("ga", "ga_str") else [Fraction(0)] * n}
            elif jac is None and res == 0:
                itrs, restarts = int(em.itrs), int(em.restarts)     # accepted although it had to be refused: reported by the comparison
            elif res != 0 and jac is not None:
                # raised after the gradients were supplied (restart on an empty archive: IndexError, outside the property)
                recs.append({"k": k, "kind": kind, "mop": mop, "impl": impl, "tol": None, "side": side,
                             "fact": {"outside": fire and not arch_sols, "res": res}})
                break
            recs.append({"k": k, "kind": kind, "mop": mop, "impl": impl, "tol": tol, "side": side + [c for c in [counters("tell")] if c],
                         "fact": {"theta": theta, "sols": solsq, "status": status, "ridx": ridx, "stop": bool(op["stop"]), "np": np_,
                                  "fire": fire, "arch": arch_sols, "after": th_after, "log": ilog, "res": res, "had_jac": jac is not None,
                                  "t": ntell, "itrs": int(em.itrs), "restarts": int(em.restarts), "tol": tol}})
            if res == 0:
                theta = th_after
                if tol is not None:
                    recs.append({"k": k, "kind": "sync", "mop": [4, th_after], "impl": [0], "tol": None, "side": [], "fact": {}})
        else:
            raise Stop("unknown op %r" % (kind,))
    return recs


def gae_cfg_sx(case):
    go = case["grad_opt"]
    gopt = [0, fr(go["lr"])] if go["mode"] in ("ga", "ga_str") else [1]
    x0 = frl(np.array(case["x0"], dtype=float).astype(np.dtype(case["dtype"])))
    return [case["sel"] == "filter", rule_sx(case["rule"]), case["batch"], case["n"], bool(case["norm"]), fr(case["eps"]), gopt, x0, True]


def within(a, b, bound):
    return abs(a - b) <= bound


def cmp_gae(rec, mo, case):
    """None when the model's output mo agrees with the implementation's record"""
    kind, impl, tol = rec["kind"], rec["impl"], rec["tol"]
    if rec["side"]:
        return {"side": rec["side"]}
    if kind == "ask_dqd":
        m = qvec(mo)
        return None if m == impl else {"model": m, "impl": impl}
    if kind in ("tell_dqd", "sync"):
        return None if mo == [0] and impl == [0] else {"model": mo, "impl": impl}
    if kind == "ask":
        if mo[0] != 0 or impl[0] != 0:
            return None if mo[0] == impl[0] else {"model": mo[:1], "impl": impl[:1]}
        m = [qvec(r) for r in mo[1]]
        if len(m) != len(impl[1]) or any(len(a) != len(b) for a, b in zip(m, impl[1])):
            return {"model": m, "impl": impl[1], "what": "shape"}
        for i, (a, b) in enumerate(zip(m, impl[1])):
            for c, (x, y) in enumerate(zip(a, b)):
                if (x != y) if tol is None else not within(x, y, tol[i][c]):
                    return {"row": i, "coord": c, "model": a, "impl": b, "bitwise": tol is None}
        return None
    if kind == "tell":
        if mo[0] != 0 or impl[0] != 0:
            return None if mo[0] == impl[0] else {"model": mo[:1], "impl": impl[:1]}
        mlog = []
        for a in mo[1]:
            if a[0] == 0:
                mlog.append([0, a[1], a[2]])
            elif a[0] in (1, 3):
                mlog.append([a[0], qvec(a[1])])
            elif a[0] == 2:
                mlog.append([2, a[1]])
            else:
                mlog.append([a[0]])
        if case["grad_opt"]["mode"] == "ga_str":
            mlog = [a for a in mlog if a[0] not in (1, 3)]
        ilog = impl[1]
        if len(mlog) != len(ilog):
            return {"model_log": mlog, "impl_log": ilog}
        for a, b in zip(mlog, ilog):
            if a[0] == 1 and b[0] == 1 and tol is not None and len(a[1]) == len(b[1]):
                if not all(within(x, y, t) for x, y, t in zip(a[1], b[1], tol["step"])):
                    return {"model_log": mlog, "impl_log": ilog, "bitwise": False}
            elif a != b:
                return {"model_log": mlog, "impl_log": ilog, "bitwise": tol is None}
        mth = qvec(mo[2])
        if len(mth) != len(impl[2]) or any((x != y) if tol is None else not within(x, y, t)
                                           for x, y, t in zip(mth, impl[2], (tol or {}).get("theta", mth))):
            return {"model_theta": mth, "impl_theta": impl[2], "bitwise": tol is None}
        if [mo[3], mo[4]] != [impl[3], impl[4]]:
            return {"model_itrs_restarts": [mo[3], mo[4]], "impl_itrs_restarts": [impl[3], impl[4]]}
        return None
    return {"unknown": kind}


# ---------------------------------------------------------------------------------------------------------------
# GradientOperatorEmitter
def clipq(v, case):
    if case["bounds"] is None:
        return v
    lo, hi = fr(case["bounds"][0]), fr(case["bounds"][1])
    return [min(max(x, lo), hi) for x in v]


def run_goe(case):
    from ribs.emitters import GradientOperatorEmitter
    log, calls, gscript = [], [], []
    n, mdim, B = case["n"], case["mdim"], case["batch"]
    dt = np.dtype(case["dtype"])
    Arch = make_spy_archive(log)
    archive = Arch(solution_dim=n, dims=[6] * mdim, ranges=[(-1, 1)] * mdim, seed=case.get("aseed", 7), dtype=dt)
    for sol, obj, meas in case["init_elites"]:
        archive.add_single(sol, obj, meas)
    spy = case["rng"] == "spy"
    clone = None if spy else np.random.default_rng(int(case["rng"]))
    seed = make_spy_generator(gscript, calls) if spy else int(case["rng"])
    kw = dict(sigma=case["sigma"], sigma_g=case["sigma_g"], line_sigma=case["line_sigma"], measure_gradients=case["mg"],
              normalize_grad=case["norm"], epsilon=case["eps"], operator_type=case["operator"], batch_size=B, seed=seed,
              bounds=None if case["bounds"] is None else [tuple(case["bounds"])] * n)
    if case["init"] is not None:
        kw["initial_solutions"] = np.array(case["init"], dtype=float)
    else:
        kw["x0"] = np.array(case["x0"], dtype=float)
    em = GradientOperatorEmitter(archive, **kw)
    eps = fr(case["eps"])
    sg = fr(np.dtype(dt).type(case["sigma_g"]))
    sig = fr(np.dtype(dt).type(case["sigma"]))
    iso = case["operator"] != "isotropic"
    has_init = case["init"] is not None
    initq = frl(np.array(case["init"], dtype=float).astype(dt)) if has_init else None
    recs = []
    parents = None     # exact rows of the last ask_dqd that produced parents
    parents_arr = None
    jac = None
    last_rows = None
    for k, op in enumerate(case["ops"]):
        kind = op["op"]
        side = []
        if kind == "ask_dqd":
            for sol, obj, meas in op.get("pre_add", []):
                archive.add_single(sol, obj, meas)
            empty = bool(archive.empty)
            early = empty and has_init
            noise = np.array(op["noise"], dtype=float).reshape(B, n)
            line = np.array(op["line"], dtype=float).reshape(B, 1)
            if not early:
                if spy:
                    gscript[:] = [noise, line] if iso else [noise]
                else:
                    noise = clone.normal(0.0, dt.type(case["sigma"]), (B, n))
                    if iso:
                        line = clone.normal(0.0, case["line_sigma"], (B, 1))
            del log[:]
            del calls[:]
            out = np.array(em.ask_dqd(), copy=True)
            gscript[:] = []
            impl = frl(out) if out.shape[0] else []
            if out.dtype != dt:
                side.append("ask_dqd dtype %s in a %s archive" % (out.dtype, dt))
            if early:
                if out.shape != (0, n):
                    side.append("ask_dqd on an empty archive with initial_solutions returned shape %s" % (out.shape,))
            else:
                if out.shape != (B, n):
                    side.append("ask_dqd shape %s" % (out.shape,))
                else:
                    # sampled parent + perturbation, clipped (reference computed here with exact rationals)
                    smp = [en for en in log if en[0] == "sample"]
                    if empty:
                        P0 = [frl(np.array(case["x0"], dtype=float).astype(dt))] * B
                        D = [[Fraction(0)] * n] * B
                        if smp:
                            side.append("ask_dqd sampled from an empty archive")
                    else:
                        if len(smp) != (2 if iso else 1) or any(en[1] != B for en in smp):
                            side.append("ask_dqd sample_elites calls: %s" % ([en[1] for en in smp],))
                            smp = None
                        if smp:
                            P0 = frl(smp[0][2])
                            D = [[a - b for a, b in zip(r2, r1)] for r1, r2 in zip(P0, frl(smp[1][2]))] if iso else None
                    if not side:
                        nz, ln = frl(noise.astype(dt)), frl(line.astype(dt))
                        for i in range(B):
                            for c in range(n):
                                terms = [P0[i][c]] + ([ln[i][0] * D[i][c]] if iso else []) + [nz[i][c]]
                                s = sum(terms)
                                ex = all(rep(t, dt) for t in terms) and sum_exact(terms, 24 if dt == np.float32 else 53) and rep(s, dt)
                                want = clipq([s], case)[0]
                                bound = Fraction(0) if ex else 8 * (U32 if dt == np.float32 else U) * sum(abs(t) for t in terms)
                                if abs(impl[i][c] - want) > bound:
                                    side.append("ask_dqd row %d coord %d is %s, sampled parent + perturbation (clipped) is %s" % (
                                        i, c, float(impl[i][c]), float(want)))
                                    break
                            if side:
                                break
                    if spy:
                        want_calls = [(sig, (B, n))] + ([(fr(case["line_sigma"]), (B, 1))] if iso else [])
                        got_calls = [(fr(np.asarray(c[1]).reshape(-1)[0]), tuple(c[2])) for c in calls]
                        if got_calls != want_calls:
                            side.append("ask_dqd normal() calls (scale, size) %s, expected %s" % (got_calls, want_calls))
                parents, parents_arr = impl, out
            recs.append({"k": k, "kind": kind, "mop": [0, empty, impl if not early else []], "impl": impl, "tol": None, "side": side,
                         "fact": {"empty": empty, "early": early}})
        elif kind == "tell_dqd":
            if parents_arr is None:
                continue
            R = parents_arr.shape[0]
            J = np.array([op["jac"][i % len(op["jac"])] for i in range(R)], dtype=float).reshape(R, mdim + 1, n)
            norms = np.linalg.norm(J.copy(), axis=2)
            Jq = frl(J) if R else []
            exact, okn, Jn = True, True, []
            for i in range(R):
                rows = []
                for row, m in zip(Jq[i], norms[i]):
                    if case["norm"]:
                        ok, ex, qs = norm_info(row, m, eps)
                        if qs is None:
                            raise Stop("0/0 normalisation (generator must not produce it)")
                        okn, exact = okn and ok, exact and ex
                        rows.append(qs)
                    else:
                        rows.append(row)
                Jn.append(rows)
            if not okn:
                side.append("numpy's norm is not the Euclidean norm of the supplied gradient")
            try:
                em.tell_dqd(parents_arr.copy(), np.zeros(R), np.zeros((R, mdim)), J.copy(),
                            {"status": np.zeros(R, dtype=np.int32), "value": np.zeros(R)})
                impl = [0]
                jac = {"J": Jq, "Jn": Jn, "exact": exact}
            except Exception as e:  # noqa
                impl = [err_code(e), repr(e)[:80]]
            recs.append({"k": k, "kind": kind, "mop": [1, Jq, frl(norms) if R else []], "impl": impl, "tol": None, "side": side,
                         "fact": {}})
        elif kind == "ask":
            empty = bool(archive.empty)
            early = empty and has_init
            R = len(parents) if parents is not None else 0
            draws = (not early) and jac is not None and case["mg"]
            C = np.array([op["coeffs"][i % len(op["coeffs"])] for i in range(max(R, 1))], dtype=float).reshape(max(R, 1), mdim + 1)[:R]
            if draws and not spy:
                C = clone.normal(0.0, dt.type(case["sigma_g"]), (R, mdim + 1))
            gscript[:] = [C.copy()] if spy else []
            del calls[:]
            try:
                rows = np.array(em.ask(), copy=True)
                if rows.dtype != dt:
                    side.append("ask dtype %s in a %s archive" % (rows.dtype, dt))
                impl = [0, frl(rows) if rows.shape[0] else []]
                last_rows = rows
            except Exception as e:  # noqa
                impl = [err_code(e), repr(e)[:80]]
            gscript[:] = []
            if spy and impl[0] == 0:
                got_calls = [(fr(np.asarray(c[1]).reshape(-1)[0]), tuple(c[2])) for c in calls]
                want_calls = [(sg, (R, mdim + 1))] if draws else []
                if got_calls != want_calls:
                    side.append("ask normal() calls (scale, size) %s, expected %s" % (got_calls, want_calls))
            Cq = frl(C) if (draws and R) else []
            tol = None
            if impl[0] == 0 and not early and jac is not None and R:
                bounds, allexact = [], jac["exact"]
                for i in range(R):
                    brow = []
                    for c in range(n):
                        if case["mg"]:
                            terms = [parents[i][c]] + [(abs(Cq[i][j]) if j == 0 else Cq[i][j]) * jac["Jn"][i][j][c] for j in range(mdim + 1)]
                        else:
                            terms = [parents[i][c], sg * jac["Jn"][i][0][c]]
                        s = sum(terms)
                        if not (all(is_f64(t) for t in terms) and sum_exact(terms) and rep(s, dt)):
                            allexact = False
                        brow.append(16 * U * sum(abs(t) for t in terms) + ftol(dt, s))
                    bounds.append(brow)
                tol = None if allexact else bounds
            recs.append({"k": k, "kind": kind, "mop": [2, empty, Cq], "impl": impl, "tol": tol, "side": side,
                         "fact": {"empty": empty, "early": early, "parents": parents, "jac": jac, "coeffs": Cq, "had_jac": jac is not None}})
        elif kind == "tell":
            # GradientOperatorEmitter has no tell of its own: the inherited one ignores its arguments and changes nothing
            rows = last_rows if last_rows is not None and last_rows.shape[0] else np.zeros((1, n), dtype=dt)
            R = rows.shape[0]
            try:
                r = em.tell(rows, np.zeros(R), np.zeros((R, mdim)), {"status": np.zeros(R, dtype=np.int32), "value": np.zeros(R)})
                if r is not None:
                    side.append("tell returned %r" % (r,))
            except Exception as e:  # noqa
                side.append("tell raised %r" % (e,))
            recs.append({"k": k, "kind": kind, "mop": None, "impl": [0], "tol": None, "side": side, "fact": {}})
        else:
            raise Stop("unknown op %r" % (kind,))
    return recs


def goe_cfg_sx(case):
    dt = np.dtype(case["dtype"])
    ini = [] if case["init"] is None else [frl(np.array(case["init"], dtype=float).astype(dt))]
    return [case["n"], bool(case["mg"]), fr(dt.type(case["sigma_g"])), bool(case["norm"]), fr(case["eps"]), ini]


def cmp_goe(rec, mo, case):
    kind, impl, tol = rec["kind"], rec["impl"], rec["tol"]
    if rec["side"]:
        return {"side": rec["side"]}
    if kind == "tell":
        return None
    if kind == "ask_dqd":
        m = [qvec(r) for r in mo]
        return None if m == impl else {"model": m, "impl": impl}
    if kind == "tell_dqd":
        return None if mo == [0] and impl == [0] else {"model": mo, "impl": impl}
    if kind == "ask":
        if mo[0] != 0 or impl[0] != 0:
            return None if mo[0] == impl[0] else {"model": mo[:1], "impl": impl[:2]}
        m = [clipq(qvec(r), case) for r in mo[1]]
        if len(m) != len(impl[1]) or any(len(a) != len(b) for a, b in zip(m, impl[1])):
            return {"model": m, "impl": impl[1], "what": "shape"}
        for i, (a, b) in enumerate(zip(m, impl[1])):
            for c, (x, y) in enumerate(zip(a, b)):
                if (x != y) if tol is None else not within(x, y, tol[i][c]):
                    return {"row": i, "coord": c, "model(clipped to the bounds)": a, "impl": b, "bitwise": tol is None}
        return None
    return {"unknown": kind}


# ---------------------------------------------------------------------------------------------------------------
def compare(case, driver):
    """first disagreement between implementation and model (dict) or None; also returns the records"""
    gae = case["emitter"] == "GAE"
    recs = run_gae(case) if gae else run_goe(case)
    mrecs = [r for r in recs if r["mop"] is not None]
    mout = driver.call("C19", [0 if gae else 1, gae_cfg_sx(case) if gae else goe_cfg_sx(case), [r["mop"] for r in mrecs]])
    if len(mout) != len(mrecs):
        raise Stop("model answered %d outputs for %d operations" % (len(mout), len(mrecs)))
    it = iter(mout)
    for r in recs:
        mo = next(it) if r["mop"] is not None else None
        d = (cmp_gae if gae else cmp_goe)(r, mo, case)
        if d is not None:
            d.update({"op_index": r["k"], "op": r["kind"]})
            return d, recs
    return None, recs


# ---------------------------------------------------------------------------------------------------------------
# the oracle: C19's own clauses on the implementation's outputs, without the model
def lincomb(cs, gs, n):
    return [sum(c * g[k] for c, g in zip(cs, gs)) for k in range(n)]


def own_normalise(J, eps, norm):
    """gradients as the property reads them: divided by (Euclidean norm + eps) when requested.  (exact root when rational,
    else the correctly rounded root of the exact sum of squares -- within 1 ulp of numpy's)"""
    if not norm:
        return J, True
    out, exact = [], True
    for row in J:
        ss = sum(x * x for x in row)
        r = exact_sqrt(ss)
        if r is None:
            exact = False
            import math
            r = Fraction(math.sqrt(float(ss)))
        out.append([x / (r + eps) for x in row])
    return out, exact


def oracle_gae(case, recs):
    n, mdim, B = case["n"], case["mdim"], case["batch"]
    eps, lr = fr(case["eps"]), fr(case["grad_opt"]["lr"])
    mode = case["grad_opt"]["mode"]
    have = False
    G = None
    theta = frl(np.array(case["x0"], dtype=float).astype(np.dtype(case["dtype"])))
    itrs = restarts = 0
    for r in recs:
        k, kind, impl, f = r["k"], r["kind"], r["impl"], r["fact"]
        tag = "op %d (%s)" % (k, kind)
        if r["side"]:
            return tag + ": " + r["side"][0], "side"
        if kind == "ask_dqd":
            if impl != theta:
                return "%s: returned %s but the solution point is %s" % (tag, show(impl), show(theta)), "ask-dqd"
        elif kind == "tell_dqd":
            if impl[0] != 0:
                return "%s: raised %s" % (tag, impl), "tell-dqd"
            have = True
            G, gexact = own_normalise(f["J"], eps, case["norm"])
        elif kind == "ask":
            if not have:
                if impl[0] != 3:
                    return "%s: ask before tell_dqd was not refused with RuntimeError (got %s)" % (tag, impl[:1]), "refusal"
                continue
            if impl[0] != 0:
                return "%s: ask raised (code %s) although gradients were supplied" % (tag, impl[0]), "refusal"
            rows = impl[1]
            if len(rows) != B:
                return "%s: %d rows for batch_size %d" % (tag, len(rows), B), "span"
            for i, row in enumerate(rows):
                want = [t + d for t, d in zip(theta, lincomb(f["coeffs"][i], G, n))]
                for c in range(n):
                    bound = Fraction(0) if r["tol"] is None else r["tol"][i][c]
                    if abs(row[c] - want[c]) > bound:
                        return ("%s: solution %d is %s; solution point %s + sum_j c_j g_j with c=%s is %s" % (
                            tag, i, show(row), show(theta), show(f["coeffs"][i]), show(want))), "span"
                if r["tol"] is None and rank_of(G + [[a - b for a, b in zip(row, theta)]]) != rank_of(G):
                    return "%s: solution %d minus the solution point is not in the span of the supplied gradients" % (tag, i), "span"
        elif kind == "tell":
            if "outside" in f:
                if f["outside"]:
                    return None, None
                return "%s: tell raised (code %s)" % (tag, f["res"]), "tell-raise"
            if not have:
                if impl[0] != 3:
                    return "%s: tell before tell_dqd was not refused with RuntimeError (got %s)" % (tag, impl[:1]), "refusal"
                if f["itrs"] != itrs or f["restarts"] != restarts:
                    return "%s: refused tell changed the counters" % tag, "refusal"
                continue
            if impl[0] != 0:
                return "%s: tell raised (code %s) although gradients were supplied" % (tag, impl[0]), "refusal"
            itrs += 1
            np_ = expected_parents(case, f["status"])
            fire = fires(case, itrs, f["status"], f["stop"])
            after = f["after"]
            tl = [e for e in f["log"] if e[0] == 0]
            if len(tl) != 1 or tl[0][2] != np_ or tl[0][1] != f["ridx"]:
                return "%s: optimiser told %s, expected ranking %s with %d parents" % (tag, tl, f["ridx"], np_), "parents"
            parents = [f["sols"][i] for i in f["ridx"]][:np_]
            w = [fr(x) for x in recomb_weights(np_)]
            mean = lincomb(w, parents, n)
            tol = f["tol"]
            steps = [e for e in f["log"] if e[0] == 1]
            if mode != "ga_str":
                if np_ == 0 and steps:
                    # reported through the theta clause below when theta moved; a step by the zero vector is harmless but still a call
                    if any(x != 0 for x in steps[0][1]):
                        return ("%s: no solution selected (statuses %s, rule %s) but the gradient optimiser was stepped by %s; "
                                "solution point %s -> %s" % (tag, f["status"], case["sel"], show(steps[0][1]), show(theta), show(after))), \
                            "gae-zero-parents-step"
                if np_ > 0:
                    want = [m - t for m, t in zip(mean, theta)]
                    if len(steps) != 1 or any(abs(a - b) > (tol["step"][c] if tol else 0) for c, (a, b) in enumerate(zip(steps[0][1], want))):
                        return "%s: gradient step %s, expected rank-weighted mean - theta = %s" % (tag, show([s[1] for s in steps]), show(want)), "step"
            if fire:
                restarts += 1
                if after not in f["arch"]:
                    return ("%s: restart due (stop=%s, rule=%s, statuses=%s) but the solution point %s is not an elite of the archive" % (
                        tag, f["stop"], case["rule"], f["status"], show(after))), "restart"
                resets = [e for e in f["log"] if e[0] in (4, 5)]
                if resets != [[4], [5]]:
                    return "%s: restart due but ES / ranker resets were %s" % (tag, resets), "restart"
            else:
                if [e for e in f["log"] if e[0] in (2, 3, 4, 5)]:
                    return "%s: no restart due but reset actions happened: %s" % (tag, show(f["log"])), "restart"
                if np_ == 0:
                    if after != theta:
                        return ("%s: no solution selected (statuses %s, selection %s, batch %d) but the solution point moved %s -> %s" % (
                            tag, f["status"], case["sel"], B, show(theta), show(after))), "gae-zero-parents-step"
                elif mode in ("ga", "ga_str"):
                    for c in range(n):
                        want = theta[c] + lr * (mean[c] - theta[c])
                        b = tol["theta"][c] if tol else 0
                        if abs(after[c] - want) > b:
                            return "%s: solution point %s, expected theta + lr (mean_w - theta) = %s" % (
                                tag, show(after), show([theta[j] + lr * (mean[j] - theta[j]) for j in range(n)])), "step"
                        if 0 < lr <= 1 and not (min(theta[c], mean[c]) - b <= after[c] <= max(theta[c], mean[c]) + b):
                            return "%s: solution point left the segment between theta and the weighted mean" % tag, "step"
                        lo, hi = min(p[c] for p in parents), max(p[c] for p in parents)
                        if not lo - b <= mean[c] <= hi + b:
                            return "%s: weighted mean outside the hull of the selected solutions" % tag, "step"
            if f["itrs"] != itrs or f["restarts"] != restarts:
                return "%s: itrs/restarts (%d, %d), expected (%d, %d)" % (tag, f["itrs"], f["restarts"], itrs, restarts), "counters"
            theta = after
    return None, None


def oracle_goe(case, recs):
    n, mdim = case["n"], case["mdim"]
    dt = np.dtype(case["dtype"])
    eps, sg = fr(case["eps"]), fr(dt.type(case["sigma_g"]))
    have = False
    G = None
    for r in recs:
        k, kind, impl, f = r["k"], r["kind"], r["impl"], r["fact"]
        tag = "op %d (%s)" % (k, kind)
        if r["side"]:
            return tag + ": " + r["side"][0], "side"
        if kind == "tell_dqd":
            if impl[0] != 0:
                return "%s: raised %s" % (tag, impl), "tell-dqd"
            have = True
            G = [own_normalise(Ji, eps, case["norm"])[0] for Ji in r["mop"][1]]
        elif kind == "ask":
            if f["early"]:
                want = [clipq(v, case) for v in frl(np.array(case["init"], dtype=float).astype(dt))]
                if impl[0] != 0 or impl[1] != want:
                    return "%s: empty archive with initial_solutions: returned %s" % (tag, show(impl)), "initial"
                continue
            if not have:
                if impl[0] != 3:
                    return "%s: ask before tell_dqd was not refused with RuntimeError (got %s)" % (tag, impl[:1]), "refusal"
                continue
            if impl[0] != 0:
                if impl[0] == 2 and not case["mg"]:
                    return ("%s: ask raised %s although gradients were supplied (measure_gradients=False, ask called again after the same "
                            "tell_dqd)" % (tag, impl[1])), "goe-ask-not-repeatable"
                return "%s: ask raised %s although gradients were supplied" % (tag, impl[1:]), "refusal"
            P = f["parents"]
            if len(impl[1]) != len(P):
                return "%s: %d rows for %d parents" % (tag, len(impl[1]), len(P)), "span"
            for i, row in enumerate(impl[1]):
                if case["mg"]:
                    cs = list(f["coeffs"][i])
                    cs[0] = abs(cs[0])
                    d = lincomb(cs, G[i], n)
                else:
                    d = [sg * x for x in G[i][0]]
                want = clipq([p + x for p, x in zip(P[i], d)], case)
                for c in range(n):
                    bound = Fraction(0) if r["tol"] is None else r["tol"][i][c]
                    if abs(row[c] - want[c]) > bound:
                        return ("%s: solution %d is %s; parent %s + combination (objective coefficient >= 0) is %s" % (
                            tag, i, show(row), show(P[i]), show(want))), "span"
    return None, None


def oracle(case):
    try:
        recs = run_gae(case) if case["emitter"] == "GAE" else run_goe(case)
    except Exception as e:  # noqa
        return "implementation run raised %r" % (e,), "crash"
    return (oracle_gae if case["emitter"] == "GAE" else oracle_goe)(case, recs)


# ---------------------------------------------------------------------------------------------------------------
def fails(case, driver):
    try:
        return compare(case, driver)[0] is not None
    except Exception:  # noqa
        return True


def shrink(case, driver):
    ops = list(case["ops"])
    changed = True
    while changed and len(ops) > 1:
        changed = False
        for k in reversed(range(len(ops))):
            cand = dict(case, ops=ops[:k] + ops[k + 1:])
            if fails(cand, driver):
                ops = cand["ops"]
                changed = True
                break
    case = dict(case, ops=ops)
    trials = [("init_elites", case["init_elites"][:1]), ("dtype", "float64"), ("norm", False)]
    if case["emitter"] == "GAE":
        trials += [("ranker", "scripted"), ("rule", "basic"), ("grad_opt", dict(case["grad_opt"], mode="ga"))]
    else:
        trials += [("bounds", None), ("operator", "isotropic")]
    for key, val in trials:
        cand = dict(case, **{key: val})
        if cand != case and fails(cand, driver):
            case = cand
    ops2 = []
    for o in case["ops"]:
        o2 = dict(o)
        if o2.get("extra_elites"):
            o2["extra_elites"] = []
        if o2.get("op") == "tell" and "rank" in o2:
            o2["stop"] = False
        ops2.append(o2)
    cand = dict(case, ops=ops2)
    if cand != case and fails(cand, driver):
        case = cand
    return case


def nontrivial(case, recs):
    """GAE: an accepted ask that branches away from the solution point along a non-zero gradient AND an accepted tell;
    GOE: an accepted ask away from its parents"""
    moved = told = False
    for r in recs:
        f = r["fact"]
        if r["kind"] == "ask" and r["impl"][0] == 0 and f.get("had_jac"):
            if case["emitter"] == "GAE":
                moved = moved or any(row != f["theta"] for row in r["impl"][1])
            elif not f["early"]:
                moved = moved or any(row != p for row, p in zip(r["impl"][1], f["parents"] or []))
        if r["kind"] == "tell" and r["impl"][0] == 0 and f.get("had_jac"):
            told = True
    return moved and (told or case["emitter"] == "GOE") and len(case["ops"]) >= 3


THEOREMS = ["C19_span_gae", "C19_span_goe", "C19_span_goe_objective_only", "C19_goe_stored_gradients", "C19_refuse", "C19_refuse_goe",
            "C19_accept_after_tell_dqd", "C19_step", "C19_mean_in_hull", "C19_zero_parents", "C19_restart", "C19_no_restart"]


def zero_parent_step_shape(d):
    """the optimiser was stepped although zero parents were selected -- by the zero vector when the oracle sees no move (theta at
    the origin): same class as F11"""
    if not (isinstance(d, dict) and "impl_log" in d and "model_log" in d):
        return False
    ml, il = d["model_log"], d["impl_log"]
    return bool(ml and ml[0][0] == 0 and ml[0][2] == 0 and any(a[0] == 1 for a in il) and not any(a[0] == 1 for a in ml))


def report(rep, case, d, driver):
    small = shrink(case, driver)
    try:
        d2 = compare(small, driver)[0] or d
    except Exception as e:  # noqa
        d2 = {"harness_exception": repr(e)}
    msg, kind = oracle(small)
    if msg is None:
        msg, kind = oracle(case)
    tags = {"kind": kind if kind in ("gae-zero-parents-step", "goe-ask-not-repeatable") else "correspondence", "emitter": small["emitter"]}
    if msg is None and zero_parent_step_shape(d2):
        tags["kind"] = "gae-zero-parents-step"
    if msg is not None and tags["kind"] == "correspondence":
        tags["clause"] = kind
    rep.violation("DQD emitter and the DQD model disagree" + (": " + msg if msg else ""),
                  {"kind": "correspondence", "broken": "Model/DQD.v (run_C19) vs ribs/emitters/_gradient_arborescence_emitter.py / "
                                                       "_gradient_operator_emitter.py",
                   "case": small, "disagreement": show(d2), "oracle": msg, "theorems_at_stake": THEOREMS},
                  msg is not None, tags)
    return tags["kind"]


def replay(rp, driver):
    case = rp["case"]
    d, _ = compare(case, driver)
    msg, kind = oracle(case)
    print("replay C19: emitter=%s ops=%d" % (case["emitter"], len(case["ops"])))
    print("  model vs implementation:", "agree" if d is None else json.dumps(show(d))[:600])
    print("  oracle:", "property holds on this input" if msg is None else "%s [%s]" % (msg, kind))
    return 0 if d is None and msg is None else 1


def check(rep, tier, seed, driver):
    py2v_es.report(rep)
    py2v_dqd.report(rep)
    rng = random.Random(seed)
    n_gae, n_goe = (1400, 900) if tier == "quick" else (8000, 5000)
    rep.rule = ("random configurations of GradientArborescenceEmitter (solution dim 1..5, 1..3 measures, batch 1..6, mu / filter, basic / "
                "no_improvement / every N, normalize_grad on/off with epsilon in {0, 1/2, 1, 2, 3, 4} or the default, gradient ascent (spy-"
                "wrapped or by name) / opaque scripted optimiser / Adam, scripted or stock rankers, float64 / float32 archives) and of "
                "GradientOperatorEmitter (measure_gradients on/off, normalisation, isotropic / isolinedd, no / wide / clipping bounds, x0 or "
                "initial_solutions, scripted or seeded generator) x histories of ask_dqd / tell_dqd / ask / tell in and out of protocol "
                "order (premature and repeated calls), Jacobians with zero rows, repeated/proportional rows and rational-norm rows, "
                "feedback all / some / one / none inserted (synthetic or from the real archive.add), stop signals, elites added between "
                "rounds; exact stream (dyadic data, exactness of every float operation proved per operation with Fractions) and wild stream "
                "(arbitrary floats, compared within rounding bounds). Non-trivial: an accepted ask that leaves the solution point / parent "
                "along a non-zero gradient and (GAE) an accepted tell, >= 3 operations; distinct by hash of the case")
    cases = []
    cdir = os.path.join(CORPUS, "C19")
    if os.path.isdir(cdir):
        for f in sorted(os.listdir(cdir)):
            if f.endswith(".json"):
                cases.append(json.load(open(os.path.join(cdir, f))))
    rep.count("corpus_cases", len(cases))
    for _ in range(n_gae):
        cases.append(gen_gae(rng, tier, wild=rng.random() < 0.12))
    for _ in range(n_goe):
        cases.append(gen_goe(rng, tier, wild=rng.random() < 0.12))
    reported = {}
    for case in cases:
        case.pop("_comment", None)
        em = case["emitter"]
        try:
            d, recs = compare(case, driver)
        except Stop as e:
            rep.count("discarded:" + str(e)[:40])
            continue
        except Exception as e:  # noqa
            import traceback
            d, recs = {"harness_exception": repr(e), "trace": traceback.format_exc()[-1500:]}, []
        rep.count("emitter_" + em)
        rep.count("stream_" + case["stream"])
        if em == "GAE":
            rep.count("gae_sel_" + case["sel"])
            rep.count("gae_rule_" + (case["rule"] if isinstance(case["rule"], str) else "N"))
            rep.count("gae_grad_opt_" + case["grad_opt"]["mode"])
            rep.count("gae_normalize_" + str(case["norm"]))
        else:
            rep.count("goe_mg_%s_norm_%s" % (case["mg"], case["norm"]))
            rep.count("goe_operator_" + case["operator"])
            rep.count("goe_bounds_" + ("none" if case["bounds"] is None else "wide" if case["bounds"][1] >= 64 else "narrow"))
        for r in recs:
            f = r["fact"]
            if r["kind"] == "ask" and r["impl"][0] == 0 and f.get("had_jac"):
                rep.count("%s_ask_%s" % (em, "bitwise" if r["tol"] is None else "rounding_bound"))
                if em == "GOE" and case["bounds"] is not None and not f["early"] and f["parents"]:
                    lo, hi = fr(case["bounds"][0]), fr(case["bounds"][1])
                    if any(x in (lo, hi) for row in r["impl"][1] for x in row):
                        rep.count("GOE_ask_clipped")
            if r["kind"] in ("ask", "tell") and r["impl"][0] == 3:
                rep.count("%s_%s_refused" % (em, r["kind"]))
            if em == "GAE" and r["kind"] == "tell" and r["impl"][0] == 0 and f.get("had_jac"):
                rep.count("GAE_tell_%s" % ("bitwise" if r["tol"] is None else "rounding_bound"))
                rep.count("GAE_tell_parents_%s" % (min(f["np"], 2) if f["np"] < 2 else "2+"))
                if f["fire"]:
                    rep.count("GAE_tell_restart")
                elif f["np"] == 0:
                    rep.count("GAE_tell_zero_parents_no_restart")
            if r["kind"] == "tell_dqd" and em == "GAE":
                J = r["fact"]["J"]
                if any(not any(row) for row in J):
                    rep.count("GAE_jacobian_with_zero_gradient")
                if rank_of(J) < min(len(J), case["n"]):
                    rep.count("GAE_jacobian_rank_deficient")
        nt = nontrivial(case, recs) if recs else False
        rep.case(case, nt, sample=case if nt and len(case["ops"]) <= 5 else None)
        if d is not None:
            # at most two replays per finding class, five in all (Report prints five)
            try:
                pre = oracle(case)[1] or "correspondence"
            except Exception:  # noqa
                pre = "correspondence"
            if pre == "correspondence" and zero_parent_step_shape(d):
                pre = "gae-zero-parents-step"
            rep.count("disagreeing_cases")
            if reported.get(pre, 0) >= 2:
                continue
            kind = report(rep, case, d, driver)
            reported[pre] = reported.get(pre, 0) + 1
            if kind != pre:
                reported[kind] = reported.get(kind, 0) + 1
            if len(rep.violations) >= 5:
                break
    h = rep.hist
    for key, floor in (("GAE_ask_bitwise", 200), ("GOE_ask_bitwise", 100), ("GAE_tell_bitwise", 100), ("GAE_tell_zero_parents_no_restart", 20),
                       ("GAE_tell_restart", 50), ("GAE_jacobian_with_zero_gradient", 50), ("GAE_jacobian_rank_deficient", 50)):
        if not rep.violations and h.get(key, 0) < floor:
            rep.violation("generator degenerate: %s = %d < %d" % (key, h.get(key, 0), floor), {"kind": "generator-degenerate", "key": key}, False,
                          {"kind": "generator"})
