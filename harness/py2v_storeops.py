"""Fail-closed reader of ArrayStore.clear / resize / __len__ / occupied_list / capacity and ArrayStoreIterator.__init__ / __next__ (current
source under $VERIF_REPO) -> coq/Generated/StoreOpsGen.v (rewritten on every run); Refine/StoreOpsRefine.v ties it to Model/Store.v.
(ArrayStore.add is read by harness/py2v_store.py.)

Translated: the rejection test of resize (`capacity <= self._props["capacity"]` -> Nat.leb), the end-of-iteration test
(`self.iter_idx >= len(self.store)` -> Nat.leb).  Matched statement by statement and recorded as facts: what clear writes (the CLEAR
counter, n_occupied = 0, occupied.fill(False) -- and nothing else: rows and occupied_list stay), what resize writes (capacity; a zeroed
occupancy mask / an empty occupied_list / empty field arrays whose prefix is the old contents -- and nothing else: n_occupied and the
update counters stay), what the getters return, that the iterator snapshots the update counters and compares them BEFORE the
end-of-iteration test.  Anything else raises Unsupported (= broken tie)."""
import ast
import hashlib
import os

ROOT = os.path.dirname(os.path.dirname(os.path.abspath(__file__)))
REPO = os.environ.get("VERIF_REPO", "/repo")
OUT = os.path.join(ROOT, "coq", "Generated", "StoreOpsGen.v")
SRC = "ribs/archives/_array_store.py"


class Unsupported(Exception):
    pass


def src(e):
    return ast.unparse(e)


def body_of(fn):
    return [src(s) for s in fn.body if not (isinstance(s, ast.Expr) and isinstance(s.value, ast.Constant) and isinstance(s.value.value, str))]


def nat_cmp(e, atoms):
    if not (isinstance(e, ast.Compare) and len(e.ops) == 1 and len(e.comparators) == 1):
        raise Unsupported("not a single comparison: %s" % src(e))
    a, b = src(e.left), src(e.comparators[0])
    if a not in atoms or b not in atoms:
        raise Unsupported("unsupported operand in %s" % src(e))
    a, b = atoms[a], atoms[b]
    t = {ast.LtE: "(Nat.leb %s %s)" % (a, b), ast.Lt: "(Nat.ltb %s %s)" % (a, b), ast.GtE: "(Nat.leb %s %s)" % (b, a), ast.Gt: "(Nat.ltb %s %s)" % (b, a)}
    if type(e.ops[0]) not in t:
        raise Unsupported("unsupported comparison: %s" % src(e))
    return t[type(e.ops[0])]


def translate(repo=None):
    repo = repo or REPO
    tree = ast.parse(open(os.path.join(repo, SRC)).read())
    classes = {n.name: n for n in tree.body if isinstance(n, ast.ClassDef)}
    for need in ("ArrayStore", "ArrayStoreIterator"):
        if need not in classes:
            raise Unsupported("cannot locate class %s" % need)
    st = {n.name: n for n in classes["ArrayStore"].body if isinstance(n, ast.FunctionDef)}
    it = {n.name: n for n in classes["ArrayStoreIterator"].body if isinstance(n, ast.FunctionDef)}
    for extra in ("__getstate__", "__setstate__", "__reduce__", "__reduce_ex__", "__copy__", "__deepcopy__", "__getattr__", "__setattr__"):
        if extra in st or extra in it:
            raise Unsupported("ArrayStore defines %s: copying / pickling / attribute access no longer follow the plain object model" % extra)
    facts = []
    # ---- clear
    want = sorted(["self._props['updates'][Update.CLEAR] += 1", "self._props['n_occupied'] = 0", "self._props['occupied'].fill(False)"])
    if sorted(body_of(st["clear"])) != want:
        raise Unsupported("clear() is not exactly (count the clear, n_occupied = 0, occupancy mask all False): %r" % body_of(st["clear"]))
    facts.append("ClearCountsResetsLenAndMaskOnly")
    # ---- resize
    rb = st["resize"].body
    rb = [s for s in rb if not (isinstance(s, ast.Expr) and isinstance(s.value, ast.Constant))]
    g = rb[0]
    if not (isinstance(g, ast.If) and len(g.body) == 1 and isinstance(g.body[0], ast.Raise) and not g.orelse and src(g.body[0].exc.func) == "ValueError"):
        raise Unsupported("resize() does not start with its rejection test raising ValueError")
    rejects = nat_cmp(g.test, {"capacity": "c", "self._props['capacity']": "cap"})
    rest = [src(s) for s in rb[1:]]
    want = ["cur_capacity = self._props['capacity']", "self._props['capacity'] = capacity",
            "cur_occupied = self._props['occupied']", "self._props['occupied'] = np.zeros(capacity, dtype=bool)", "self._props['occupied'][:cur_capacity] = cur_occupied",
            "cur_occupied_list = self._props['occupied_list']", "self._props['occupied_list'] = np.empty(capacity, dtype=np.int32)",
            "self._props['occupied_list'][:cur_capacity] = cur_occupied_list",
            "for name, cur_arr in self._fields.items():\n    new_shape = (capacity,) + cur_arr.shape[1:]\n    self._fields[name] = np.empty(new_shape, cur_arr.dtype)\n    self._fields[name][:cur_capacity] = cur_arr"]
    if rest != want:
        raise Unsupported("resize() is not exactly (set capacity; zero-extended mask; occupied_list and every field re-allocated with the old prefix): %r" % rest)
    facts.append("ResizeExtendsKeepsPrefixAndCounters")
    # ---- getters
    if body_of(st["__len__"]) != ["return self._props['n_occupied']"]:
        raise Unsupported("__len__ is not n_occupied")
    if body_of(st["capacity"]) != ["return self._props['capacity']"]:
        raise Unsupported("capacity is not _props['capacity']")
    if body_of(st["occupied_list"]) != ["return readonly(self._props['occupied_list'][:self._props['n_occupied']])"]:
        raise Unsupported("occupied_list is not the read-only prefix of length n_occupied")
    if body_of(st["occupied"]) != ["return readonly(self._props['occupied'].view())"]:
        raise Unsupported("occupied is not a read-only view of the mask")
    facts.append("GettersReadProps")
    # ---- iterator
    if sorted(body_of(it["__init__"])) != sorted(["self.store = store", "self.iter_idx = 0", "self.state = store._props['updates'].copy()"]):
        raise Unsupported("the iterator does not snapshot the update counters (a copy) and start at position 0: %r" % body_of(it["__init__"]))
    nb = [s for s in it["__next__"].body if not (isinstance(s, ast.Expr) and isinstance(s.value, ast.Constant))]
    if not (len(nb) >= 2 and isinstance(nb[0], ast.If) and src(nb[0].test) == "not np.all(self.state == self.store._props['updates'])"
            and any(isinstance(x, ast.Raise) and src(x.exc.func) == "RuntimeError" for x in nb[0].body)):
        raise Unsupported("__next__ does not FIRST compare the snapshot with the store's update counters (RuntimeError)")
    if not (isinstance(nb[1], ast.If) and len(nb[1].body) == 1 and isinstance(nb[1].body[0], ast.Raise) and src(nb[1].body[0].exc) == "StopIteration"):
        raise Unsupported("__next__ does not test for the end of the iteration second")
    at_end = nat_cmp(nb[1].test, {"self.iter_idx": "pos", "len(self.store)": "n"})
    tail = [src(s) for s in nb[2:]]
    if not (tail and tail[0] == "idx = self.store._props['occupied_list'][self.iter_idx]" and "self.iter_idx += 1" in tail):
        raise Unsupported("__next__ does not read occupied_list[iter_idx] and advance by one: %r" % tail)
    facts.append("IteratorChecksCountersThenEnd")
    text = ("(** GENERATED by harness/py2v_storeops.py from the current pyribs source (%s: clear, resize, getters, iterator) on every run -- do not edit.\n"
            "    Refine/StoreOpsRefine.v ties these to Model/Store.v. *)\nFrom Coq Require Import List Arith.\nFrom PV Require Import Model.StoreOpsFacts.\nImport ListNotations.\n\n"
            "Definition gen_resize_rejects (c cap : nat) : bool := %s.\n"
            "Definition gen_iter_at_end (pos n : nat) : bool := %s.\n"
            "Definition gen_storeops_facts : list storeops_fact := [%s].\n" % (SRC, rejects, at_end, "; ".join(facts)))
    h = hashlib.sha256("".join(ast.dump(x) for x in (st["clear"], st["resize"], it["__init__"], it["__next__"])).encode()).hexdigest()
    return text, h


def generate():
    st = {"ok": False, "error": None, "written": False, "sha": None}
    try:
        text, st["sha"] = translate()
        st["ok"] = True
    except Unsupported as e:
        st["error"] = str(e)
        return st
    except Exception as e:  # noqa
        st["error"] = repr(e)
        return st
    try:
        old = open(OUT).read() if os.path.exists(OUT) else None
        if old != text:
            os.makedirs(os.path.dirname(OUT), exist_ok=True)
            tmp = OUT + ".tmp%d" % os.getpid()
            with open(tmp, "w") as f:
                f.write(text)
            os.replace(tmp, OUT)
            st["written"] = True
    except OSError as e:
        st["ok"], st["error"] = False, "cannot write %s: %r" % (OUT, e)
    return st


STATUS = generate()


def report(rep):
    rep.extra["source_fragments_storeops"] = {"translator": "harness/py2v_storeops.py", "source": [SRC], "ok": STATUS["ok"], "sha256_of_ast": STATUS["sha"],
                                              "refinement": "coq/Refine/StoreOpsRefine.v"}
    if not STATUS["ok"]:
        rep.violation("the ArrayStore clear/resize/iterator reader cannot read the current source any more (fail-closed): %s" % STATUS["error"],
                      {"kind": "translation", "broken": "harness/py2v_storeops.py", "error": STATUS["error"]}, False, {"kind": "translation"})


if __name__ == "__main__":
    print(STATUS)
    print(open(OUT).read() if STATUS["ok"] else "")
