"""C08 correspondence: real pyribs emitters vs the extracted Emit model, on generated ask/tell histories.

For every ask()/ask_dqd() of a history the harness
  * reproduces the random stream outside the emitter (same seed => same elite indices from the archive's
    generator, same normal draws from the operator's / emitter's / evolution strategy's generator),
  * lets the MODEL decide the structure (which parents, what is clipped, which resampled candidate lands
    in which slot, which dtype comes out) and
  * recomputes the arithmetic with numpy's own float operations on the same inputs,
then compares what the implementation returned with both, and evaluates the property's own statement
(the oracle) directly on the implementation's output.
"""
import itertools
import py2v_op
import json
import os
import random
import signal
import warnings
from fractions import Fraction

import numpy as np

from common import CORPUS, q

CONFIG = {
    "source_ties": 'Since round 7 also tied statically: harness/py2v_op.py translates GaussianOperator.ask / IsoLineOperator.ask per coordinate on every run; Refine/OpRefine.v proves them equal to gaussian_op / isoline_op of Model/Emit.v for all matrices and bounds.',
    "cone": ["Base/ListUtil.v", "Model/Store.v", "Model/Emit.v", "Proofs/EmitProofs.v", "Properties/C08.v",
             "Model/OpFacts.v", "Generated/OpGen.v", "Refine/OpRefine.v"],
    "extra_property_files": ["Refine/OpRefine.v"],
    "trusted": [
        "Model/Emit.v is a hand-written description of the ask paths over exact rationals with randomness as an input; it is "
        "tied to the code by this differential run and, for the two operators (GaussianOperator.ask, IsoLineOperator.ask), by the "
        "fail-closed translator harness/py2v_op.py -> Generated/OpGen.v with Refine/OpRefine.v (gen_gaussian_is_model, gen_isoline_is_model)",
        "numpy Generator streams are reproduced from the seeds (default_rng(seed), SeedSequence(seed).spawn(2)[0]) and "
        "assumed chunk-invariant for normal/standard_normal; numpy's own +,*,clip,astype are the arithmetic reference",
        "ES candidates are computed with the strategy class's own transform kernel (_transform_and_check_sol; its "
        "out-of-bounds verdict is ignored, the model decides) and cross-checked against a plain numpy formula with a tolerance",
        "floating-point finiteness of the numeric kernels (covariance transforms, Adam, eigh) and everything inside pycma are "
        "observed on the sampled runs, not proved",
    ],
    "level_text": "PARTIAL. Proved in coq/Properties/C08.v for every configuration, archive content, random integers and draws of "
                  "the Emit model: bounds parsing (None -> +-inf, per-dimension, one-sided, rejections); clip lands in [lo,hi]; every "
                  "coordinate returned by GaussianEmitter/IsoLineEmitter/GeneticAlgorithmEmitter/GradientOperatorEmitter ask paths is "
                  "inside the bounds; shape (batch_size, solution_dim) or the clipped initial_solutions on an empty archive; parents "
                  "are rows of current elites (x0 when empty); zero noise returns the clipped parents = archive solutions when those "
                  "are in bounds; row k = clip(parent_k + perturbation_k) and each coordinate is the unclipped value or exactly a "
                  "bound; the resample-until-in-bounds loop of cma_es/sep_cma_es/lm_ma_es/openai_es, for every candidate stream and "
                  "fuel, returns only in-bounds rows, each exactly one stream candidate, none used twice, none in-bounds discarded; "
                  "C08_dtype: for the intended behaviour every ask path returns the solution dtype (finite table, vm_compute) and the "
                  "as-is policy is refuted (F12). The model is tied to ribs/emitters/* by the differential run of this file.",
    "level_note": "partial: floating-point finiteness (overflow/NaN freedom of the covariance/Adam numerics) and the pycma wrapper "
                  "are observed by the harness on sampled runs only, not proved; arithmetic is exact-rational in the model and "
                  "compared against numpy's own float operations (bit-exact for the single-addition pipelines after correct "
                  "rounding, within a few ulp for the multi-operation ones). No axioms (Print Assumptions: closed under the global "
                  "context). Findings on the unchanged code: F12 (tags kind=emitter-output-dtype), GradientOperatorEmitter.ask not "
                  "clipped (kind=out-of-bounds), GradientOperatorEmitter.ask_dqd raising IndexError with operator_type='iso_line_dd' "
                  "on an empty archive (kind=ask-raised).",
    "technique": "Rocq/Coq proof over an executable Gallina model + model-vs-implementation correspondence run",
    "design_ref": "DESIGN.md section 5, C08",
}

ES_NAMES = ["cma_es", "sep_cma_es", "lm_ma_es", "openai_es", "pycma_es"]
ES_CODE = {n: i for i, n in enumerate(ES_NAMES)}
EMITTERS = ["gaussian", "isoline", "ga_gaussian", "ga_isoline", "gradop", "es", "gae"]
EM_CLASS = {"gaussian": "GaussianEmitter", "isoline": "IsoLineEmitter", "ga_gaussian": "GeneticAlgorithmEmitter",
            "ga_isoline": "GeneticAlgorithmEmitter", "gradop": "GradientOperatorEmitter", "es": "EvolutionStrategyEmitter",
            "gae": "GradientArborescenceEmitter"}
CLIPPING = ["gaussian", "isoline", "ga_gaussian", "ga_isoline", "gradop"]
ARCHIVES = ["grid", "cvt", "sliding", "proximity"]
DTYPES = ["float32", "float64"]
LAYOUTS = ["none", "one_sided", "per_dim", "tight", "exclude_x0"]
STATES = ["empty", "one", "many"]
ASK_TIMEOUT = 30
MDIM = 2


def have_pycma():
    try:
        import cma  # noqa
        return True
    except Exception:  # noqa
        return False


# ---------------------------------------------------------------------------------------------
# encoding
def qrow(r):
    return [q(x) for x in r]


def qmat(m):
    return [qrow(r) for r in m]


def qbounds(arr):
    return [[] if not np.isfinite(x) else [q(x)] for x in arr]


def round_to(fr, dtype):
    """correctly rounded value of an exact rational in the given float dtype, as a Fraction"""
    v = float(fr)
    if dtype == np.float32:
        v = float(np.float32(v))
    return Fraction(v)


def unq(p):
    return Fraction(p[0], p[1])


class AskTimeout(Exception):
    pass


def _alarm(signum, frame):
    raise AskTimeout()


def guarded(fn):
    """runs fn() with a wall-clock guard (a mutated resampling loop may never terminate)"""
    old = signal.signal(signal.SIGALRM, _alarm)
    signal.setitimer(signal.ITIMER_REAL, ASK_TIMEOUT)
    try:
        return fn()
    finally:
        signal.setitimer(signal.ITIMER_REAL, 0)
        signal.signal(signal.SIGALRM, old)


# ---------------------------------------------------------------------------------------------
# case generation
def dec(rng, lo, hi):
    """a decimal with two digits (mostly not representable in binary, so float32/float64 differ)"""
    return round(rng.uniform(lo, hi), 2)


def gen_bounds(rng, layout, x0, scale, dim):
    if layout == "none":
        return None
    out = []
    for j in range(dim):
        c = x0[j]
        if layout == "one_sided":
            k = rng.choice(["none", "lo", "hi", "lo", "hi"])
            if k == "none":
                out.append(None)
            elif k == "lo":
                out.append((round(c - dec(rng, 0.5, 3) * scale, 3), None))
            else:
                out.append((None, round(c + dec(rng, 0.5, 3) * scale, 3)))
        elif layout == "per_dim":
            if rng.random() < 0.15:
                out.append(None)
            else:
                out.append((round(c - dec(rng, 0.6, 4) * scale, 3), round(c + dec(rng, 0.6, 4) * scale, 3)))
        elif layout == "needle":
            # one coordinate confined to a sliver far narrower than the step size (a resampling strategy needs hundreds of rounds, every
            # returned row must still be inside), the others free
            out.append((round(c, 4), round(c + 0.012 * scale, 4)) if j == 0 else None)
        elif layout == "tight":
            out.append((round(c - dec(rng, 0.8, 1.6) * scale, 4), round(c + dec(rng, 0.8, 1.6) * scale, 4)))
        elif layout == "exclude_x0":
            if j == 0 or rng.random() < 0.5:
                lo = round(c + dec(rng, 0.3, 2) * scale, 3)
                out.append((lo, round(lo + dec(rng, 0, 2) * scale, 3)) if rng.random() < 0.8 else (lo, None))
            else:
                out.append((round(c - dec(rng, 0.5, 3) * scale, 3), round(c + dec(rng, 0.5, 3) * scale, 3)))
        else:
            raise AssertionError(layout)
    if layout == "tight" and rng.random() < 0.2:
        j = rng.randrange(dim)
        out[j] = (out[j][0], out[j][0])  # degenerate box in one dimension (clipping emitters only, see gen_case)
    return out


def gen_case(rng, tier, combo=None):
    em, es, layout, sd, md, arch, state = combo if combo else (
        rng.choice(EMITTERS), rng.choice(ES_NAMES), rng.choice(LAYOUTS), rng.choice(DTYPES), rng.choice(DTYPES),
        rng.choice(ARCHIVES), rng.choice(STATES))
    if em in ("es", "gae") and es == "pycma_es" and not have_pycma():
        es = "cma_es"
    dim = rng.choice([1, 2, 3, 4])
    batch = rng.choice([1, 2, 3, 4, 5])
    case = {"em": em, "sd": sd, "md": md, "arch": arch, "state": state, "dim": dim,
            "aseed": rng.randrange(1 << 30), "eseed": rng.randrange(1 << 30), "oseed": rng.randrange(1 << 30)}
    x0 = [dec(rng, -2, 2) for _ in range(dim)]
    scale = rng.choice([0.05, 0.3, 1.0])
    case["x0"] = x0
    zero = rng.random() < 0.2
    case["zero_noise"] = zero and em in ("gaussian", "isoline", "ga_gaussian", "ga_isoline", "gradop")
    if em in ("es", "gae"):
        case["es"] = es
        if es in ("lm_ma_es", "pycma_es"):
            # pycma itself rejects a one-dimensional problem with array bounds ("not yet initialized (dimension needed)"): external
            # library limitation, not generated
            dim = max(dim, 2)
            x0 = (x0 + [dec(rng, -2, 2)])[:dim] if len(x0) < dim else x0
            case["dim"], case["x0"] = dim, x0
            if es == "lm_ma_es":
                batch = rng.randint(1, dim) if em == "es" else rng.randint(1, MDIM + 1)
        if es in ("openai_es", "pycma_es"):
            batch = max(batch, 2)  # OpenAI-ES documents batch_size > 1; pycma itself rejects popsize 1
        case["mirror"] = False
        if es == "openai_es" and (em == "gae" or layout == "none") and rng.random() < 0.6:
            case["mirror"] = True
            batch += batch % 2
        case["batch"] = None if (rng.random() < 0.1 and es not in ("lm_ma_es",) and not case["mirror"]) else batch
        case["sigma0"] = scale
        case["restart_rule"] = rng.choice([2, 3, "no_improvement", "basic"])
        case["selection_rule"] = rng.choice(["mu", "filter"])
        case["ranker"] = rng.choice(["2imp", "imp", "obj"])
        if em == "gae":
            layout = "none"
            case["lr"] = rng.choice([0.05, 0.5])
            case["grad_opt"] = rng.choice(["adam", "gradient_ascent"])
            case["normalize_grad"] = rng.random() < 0.7
            case["jd"] = rng.choice(DTYPES)
        elif layout == "exclude_x0":
            layout = "per_dim"
    else:
        case["batch"] = batch
        if rng.random() < 0.25:
            n = rng.choice([1, 2, 3, 6])
            case["init"] = [[dec(rng, -3, 3) for _ in range(dim)] for _ in range(n)]
            case["x0"] = None
        if em in ("gaussian", "ga_gaussian"):
            if zero:
                case["sigma"] = 0.0
            elif rng.random() < 0.3:
                case["sigma"] = [dec(rng, 0.01, 1) * scale for _ in range(dim)]
            else:
                case["sigma"] = dec(rng, 0.01, 1.5) * scale
        elif em in ("isoline", "ga_isoline"):
            case["iso_sigma"] = 0.0 if zero else dec(rng, 0.01, 1) * scale
            case["line_sigma"] = 0.0 if zero else dec(rng, 0.05, 1.5)
        elif em == "gradop":
            case["sigma"] = 0.0 if zero else dec(rng, 0.01, 1) * scale
            case["sigma_g"] = dec(rng, 0.05, 1.5) * scale
            case["line_sigma"] = 0.0 if zero else dec(rng, 0.05, 1.5)
            case["isolinedd"] = rng.random() < 0.5
            case["measure_gradients"] = rng.random() < 0.5
            case["normalize_grad"] = rng.random() < 0.5
            case["jd"] = rng.choice(DTYPES)
    case["layout"] = layout
    ref = case["x0"] if case["x0"] is not None else case["init"][0]
    b = gen_bounds(rng, layout, ref, max(scale, 0.05) * (1.3 if em == "es" else 1), case["dim"])
    if em == "es" and b is not None:
        b = [None if e is None else ((e[0], e[1]) if (e[0] is None or e[1] is None or e[0] < e[1]) else
                                     (e[0], round(e[0] + 3 * scale, 4))) for e in b]
    case["bounds"] = None if b is None else [None if e is None else list(e) for e in b]
    iters = rng.randint(3, 6) if tier == "quick" else rng.randint(3, 10)
    events = []
    for t in range(iters):
        r = rng.random()
        if t > 0 and r < 0.12 and em not in ("es", "gae"):
            events.append("clear")
        elif r < 0.3:
            events.append("add_external")
        elif r < 0.36 and em not in ("es", "gae"):
            events.append("clear_then_add")
        else:
            events.append("none")
    case["events"] = events
    return case


# ---------------------------------------------------------------------------------------------
# building the real objects
def make_archive(case):
    from ribs.archives import CVTArchive, GridArchive, ProximityArchive, SlidingBoundariesArchive
    dt = {"solution": np.dtype(case["sd"]).type, "objective": np.dtype(case["md"]).type, "measures": np.dtype(case["md"]).type}
    a, dim, seed = case["arch"], case["dim"], case["aseed"]
    rngs = [(-4, 4)] * MDIM
    if a == "grid":
        return GridArchive(solution_dim=dim, dims=[6, 5], ranges=rngs, dtype=dt, seed=seed)
    if a == "cvt":
        cr = np.random.default_rng(12345)
        return CVTArchive(solution_dim=dim, cells=24, ranges=rngs, custom_centroids=cr.uniform(-4, 4, size=(24, MDIM)), dtype=dt, seed=seed)
    if a == "sliding":
        return SlidingBoundariesArchive(solution_dim=dim, dims=[5, 4], ranges=rngs, dtype=dt, seed=seed, remap_frequency=7, buffer_capacity=40)
    if a == "proximity":
        return ProximityArchive(solution_dim=dim, measure_dim=MDIM, k_neighbors=2, novelty_threshold=0.3, local_competition=True,
                                initial_capacity=8, dtype=dt, seed=seed)
    raise AssertionError(a)


def evaluate(sols, jd=None):
    """deterministic objective / measures / jacobian of a batch of solutions (float64 in, finite out)"""
    s = np.asarray(sols, dtype=np.float64)
    n, d = s.shape
    obj = -np.sum((s - 0.25) ** 2, axis=1)
    meas = np.stack([np.clip(s[:, 0], -3.9, 3.9), np.clip(np.sum(s, axis=1) * 0.5, -3.9, 3.9)], axis=1)
    jac = None
    if jd is not None:
        jac = np.zeros((n, 1 + MDIM, d), dtype=np.float64)
        jac[:, 0, :] = -2 * (s - 0.25)
        jac[:, 1, 0] = 1.0
        jac[:, 2, :] = 0.5
        jac = jac.astype(jd)
    return obj, meas, jac


class Holder:
    def __init__(self):
        self.es = None


def make_emitter(case, archive, holder):
    from ribs import emitters as E
    from ribs.emitters import opt as O
    em = case["em"]
    common = {}
    if case.get("init") is not None:
        common["initial_solutions"] = case["init"]
    else:
        common["x0"] = case["x0"]
    if em == "gaussian":
        return E.GaussianEmitter(archive, sigma=case["sigma"], bounds=case["bounds"], batch_size=case["batch"], seed=case["eseed"], **common)
    if em == "isoline":
        return E.IsoLineEmitter(archive, iso_sigma=case["iso_sigma"], line_sigma=case["line_sigma"], bounds=case["bounds"],
                                batch_size=case["batch"], seed=case["eseed"], **common)
    if em in ("ga_gaussian", "ga_isoline"):
        okw = ({"sigma": case["sigma"], "seed": case["eseed"]} if em == "ga_gaussian" else
               {"iso_sigma": case["iso_sigma"], "line_sigma": case["line_sigma"], "seed": case["eseed"]})
        before = dict(okw)
        # users build several emitters from ONE operator_kwargs dict: a sibling with other (much wider) bounds is constructed first from the
        # very same dict object; it must leave no trace in the emitter under test, and the dict must come back unchanged
        dim = len(case["x0"]) if case.get("init") is None else len(case["init"][0])
        E.GeneticAlgorithmEmitter(archive, bounds=[(-1000.0, 1000.0)] * dim, batch_size=case["batch"], operator=em[3:], operator_kwargs=okw, **common)
        emitter = E.GeneticAlgorithmEmitter(archive, bounds=case["bounds"], batch_size=case["batch"], operator=em[3:], operator_kwargs=okw, **common)
        if okw != before:
            raise AssertionError("GeneticAlgorithmEmitter changed the caller's operator_kwargs dict: %r -> %r" % (before, okw))
        return emitter
    if em == "gradop":
        return E.GradientOperatorEmitter(archive, sigma=case["sigma"], sigma_g=case["sigma_g"], line_sigma=case["line_sigma"],
                                         measure_gradients=case["measure_gradients"], normalize_grad=case["normalize_grad"],
                                         operator_type="iso_line_dd" if case["isolinedd"] else "isotropic",
                                         bounds=case["bounds"], batch_size=case["batch"], seed=case["eseed"], **common)
    cls = {"cma_es": O.CMAEvolutionStrategy, "sep_cma_es": O.SeparableCMAEvolutionStrategy, "lm_ma_es": O.LMMAEvolutionStrategy,
           "openai_es": O.OpenAIEvolutionStrategy, "pycma_es": O.PyCMAEvolutionStrategy}[case["es"]]

    def factory(**kw):  # the documented `es=` callable: the real class, instance recorded
        holder.es = cls(**kw)
        return holder.es
    kw = {}
    if case["es"] == "openai_es":
        kw["mirror_sampling"] = case["mirror"]
    if em == "es":
        return E.EvolutionStrategyEmitter(archive, x0=case["x0"], sigma0=case["sigma0"], ranker=case["ranker"], es=factory,
                                          es_kwargs=kw, selection_rule=case["selection_rule"], restart_rule=case["restart_rule"],
                                          bounds=case["bounds"], batch_size=case["batch"], seed=case["eseed"])
    if em == "gae":
        return E.GradientArborescenceEmitter(archive, x0=case["x0"], sigma0=case["sigma0"], lr=case["lr"], ranker=case["ranker"],
                                             selection_rule=case["selection_rule"], restart_rule=case["restart_rule"],
                                             grad_opt=case["grad_opt"], es=factory, es_kwargs=kw,
                                             normalize_grad=case["normalize_grad"], batch_size=case["batch"], seed=case["eseed"])
    raise AssertionError(em)


# ---------------------------------------------------------------------------------------------
class Problem:
    """one failed clause / disagreement at one ask"""

    def __init__(self, kind, entry, msg, oracle, detail=None):
        self.kind, self.entry, self.msg, self.oracle, self.detail = kind, entry, msg, oracle, detail or {}


def oracle_output(case, emitter, archive, entry, out, elites, empty, zero_noise, expect_rows):
    """C08's own statement on what the implementation returned (independent of the model).
    Returns a list of (kind, message)."""
    bad = []
    sd = archive.dtypes["solution"]
    if not isinstance(out, np.ndarray):
        return [("shape", "%s returned %r, not an array" % (entry, type(out)))]
    dim = emitter.solution_dim
    if out.ndim != 2 or out.shape[1] != dim or (expect_rows is not None and out.shape[0] != expect_rows):
        bad.append(("shape", "%s returned shape %s, expected (%s, %d)" % (entry, out.shape, expect_rows, dim)))
    if out.dtype != sd:
        bad.append(("emitter-output-dtype", "%s returned dtype %s in an archive whose solution dtype is %s (measures %s)" % (
            entry, out.dtype, np.dtype(sd).name, np.dtype(archive.dtypes["measures"]).name)))
    if out.size and not np.all(np.isfinite(out)):
        bad.append(("non-finite", "%s returned non-finite values" % entry))
    if out.ndim == 2 and out.shape[1] == dim and out.size:
        lb, ub = emitter.lower_bounds, emitter.upper_bounds
        with np.errstate(invalid="ignore"):
            oob = (out < lb[None]) | (out > ub[None])
        if np.any(oob):
            i, j = [int(v) for v in np.argwhere(oob)[0]]
            bad.append(("out-of-bounds", "%s: coordinate [%d,%d]=%r outside [%r, %r]" % (entry, i, j, float(out[i, j]), float(lb[j]), float(ub[j]))))
        if zero_noise and out.dtype.kind == "f" and not bad:
            src = elites if not empty else (np.asarray(case["x0"], dtype=sd)[None] if case.get("init") is None else None)
            if src is not None and len(src):
                pool = {tuple(float(v) for v in r) for r in np.clip(src, lb, ub)}
                for r in out:
                    if tuple(float(v) for v in r) not in pool:
                        bad.append(("zero-noise", "%s with zero noise returned %r which is not a (clipped) solution of the archive" % (entry, r.tolist())))
                        break
    return bad


class Runner:
    """runs one case on the real emitter, the mirror generators and the model; collects Problems"""

    def __init__(self, case, driver, rep=None):
        self.case, self.driver, self.rep = case, driver, rep
        self.problems = []
        self.asks = 0
        self.flags = set()

    def count(self, key, n=1):
        if self.rep is not None:
            self.rep.count(key, n)

    def problem(self, kind, entry, msg, oracle, **detail):
        self.problems.append(Problem(kind, entry, msg, oracle, detail))

    # ---- model helpers
    def cfg_sx(self, emitter, batch):
        case = self.case
        sd = np.dtype(case["sd"]).type
        x0 = qrow(np.asarray(case["x0"], dtype=sd)) if case.get("x0") is not None else [Fraction(0)] * case["dim"]
        init = [] if case.get("init") is None else [qmat(np.asarray(case["init"], dtype=sd))]
        return [batch, case["dim"], x0, init, qbounds(emitter.lower_bounds), qbounds(emitter.upper_bounds)]

    def dtype_check(self, entry, kind_sx, out, jd="float64"):
        code = {"float32": 0, "float64": 1}
        c = self.case
        want = self.driver.call("C08", [4, 1, kind_sx, code[c["sd"]], code[c["md"]], code[jd]])
        asis = self.driver.call("C08", [4, 0, kind_sx, code[c["sd"]], code[c["md"]], code[jd]])
        got = code.get(out.dtype.name, -1)
        self.count("dtype_asis_model_agrees" if asis == got else "dtype_asis_model_differs")
        if want != got:
            self.problem("emitter-output-dtype", entry, "%s returned dtype %s; the model (C08_dtype) gives %s" % (
                entry, out.dtype.name, DTYPES[want]), None, model_dtype=DTYPES[want], impl_dtype=out.dtype.name, asis_model_dtype=DTYPES[asis])

    def compare_values(self, entry, out, model_m, expected_np, exact, mag=None):
        """out: implementation; model_m: exact rationals from the model; expected_np: numpy recomputation"""
        sd = np.dtype(self.case["sd"]).type
        if tuple(out.shape) != (len(model_m), len(model_m[0]) if model_m else out.shape[1]):
            self.problem("shape", entry, "%s returned shape %s, the model %s rows" % (entry, out.shape, len(model_m)), None)
            return
        if not np.all(np.isfinite(out)):
            return  # reported by the oracle as non-finite
        o = out.astype(sd)
        if expected_np is not None:
            e = expected_np.astype(sd)
            if e.shape != o.shape or not np.array_equal(e, o):
                self.problem("values", entry, "%s differs from clip(parent + perturbation) recomputed with numpy on the mirrored draws" % entry,
                             None, impl=out.tolist(), numpy_recomputation=expected_np.tolist())
                return
        eps = float(np.finfo(sd).eps)
        for i in range(o.shape[0]):
            for j in range(o.shape[1]):
                m = unq(model_m[i][j])
                v = q(o[i, j])
                if exact:
                    ok = (round_to(m, sd) == v)
                else:
                    tol = Fraction(16 * eps) * (Fraction(float(mag[i, j])) + 1) if mag is not None else Fraction(0)
                    ok = abs(m - v) <= tol
                if not ok:
                    self.problem("values", entry, "%s[%d,%d] = %r but the model gives %s" % (entry, i, j, float(o[i, j]), float(m)), None,
                                 impl=out.tolist(), model=[[float(unq(x)) for x in r] for r in model_m])
                    return

    # ---- one ask of a clipping emitter
    def sample(self, elites, n):
        """mirror of archive.sample_elites(n): the integers its generator returns"""
        return [int(v) for v in self.arng.integers(len(elites), size=n)]

    def run(self):
        case = self.case
        warnings.simplefilter("ignore")
        sd = np.dtype(case["sd"]).type
        archive = make_archive(case)
        holder = Holder()
        try:
            emitter = make_emitter(case, archive, holder)
        except Exception as e:  # noqa
            self.problem("constructor-raised", "__init__", "constructor raised %r" % (e,), "constructor of a valid configuration raised %r" % (e,))
            return self
        self.emitter, self.archive, self.holder = emitter, archive, holder
        self.arng = np.random.default_rng(case["aseed"])
        em = case["em"]
        if em in ("es", "gae"):
            self.erng = np.random.default_rng(np.random.SeedSequence(case["eseed"]).spawn(2)[0])
        else:
            self.erng = np.random.default_rng(case["eseed"])
        orng = random.Random(case["oseed"])
        self.check_bounds_parse()
        # archive state before the first ask
        if case["state"] != "empty":
            self.add_external(orng, 1 if case["state"] == "one" else orng.randint(5, 14))
        for t, ev in enumerate(case["events"]):
            if ev in ("clear", "clear_then_add"):
                archive.clear()
            if ev in ("add_external", "clear_then_add"):
                self.add_external(orng, orng.randint(1, 4))
            if self.step(t) is False:
                break
            if self.problems:
                break
        return self

    def in_box(self, pts):
        lb, ub = self.emitter.lower_bounds.astype(np.float64), self.emitter.upper_bounds.astype(np.float64)
        lo = np.where(np.isfinite(lb), lb, -np.inf)
        hi = np.where(np.isfinite(ub), ub, np.inf)
        # shrink towards the inside so that float32 rounding cannot leave the box
        w = np.where(np.isfinite(hi - lo), (hi - lo) * 0.05, 0.01)
        return np.clip(pts, lo + w, hi - w)

    def add_external(self, orng, n):
        """solutions put into the archive by somebody else (another emitter / the user)"""
        case = self.case
        ref = np.asarray(case["x0"] if case.get("x0") is not None else case["init"][0], dtype=np.float64)
        pts = np.array([[ref[j] + orng.uniform(-2.5, 2.5) for j in range(case["dim"])] for _ in range(n)])
        if case["em"] in ("es", "gae") or orng.random() < 0.6:
            pts = self.in_box(pts)  # ES emitters restart from elites: keep those inside the box (resampling needs it)
        pts = pts.astype(np.dtype(case["sd"]).type)
        obj, meas, _ = evaluate(pts)
        self.archive.add(pts, obj, meas)

    def check_bounds_parse(self):
        case, em = self.case, self.emitter
        b = case["bounds"]
        arg = [] if b is None else [[[] if e is None else [[[] if x is None else [q(np.dtype(em.lower_bounds.dtype).type(x))] for x in e]] for e in b]]
        res = self.driver.call("C08", [0, arg, case["dim"]])

        def enc(arr):
            return [[] if not np.isfinite(x) else [[q(x).numerator, q(x).denominator]] for x in arr]
        if res != [0, enc(em.lower_bounds), enc(em.upper_bounds)]:
            self.problem("bounds-parse", "lower_bounds/upper_bounds", "bounds %r parsed to %r / %r, the model gives %r" % (
                b, em.lower_bounds.tolist(), em.upper_bounds.tolist(), res), None)
        # oracle: the documented meaning of the bounds argument, read directly
        orc = None
        if em.lower_bounds.shape != (case["dim"],) or em.upper_bounds.shape != (case["dim"],):
            orc = "bounds arrays have shape %s, expected (%d,)" % (em.lower_bounds.shape, case["dim"])
        else:
            for j in range(case["dim"]):
                e = None if b is None else b[j]
                lo = -np.inf if (e is None or e[0] is None) else em.lower_bounds.dtype.type(e[0])
                hi = np.inf if (e is None or e[1] is None) else em.upper_bounds.dtype.type(e[1])
                if em.lower_bounds[j] != lo or em.upper_bounds[j] != hi:
                    orc = "bounds entry %d = %r but lower_bounds/upper_bounds hold (%r, %r)" % (j, e, float(em.lower_bounds[j]), float(em.upper_bounds[j]))
                    break
        if orc:
            hit = [p for p in self.problems if p.kind == "bounds-parse"]
            if hit:
                hit[0].oracle = orc
            else:
                self.problem("bounds-parse", "lower_bounds/upper_bounds", orc, orc)

    # ---- dispatch one iteration
    def step(self, t):
        em = self.case["em"]
        if em in ("gaussian", "ga_gaussian", "isoline", "ga_isoline"):
            return self.step_operator(t)
        if em == "gradop":
            return self.step_gradop(t)
        if em == "es":
            return self.step_es(t)
        if em == "gae":
            return self.step_gae(t)
        raise AssertionError(em)

    def call_ask(self, entry, fn):
        self.asks += 1
        try:
            return guarded(fn)
        except AskTimeout:
            acc = self.acceptance()
            if acc is not None and acc < 2e-3:
                # documented: a resampling strategy need not terminate when the box has (almost) no mass
                self.count("es_low_acceptance_timeout_skipped")
                self.flags.add("low_acceptance")
                return None
            self.problem("ask-timeout", entry, "%s did not return within %d s" % (entry, ASK_TIMEOUT), "%s did not return within %d s (in-bounds mass of the "
                         "search distribution estimated at %s)" % (entry, ASK_TIMEOUT, acc))
        except Exception as e:  # noqa
            self.problem("ask-raised", entry, "%s raised %r" % (entry, e), "%s raised %r instead of returning solutions" % (entry, e), exc=type(e).__name__)
        return None

    def acceptance(self):
        """estimated probability that one candidate row of the strategy's current distribution is inside the box"""
        es, case = self.holder.es, self.case
        if es is None or case.get("es") in (None, "pycma_es"):
            return None
        keep = self.erng
        try:
            self.erng = np.random.default_rng(1)
            n_before = len(self.problems)
            cand = self.es_candidates(es, case["es"], 4000, True, 4000)
            del self.problems[n_before:]
            lb, ub = np.asarray(es.lower_bounds).reshape(-1), np.asarray(es.upper_bounds).reshape(-1)
            return float(np.mean(np.all((cand >= lb[None]) & (cand <= ub[None]), axis=1)))
        except Exception:  # noqa
            return None
        finally:
            self.erng = keep

    def finish_ask(self, entry, out, elites, empty, zero, expect_rows):
        """evaluate the oracle on the implementation's output and attach its verdicts to the disagreements of this ask"""
        for kind, msg in oracle_output(self.case, self.emitter, self.archive, entry, out, elites, empty, zero, expect_rows):
            mine = [p for p in self.problems if p.entry == entry]
            same = [p for p in mine if p.kind == kind]
            generic = [p for p in mine if p.kind in ("values", "shape") and p.oracle is None]
            if same:
                for p in same:
                    p.oracle = p.oracle or msg
            elif generic and kind in ("out-of-bounds", "zero-noise", "shape", "non-finite"):
                generic[0].kind, generic[0].oracle = kind, msg
            else:
                self.problem(kind, entry, msg, msg)

    def tell_back(self, out, dqd_jac=None):
        """evaluate, add to the archive, tell the emitter"""
        case, emitter, archive = self.case, self.emitter, self.archive
        if out is None or not isinstance(out, np.ndarray) or out.ndim != 2 or out.shape[0] == 0 or not np.all(np.isfinite(out)):
            return None
        obj, meas, jac = evaluate(out, case.get("jd") if dqd_jac else None)
        add_info = archive.add(out, obj, meas)
        try:
            if dqd_jac:
                emitter.tell_dqd(out, obj, meas, jac.copy(), add_info)
            else:
                emitter.tell(out, obj, meas, add_info)
        except Exception as e:  # noqa   (tell is not C08's subject; F10 makes bounded OpenAI-ES tell raise after a resample)
            self.count("tell_raised_%s" % type(e).__name__)
            self.flags.add("tell_raised")
            return False
        return jac

    # ---- Gaussian / IsoLine / GeneticAlgorithm emitters
    def step_operator(self, t):
        case, emitter, archive = self.case, self.emitter, self.archive
        em = case["em"]
        sd = np.dtype(case["sd"]).type
        iso = em in ("isoline", "ga_isoline")
        b, d = case["batch"], case["dim"]
        elites = np.array(archive.data("solution"))
        empty = len(elites) == 0
        self.count("state_%s" % ("empty" if empty else "one" if len(elites) == 1 else "many"))
        init_path = empty and case.get("init") is not None
        lb, ub = emitter.lower_bounds, emitter.upper_bounds
        ints, z, line = [], np.zeros((0, d)), np.zeros((0,))
        expected = None
        mag = None
        if init_path:
            expected = np.clip(np.asarray(case["init"], dtype=sd), lb, ub)
        else:
            n = 2 * b if iso else b
            if not empty:
                ints = self.sample(elites, n)
                parents = elites[ints]
            else:
                parents = np.repeat(np.asarray(case["x0"], dtype=sd)[None], n, axis=0)
            if iso:
                iso_s = np.array([case["iso_sigma"]], dtype=sd)[0] if em == "isoline" else case["iso_sigma"]
                line_s = np.array([case["line_sigma"]], dtype=sd)[0] if em == "isoline" else case["line_sigma"]
                z = self.erng.normal(scale=iso_s, size=(b, d)).astype(sd)
                line = self.erng.normal(scale=line_s, size=(b, 1)).astype(sd)
                p0, p1 = parents[:b], parents[b:]
                dirs = p1 - p0
                expected = np.clip(p0 + z + line * dirs, lb, ub)
                mag = np.abs(p0) + np.abs(z) + np.abs(line) * (np.abs(p1) + np.abs(p0))
            else:
                sig = np.array(case["sigma"], dtype=sd) if em == "gaussian" else case["sigma"]
                z = self.erng.normal(scale=sig, size=(b, d)).astype(sd)
                expected = np.clip(parents + z, lb, ub)
        entry = "%s.ask" % EM_CLASS[em]
        out = self.call_ask(entry, emitter.ask)
        if out is None:
            return False
        cfg = self.cfg_sx(emitter, b)
        if em == "gaussian":
            call, kind = [0, cfg, qmat(elites), ints, qmat(z)], [0, init_path]
        elif em == "isoline":
            call, kind = [1, cfg, qmat(elites), ints, qmat(z), qrow(line.reshape(-1))], [1, init_path]
        else:
            call, kind = [2, cfg, 1 if iso else 0, qmat(elites), ints, qmat(z), qrow(line.reshape(-1))], [2, 1 if iso else 0, init_path]
        res = self.driver.call("C08", [1, call])
        self.dtype_check(entry, kind, out)
        self.compare_values(entry, out, res[1], expected, exact=not iso or case["zero_noise"], mag=mag)
        self.finish_ask(entry, out, elites, empty, case["zero_noise"] and not init_path, None if init_path else b)
        if init_path and isinstance(out, np.ndarray) and out.shape != np.asarray(case["init"]).shape:
            self.problem("shape", entry, "initial_solutions of shape %s returned as %s" % (np.asarray(case["init"]).shape, out.shape),
                         "initial_solutions not returned while the archive is empty")
        self.tell_back(out)
        return True

    # ---- GradientOperatorEmitter
    def step_gradop(self, t):
        case, emitter, archive = self.case, self.emitter, self.archive
        sd = np.dtype(case["sd"]).type
        b, d = case["batch"], case["dim"]
        elites = np.array(archive.data("solution"))
        empty = len(elites) == 0
        self.count("state_%s" % ("empty" if empty else "one" if len(elites) == 1 else "many"))
        init_path = empty and case.get("init") is not None
        lb, ub = emitter.lower_bounds, emitter.upper_bounds
        ints, z, line = [], np.zeros((0, d)), np.zeros((0,))
        expected, mag = None, None
        iso = case["isolinedd"]
        if not init_path:
            if not empty:
                ints = self.sample(elites, b)
                parents = elites[ints]
            else:
                parents = np.repeat(np.asarray(case["x0"], dtype=sd)[None], b, axis=0)
            sig = np.array([case["sigma"]], dtype=sd)[0]
            z = self.erng.normal(loc=0.0, scale=sig, size=(b, d)).astype(sd)
            if iso:
                if not empty:
                    ints2 = self.sample(elites, b)
                    others = elites[ints2]
                    ints = ints + ints2
                else:
                    others = parents
                line = self.erng.normal(loc=0.0, scale=case["line_sigma"], size=(b, 1)).astype(sd)
                expected = np.clip(parents + line * (others - parents) + z, lb, ub)
                mag = np.abs(parents) + np.abs(z) + np.abs(line) * (np.abs(others) + np.abs(parents))
            else:
                expected = np.clip(parents + z, lb, ub)
        else:
            expected = np.zeros((0, d), dtype=sd)
        entry = "GradientOperatorEmitter.ask_dqd"
        out = self.call_ask(entry, emitter.ask_dqd)
        if out is None:
            return False
        cfg = self.cfg_sx(emitter, b)
        res = self.driver.call("C08", [1, [3, cfg, iso, qmat(elites), ints, qmat(z), qrow(line.reshape(-1))]])
        self.dtype_check(entry, [4, iso, init_path], out)
        if init_path:
            if out.shape != (0, d):
                self.problem("shape", entry, "ask_dqd returned shape %s on an empty archive with initial_solutions (documented: no solutions)" % (out.shape,),
                             "ask_dqd returned solutions although initial_solutions are pending")
        else:
            self.compare_values(entry, out, res[1], expected, exact=not iso or case["zero_noise"], mag=mag)
        self.finish_ask(entry, out, elites, empty, case["zero_noise"] and not init_path, 0 if init_path else b)
        if self.problems:
            return False
        jacn = None
        if out.shape[0] > 0:
            jac = self.tell_back(out, dqd_jac=True)
            if jac is None or jac is False:
                return False
            jacn = jac
            if case["normalize_grad"]:
                jacn = jac / (np.linalg.norm(jac, axis=2, keepdims=True) + emitter.epsilon)
        # ---- ask
        entry = "GradientOperatorEmitter.ask"
        elites2 = np.array(archive.data("solution"))
        empty2 = len(elites2) == 0
        init2 = empty2 and case.get("init") is not None
        mg = case["measure_gradients"]
        sg = np.array([case["sigma_g"]], dtype=sd)[0]
        coef = np.zeros((0, 1 + MDIM))
        expected, mag = None, None
        if init2:
            expected = np.clip(np.asarray(case["init"], dtype=sd), lb, ub)
        elif jacn is None:
            out2 = self.call_ask(entry, emitter.ask)  # documented RuntimeError before any tell_dqd
            return False
        elif mg:
            coef = self.erng.normal(loc=0.0, scale=sg, size=jacn.shape[:2])
            c2 = coef.copy()
            c2[:, 0] = np.abs(c2[:, 0])
            offsets = np.sum(jacn * c2[:, :, None], axis=1)
            raw = offsets + out
            expected = np.clip(raw, lb, ub)
            mag = np.abs(out) + np.sum(np.abs(jacn * c2[:, :, None]), axis=1)
        else:
            raw = out + jacn[:, 0, :] * sg
            expected = np.clip(raw, lb, ub)
            mag = np.abs(out) + np.abs(jacn[:, 0, :] * sg)
        out2 = self.call_ask(entry, emitter.ask)
        if out2 is None:
            return False
        jac_sx = [] if jacn is None else [[qmat(J) for J in jacn]]
        res = self.driver.call("C08", [1, [4, cfg, mg, qmat(elites2), qmat(out), jac_sx, q(sg), 1 + MDIM, qmat(coef)]])
        self.dtype_check(entry, [5, mg, init2], out2, jd=case["jd"])
        if res[0] == 0:
            self.compare_values(entry, out2, res[1], expected, exact=init2, mag=mag)
        else:
            self.problem("values", entry, "model raised error code %s but ask returned" % res[0], None)
        self.finish_ask(entry, out2, elites2, empty2, False, None if init2 else b)
        self.tell_back(out2)
        return True

    # ---- evolution strategies: mirror the resample loop
    def es_candidates(self, es, name, k, first, batch):
        """the next k candidate rows of the strategy's stream: transform(draw) with the mirrored generator.
        Returns (rows used for the bounds decision, rows as stored)"""
        from ribs.emitters import opt as O
        d = es.solution_dim
        if name == "cma_es":
            z = self.erng.normal(0.0, es.sigma, (k, d)).astype(es.dtype)
            tm = es.cov.eigenbasis * np.sqrt(es.cov.eigenvalues)
            cand = O.CMAEvolutionStrategy._transform_and_check_sol(z, tm, es.mean, es.lower_bounds, es.upper_bounds)[0]
            ref = (tm.astype(np.float64) @ z.astype(np.float64).T).T + es.mean.astype(np.float64)
        elif name == "sep_cma_es":
            z = self.erng.normal(0.0, es.sigma, (k, d)).astype(es.dtype)
            tv = np.sqrt(es.cov.eigenvalues)
            cand = O.SeparableCMAEvolutionStrategy._transform_and_check_sol(z, tv, es.mean, es.lower_bounds, es.upper_bounds)[0]
            ref = tv.astype(np.float64)[None] * z.astype(np.float64) + es.mean.astype(np.float64)[None]
        elif name == "lm_ma_es":
            z = self.erng.standard_normal((k, d))
            itrs = min(es.current_gens, es.n_vectors)
            cand = O.LMMAEvolutionStrategy._transform_and_check_sol(z, itrs, es.cd, es.m, es.mean, es.sigma, es.lower_bounds, es.upper_bounds)[0]
            dd = z.copy()
            for j in range(itrs):
                dd = (1 - es.cd[j]) * dd + es.cd[j] * es.m[j][None] * (dd @ es.m[j])[:, None]
            ref = es.mean.astype(np.float64)[None] + es.sigma * dd
        elif name == "openai_es":
            if es.mirror_sampling:
                half = self.erng.standard_normal((batch // 2, d), dtype=es.dtype)
                noise = np.concatenate((half, -half))
            else:
                noise = self.erng.standard_normal((k, d), dtype=es.dtype)
            cand = es.adam_opt.theta[None] + es.sigma0 * noise
            ref = np.asarray(cand, dtype=np.float64)
        else:
            raise AssertionError(name)
        cand = np.asarray(cand)
        tol = 1e-3 if np.dtype(es.dtype) == np.float32 else 1e-8
        if cand.shape != ref.shape or not np.allclose(cand, ref, rtol=tol, atol=tol * (1 + float(np.max(np.abs(ref))) if ref.size else 1)):
            self.problem("values", "es.transform", "the %s transform kernel differs from mean + sigma*B*D*z beyond rounding" % name, None,
                         kernel=np.asarray(cand).tolist(), formula=ref.tolist())
        return cand

    def es_tie(self, entry, es, name, lb, ub, batch):
        """model-driven replay of the resample loop. Returns the predicted (batch, dim) array or None"""
        if getattr(self, "mirror_lost", False):
            self.count("es_tie_skipped_after_give_up")
            return None
        stream_np, stream_q = [], []
        lo, hi = qbounds(lb), qbounds(ub)
        rounds = 0
        while True:
            res = self.driver.call("C08", [2, 400, lo, hi, batch, stream_q])
            if res[0] == 0:
                break
            if res[0] == 2 or rounds > 120:
                # the mirrored generator has now consumed fewer draws than the emitter's: later asks of this history can no longer be
                # replayed slot by slot (they are still checked for bounds, shape and dtype)
                self.count("es_tie_gave_up")
                self.mirror_lost = True
                return None
            k = res[1]
            cand = self.es_candidates(es, name, k, rounds == 0, batch)
            if not np.all(np.isfinite(cand)):
                self.problem("non-finite", entry, "%s candidate rows are not finite" % name, "%s produced non-finite candidates" % name)
                return None
            for r in cand:
                stream_np.append(r)
                stream_q.append(qrow(r))
            rounds += 1
        self.count("es_resample_rounds_%s" % ("1" if rounds <= 1 else "2-3" if rounds <= 3 else "4+"))
        if rounds > 1:
            self.flags.add("resampled")
        picks = res[2]
        return np.array([stream_np[p] for p in picks]).reshape(batch, -1), res[1]

    def step_es(self, t):
        case, emitter, archive, es = self.case, self.emitter, self.archive, self.holder.es
        sd = np.dtype(case["sd"]).type
        name = case["es"]
        elites = np.array(archive.data("solution"))
        self.count("state_%s" % ("empty" if len(elites) == 0 else "one" if len(elites) == 1 else "many"))
        entry = "EvolutionStrategyEmitter.ask[%s]" % name
        b = emitter.batch_size
        restarts_before = emitter.restarts
        out = self.call_ask(entry, emitter.ask)
        if out is None:
            return False
        self.dtype_check(entry, [3, ES_CODE[name]], out)
        if name != "pycma_es":
            pred = self.es_tie(entry, es, name, emitter.lower_bounds, emitter.upper_bounds, b)
            if pred is not None:
                rows, model_rows = pred
                exp = rows.astype(sd)
                if exp.shape != out.shape or not np.array_equal(exp, out.astype(sd)):
                    self.problem("values", entry, "%s returned rows that are not the first in-bounds candidates of the mirrored stream, slot by slot" % entry,
                                 None, impl=out.tolist(), model_picks_rows=exp.tolist())
        self.finish_ask(entry, out, elites, len(elites) == 0, False, b)
        r = self.tell_back(out)
        if emitter.restarts > restarts_before:
            self.flags.add("restarted")
            self.count("es_restarts")
        return r is not False

    def step_gae(self, t):
        case, emitter, archive, es = self.case, self.emitter, self.archive, self.holder.es
        sd = np.dtype(case["sd"]).type
        name = case["es"]
        d = case["dim"]
        elites = np.array(archive.data("solution"))
        self.count("state_%s" % ("empty" if len(elites) == 0 else "one" if len(elites) == 1 else "many"))
        entry = "GradientArborescenceEmitter.ask_dqd"
        theta = self.call_ask(entry, emitter.ask_dqd)
        if theta is None:
            return False
        self.dtype_check(entry, [6], theta)
        self.finish_ask(entry, theta, elites, len(elites) == 0, False, 1)
        if self.problems:
            return False
        theta = np.array(theta)
        jac = self.tell_back(theta, dqd_jac=True)
        if jac is None or jac is False:
            return False
        jacn = jac
        if case["normalize_grad"]:
            jacn = jac / (np.linalg.norm(jac, axis=2, keepdims=True) + emitter.epsilon)
        entry = "GradientArborescenceEmitter.ask[%s]" % name
        b = emitter.batch_size
        restarts_before = emitter.restarts
        out = self.call_ask(entry, emitter.ask)
        if out is None:
            return False
        self.dtype_check(entry, [7, ES_CODE[name]], out, jd=case["jd"])
        if name != "pycma_es":
            pred = self.es_tie(entry, es, name, es.lower_bounds.reshape(-1) * np.ones(es.solution_dim), es.upper_bounds.reshape(-1) * np.ones(es.solution_dim), b)
            if pred is not None:
                coeffs = pred[0].astype(sd)
                raw = theta[0] + np.sum(jacn * coeffs[:, :, None], axis=1)
                res = self.driver.call("C08", [3, qrow(theta[0]), qmat(jacn[0]), qmat(coeffs)])
                mag = np.abs(theta[0])[None] + np.sum(np.abs(jacn * coeffs[:, :, None]), axis=1)
                self.compare_values(entry, out, res, raw, exact=False, mag=mag)
        self.finish_ask(entry, out, elites, len(elites) == 0, False, b)
        r = self.tell_back(out)
        if emitter.restarts > restarts_before:
            self.flags.add("restarted")
            self.count("es_restarts")
        return r is not False


# ---------------------------------------------------------------------------------------------
def run_case(case, driver, rep=None):
    return Runner(case, driver, rep).run()


def tags_of(case, p):
    t = {"kind": p.kind, "emitter": EM_CLASS[case["em"]], "entry": p.entry.split(".")[-1].split("[")[0]}
    if "exc" in p.detail:
        t["exc"] = p.detail["exc"]
    return t


def same_finding(case, p, key):
    t = tags_of(case, p)
    return (t["kind"], t["emitter"], t["entry"]) == key


def shrink(case, key, driver):
    """greedy simplification of a failing case that keeps the same finding (kind, emitter, entry)"""
    def still(c):
        try:
            r = run_case(c, driver)
        except Exception:  # noqa
            return False
        return any(same_finding(c, p, key) for p in r.problems)
    cur = dict(case)
    changed = True
    budget = 40
    while changed and budget > 0:
        changed = False
        cands = []
        ev = cur["events"]
        if len(ev) > 1:
            cands.append(dict(cur, events=ev[:-1]))
            cands.append(dict(cur, events=ev[1:]))
        if any(e != "none" for e in ev):
            cands.append(dict(cur, events=["none"] * len(ev)))
        if cur["state"] != "empty":
            cands.append(dict(cur, state="empty"))
        if cur["arch"] != "grid":
            cands.append(dict(cur, arch="grid"))
        if cur.get("batch") and cur["batch"] > 1 and cur["em"] not in ("es", "gae"):
            cands.append(dict(cur, batch=1))
        if cur.get("bounds") is not None:
            cands.append(dict(cur, bounds=None, layout="none"))
        for c in cands:
            budget -= 1
            if still(c):
                cur = c
                changed = True
                break
    return cur


def nontrivial(case, runner):
    """at least two asks, and the interesting mechanism of the family exercised"""
    if runner.asks < 2:
        return False
    if case["em"] in ("es", "gae"):
        return case["layout"] != "none" or "restarted" in runner.flags or case["em"] == "gae"
    return case["layout"] != "none" or case["zero_noise"]


def combos(rng):
    out = []
    for em in EMITTERS:
        for layout in LAYOUTS:
            for sd in DTYPES:
                for md in DTYPES:
                    if em in ("es", "gae"):
                        for es in ES_NAMES:
                            out.append((em, es, layout, sd, md))
                    else:
                        out.extend([(em, "cma_es", layout, sd, md)] * 3)  # the clipping emitters carry most clauses
    rng.shuffle(out)
    return out


def returned_initials_probe(rep, rng):
    """'from the configured initial_solutions when the archive is empty': what ask() hands out on an empty archive is not the emitter's own
    copy -- a caller that edits the returned batch in place and asks again (a retry, or after archive.clear()) gets the configured values"""
    from ribs import emitters as E
    from ribs.archives import GridArchive
    for dt in (np.float64, np.float32):
        for bounds in (None, [(-5.0, 5.0), (None, None)]):
            archive = GridArchive(solution_dim=2, dims=[3, 3], ranges=[(-1, 1), (-1, 1)], dtype=dt)
            init = np.array([[0.25, -0.5], [1.5, 2.0], [-3.0, 0.75]], dtype=dt)
            ems = {"GaussianEmitter": E.GaussianEmitter(archive, sigma=0.1, initial_solutions=init.copy(), bounds=bounds, batch_size=3, seed=1),
                   "IsoLineEmitter": E.IsoLineEmitter(archive, initial_solutions=init.copy(), bounds=bounds, batch_size=3, seed=1),
                   "GeneticAlgorithmEmitter": E.GeneticAlgorithmEmitter(archive, initial_solutions=init.copy(), bounds=bounds, batch_size=3, operator="gaussian",
                                                                        operator_kwargs={"sigma": 0.1, "seed": 1}),
                   "GradientOperatorEmitter": E.GradientOperatorEmitter(archive, sigma=0.1, sigma_g=0.1, initial_solutions=init.copy(), bounds=bounds, batch_size=3, seed=1)}
            for name, em in ems.items():
                rep.count("returned_initials_probes")
                for which in ("ask",):
                    first = getattr(em, which)()
                    try:
                        np.asarray(first)[...] = 777.0
                    except ValueError:
                        pass            # read-only: fine
                    second = np.asarray(getattr(em, which)())
                    if second.shape != init.shape or not np.array_equal(second, init):
                        rep.violation("%s.%s() on an empty archive, the returned batch overwritten by the caller, %s() again: returns %s instead of the configured "
                                      "initial_solutions %s (bounds %s, dtype %s)" % (name, which, which, second.tolist(), init.tolist(), bounds, np.dtype(dt).name),
                                      {"kind": "property", "broken": "C08 (ask returns the configured initial_solutions when the archive is empty)", "emitter": name,
                                       "bounds": bounds, "dtype": np.dtype(dt).name}, True, {"kind": "initial-solutions-handed-out"})
                        return


def check(rep, tier, seed, driver):
    py2v_op.report(rep)
    returned_initials_probe(rep, random.Random(seed + 11))
    rng = random.Random(seed)
    n = 600 if tier == "quick" else 6000
    rep.rule = ("ask/tell histories (3-10 iterations, interleaved with archive.clear() and solutions added by a third party) of every "
                "emitter class x evolution strategy (cma_es, sep_cma_es, lm_ma_es, openai_es with and without mirror sampling, pycma_es "
                "when importable) x bounds layout (none, one-sided, per-dimension, tight, excluding x0 for the clipping emitters) x "
                "solution/measures dtype pair x archive type (Grid, CVT, SlidingBoundaries, Proximity) x initial archive state (empty, "
                "one elite, many), stratified over the cross product; every ask()/ask_dqd() is compared with the model on the mirrored "
                "random stream. A history is non-trivial when it has at least two asks and is bounded, zero-noise, DQD or contains an "
                "ES restart; distinct by hash of the case")
    cases = []
    cdir = os.path.join(CORPUS, "C08")
    if os.path.isdir(cdir):
        for f in sorted(os.listdir(cdir)):
            cases.append(json.load(open(os.path.join(cdir, f))))
    rep.count("corpus_cases", len(cases))
    cs = combos(rng)
    k = 0
    while len(cases) < n:
        em, es, layout, sd, md = cs[k % len(cs)]
        k += 1
        cases.append(gen_case(rng, tier, (em, es, layout, sd, md, ARCHIVES[k % 4] if rng.random() < 0.7 else rng.choice(ARCHIVES), STATES[(k // 4) % 3])))
    for es_name in [e for e in ES_NAMES if e != "pycma_es"] * (1 if tier == "quick" else 4):
        nc = gen_case(rng, tier, ("es", es_name, "needle", rng.choice(DTYPES), rng.choice(DTYPES), "grid" if "grid" in ARCHIVES else ARCHIVES[0], STATES[0]))
        cases.append(nc)
        rep.count("needle_cases")
    rep.extra["pycma_importable"] = have_pycma()
    seen = {}
    for case in cases:
        rep.count("em_" + case["em"] + ("_" + case["es"] if "es" in case else ""))
        rep.count("layout_" + case["layout"])
        rep.count("dtype_%s_%s" % (case["sd"], case["md"]))
        rep.count("arch_" + case["arch"])
        if case.get("zero_noise"):
            rep.count("zero_noise_cases")
        if case.get("init") is not None:
            rep.count("initial_solutions_cases")
        try:
            r = run_case(case, driver, rep)
        except Exception as e:  # noqa
            import traceback
            r = Runner(case, driver)
            r.problems.append(Problem("harness-exception", "harness", "harness raised %r" % (e,), None, {"trace": traceback.format_exc()}))
        rep.count("asks", r.asks)
        nt = nontrivial(case, r)
        rep.case(case, nt, sample=case if nt else None)
        for p in r.problems:
            t = tags_of(case, p)
            key = (t["kind"], t["emitter"], t["entry"])
            dkey = (t["kind"],) if t["kind"] == "emitter-output-dtype" else key
            if dkey in seen:
                seen[dkey]["also"].add("%s.%s %s/%s" % (t["emitter"], t["entry"], case["sd"], case["md"]))
                continue
            small = shrink(case, key, driver) if p.kind != "harness-exception" else case
            r2 = run_case(small, driver) if small is not case else r
            p2 = next((x for x in r2.problems if same_finding(small, x, key)), p)
            seen[dkey] = {"case": small, "p": p2, "tags": tags_of(small, p2), "also": set()}
        if len(seen) >= 8:
            break
    for dkey, v in seen.items():
        p = v["p"]
        rep.violation(p.msg if p.oracle is None else p.oracle,
                      {"kind": "correspondence" if p.oracle is None else "property", "broken": "Model/Emit.v vs ribs/emitters (%s)" % p.entry,
                       "case": v["case"], "entry": p.entry, "disagreement": p.msg, "oracle": p.oracle, "detail": p.detail,
                       "also_seen_at": sorted(v["also"]),
                       "theorems_at_stake": ["C08_dtype"] if p.kind == "emitter-output-dtype" else
                       ["C08_in_bounds", "C08_shape", "C08_zero_noise", "C08_perturbation_gaussian", "C08_resample"]},
                      p.oracle is not None, v["tags"])


def replay(rp, driver):
    case = rp["case"]
    r = run_case(case, driver)
    for p in r.problems:
        print("REPRODUCED: %s: %s" % (p.entry, p.oracle or p.msg))
    if not r.problems:
        print("not reproduced on the current tree")
    return 1 if r.problems else 0
