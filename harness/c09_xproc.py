"""C09 helper run in a SEPARATE interpreter process (with its own PYTHONHASHSEED): a few fixed seeded pipelines, one digest line each.
The parent (harness/c09.py: cross_process_check) compares the digests of two processes started with different hash salts -- 'same seeds
and same evaluations reproduce bit-identical results' holds between runs of a program, not only inside one interpreter."""
import hashlib
import json
import os
import random
import sys

sys.path.insert(0, os.path.dirname(os.path.abspath(__file__)))


def main():
    import c09
    c09.CALL_LIMIT = 240.0      # the first calls compile numba kernels; on a loaded machine that can take far longer than the check's own guard
    rng = random.Random(int(sys.argv[1]))
    out = []
    combos = [("grid", None, "scheduler", "es", "cma_es", "2imp"), ("grid", None, "bandit", "es", "sep_cma_es", "rd"),
              ("cvt", "kmeans", "scheduler", "gae", "cma_es", "2imp"), ("sliding", None, "scheduler", "isoline", None, None),
              ("proximity", None, "scheduler", "es", "lm_ma_es", "nov"), ("cvt", "scrambled_sobol", "scheduler", "ga", None, None)]
    for ak, m, sc, et, es, rk in combos:
        case = c09.gen_case(rng, "quick", akind=ak, method=m, sched=sc, et=et, es=es, ranker=rk)
        p, err = c09.run_mode(case, "A")
        if p is None:
            out.append({"case": case, "digest": "error: " + str(err)[:120]})
            continue
        h = hashlib.sha256(json.dumps(p.trace, sort_keys=True, default=str).encode()).hexdigest()
        out.append({"case": case, "digest": h})
    print("XPROC " + json.dumps(out))


if __name__ == "__main__":
    main()
