"""C09 static tie: fail-closed inventory of every RNG construction / forwarding / use site of ribs/ (current source under
$VERIF_REPO), emitted as Coq data in the vocabulary of coq/Model/RngSite.v + coq/Model/RngSite2.v.

What is inventoried (python `ast`, every module under ribs/, every scope incl. lambdas and nested functions):

* constructions   np.random.default_rng(e), np.random.SeedSequence(e), <seq>.spawn(n), np.random.Generator / PCG64 / ... /
                  RandomState / random.Random (explicit objects).  `e` must be data-flow-derived, inside the enclosing function /
                  class, from the component's `seed` parameter (a parameter called seed / *_seed / random_state), a SeedSequence
                  built from it, a spawned child, `self._x` assigned from it, or a generator built from it.
* forbidden       any other np.random.<fn>(...) (legacy global RandomState), any random.<fn>(...) (Python's module generator), any use of
                  np.random / random or a member as a VALUE (alias the scan cannot follow), `from numpy.random import *`, os.urandom, secrets.*, uuid4.
* third party     stochastic constructors of the allow-list table THIRD_PARTY (sklearn k_means / KMeans ..., scipy.stats.qmc Sobol / Halton /
                  ..., cma.CMAEvolutionStrategy): must receive the component's seed through their seed keyword (directly, or through a **dict whose
                  key is written in the same function / class); pycma must get `randn` = a closure drawing from an owned generator and `seed` = nan.
                  Any other call into sklearn.* / scipy.stats.* / cma.* is reported as unclassified.
* forwarding      every call that passes a seed-derived value on (seed=..., positional, **kwargs of the enclosing function) and every call of a
                  ribs callable that HAS a seed parameter (must be given one).
* uses            every call of a Generator-looking method (normal, standard_normal, uniform, integers, random, choice, ...): the receiver must be
                  `self.<attr>` / a local whose every assignment is a generator construction (or an allow-listed sampler) from a seeded source;
                  a generator parameter (not owned) or an unknown receiver is reported.

Fail-closed: whatever looks like randomness and cannot be classified becomes KUnknown / KAlias / RvUnknown, all of which
[entry_seeded] maps to false -- a broken tie.  The scan writes coq/Generated/RngInventory.v and coq/Refine/RngInventoryOK.v on every run
(only when the text changes, atomically).  RngInventoryOK.v states what Coq then checks by computation: `all_entries_seeded inventory = true`
together with the frame / interleaving / checkpoint theorems instantiated on the inventory -- or, when the scan found offending entries,
`all_entries_seeded inventory = false`, the list of offending entries and the theorem that executing any of them consumes a process-wide
source.  (The negative statement is emitted instead of an unprovable positive one so that a defect of pyribs does not break the Coq build of
every other property; harness/c09.py turns it into a VIOLATION.)  Trusted: this scan (alias-free use of np.random is assumed beyond what
KAlias catches; dynamic imports / getattr tricks are not followed)."""
import ast
import hashlib
import os

ROOT = os.path.dirname(os.path.dirname(os.path.abspath(__file__)))
REPO = os.environ.get("VERIF_REPO", "/repo")
OUT_INV = os.path.join(ROOT, "coq", "Generated", "RngInventory.v")
OUT_OK = os.path.join(ROOT, "coq", "Refine", "RngInventoryOK.v")

SEEDED = {"SrcParam", "SrcSeedSeq", "SrcSpawn", "SrcAttr", "SrcKwargs", "SrcOwnedGen", "SrcDeterministic"}
PREF = ["SrcSpawn", "SrcSeedSeq", "SrcOwnedGen", "SrcAttr", "SrcKwargs", "SrcParam", "SrcDeterministic"]
BAD_KINDS = {"KLegacyNp", "KPyRandom", "KAlias", "KUnknown"}

NPR = "numpy.random"
GEN_CTORS = {NPR + ".default_rng"}
SEQ_CTORS = {NPR + ".SeedSequence"}
BITGEN_CTORS = {NPR + "." + n for n in ("Generator", "PCG64", "PCG64DXSM", "MT19937", "Philox", "SFC64", "RandomState", "BitGenerator")} | {
    "random.Random"}
RNG_TYPES = {NPR + "." + n for n in ("SeedSequence", "Generator", "BitGenerator", "RandomState")} | {"random.Random"}
ENTROPY = ("os.urandom", "os.getrandom", "secrets.", "uuid.uuid1", "uuid.uuid4", "random.SystemRandom")

QMC = "scipy.stats.qmc."
THIRD_PARTY = {}
for _n in ("k_means", "KMeans", "MiniBatchKMeans", "BisectingKMeans", "kmeans_plusplus", "SpectralClustering", "AffinityPropagation",
           "SpectralBiclustering", "SpectralCoclustering"):
    THIRD_PARTY["sklearn.cluster." + _n] = {"kw": ["random_state"]}
for _n in ("Sobol", "Halton"):
    THIRD_PARTY[QMC + _n] = {"kw": ["seed", "rng"], "det": ("scramble", False)}
for _n in ("LatinHypercube", "PoissonDisk", "MultinomialQMC", "MultivariateNormalQMC"):
    THIRD_PARTY[QMC + _n] = {"kw": ["seed", "rng"]}
for _n in ("kmeans", "kmeans2"):
    THIRD_PARTY["scipy.cluster.vq." + _n] = {"kw": ["seed", "rng"]}
THIRD_PARTY["cma.CMAEvolutionStrategy"] = {"pycma": 2}
THIRD_PARTY["cma.evolution_strategy.CMAEvolutionStrategy"] = {"pycma": 2}
SAMPLER_CTORS = {k for k in THIRD_PARTY if k.startswith(QMC)}
FAILCLOSED_PREFIXES = ("sklearn.", "scipy.stats.", "cma.", "scipy.cluster.vq.")

GEN_METHODS = set("""beta binomial bytes chisquare choice dirichlet exponential f gamma geometric gumbel hypergeometric integers laplace logistic
lognormal logseries multinomial multivariate_hypergeometric multivariate_normal negative_binomial noncentral_chisquare noncentral_f normal pareto
permutation permuted poisson power random rayleigh shuffle standard_cauchy standard_exponential standard_gamma standard_normal standard_t
triangular uniform vonmises wald weibull zipf rand randn randint random_integers random_sample ranf sample tomaxint choices randrange
normalvariate gauss lognormvariate expovariate vonmisesvariate gammavariate betavariate paretovariate weibullvariate getrandbits randbytes
rvs fast_forward""".split())
AMBIGUOUS = {"f", "power", "bytes", "beta", "gamma"}        # only counted when the receiver is known to be a generator
GLOBAL_STATE_METHODS = {"seed", "get_state", "set_state", "getstate", "setstate"}
RNG_PARAM_NAMES = ("rng", "generator", "random_state", "rs", "prng")
SKIP_FORWARD_FUNCS = {"isinstance", "int", "float", "len", "print", "str", "repr", "type", "bool", "id", "hash", "abs", "getattr", "hasattr"}
SKIP_FORWARD_METHODS = {"setdefault", "get", "update", "copy", "append", "format", "pop", "items", "keys", "values", "spawn"}


class ScanError(Exception):
    pass


# ------------------------------------------------------------------------------------------------------------
class Module:
    def __init__(self, repo, rel):
        self.rel = rel
        self.src = open(os.path.join(repo, rel)).read()
        self.tree = ast.parse(self.src)
        self.parent = {}
        for n in ast.walk(self.tree):
            for c in ast.iter_child_nodes(n):
                self.parent[c] = n
        self.alias = {}
        self.star = []
        for n in ast.walk(self.tree):
            if isinstance(n, ast.Import):
                for a in n.names:
                    if a.asname:
                        self.alias[a.asname] = a.name
                    else:
                        self.alias[a.name.split(".")[0]] = a.name.split(".")[0]
            elif isinstance(n, ast.ImportFrom):
                mod = ("." * n.level) + (n.module or "")
                for a in n.names:
                    if a.name == "*":
                        self.star.append((mod, n.lineno))
                    else:
                        self.alias[a.asname or a.name] = mod + "." + a.name

    def text(self, node):
        try:
            return ast.get_source_segment(self.src, node) or ast.dump(node)[:60]
        except Exception:  # noqa
            return ast.dump(node)[:60]


class Scope:
    """one function / lambda / class body / module: names -> list of bindings"""

    def __init__(self, mod, cls, name, node, outer):
        self.mod, self.cls, self.name, self.node, self.outer = mod, cls, name, node, outer
        self.env = {}
        self.varkw = None
        self.params = []
        if isinstance(node, (ast.FunctionDef, ast.AsyncFunctionDef, ast.Lambda)):
            a = node.args
            for p in list(a.posonlyargs) + list(a.args) + list(a.kwonlyargs):
                self.params.append(p.arg)
                self.env.setdefault(p.arg, []).append(("param", p.arg))
            if a.vararg:
                self.env.setdefault(a.vararg.arg, []).append(("param", a.vararg.arg))
            if a.kwarg:
                self.varkw = a.kwarg.arg
                self.env.setdefault(a.kwarg.arg, []).append(("varkw", a.kwarg.arg))
        self.keywrites = {}      # local dict name -> [(key, value expr)]
        for st in self.own_nodes():
            self.bind_stmt(st)

    def own_nodes(self):
        """nodes of this scope, not descending into nested functions / lambdas / classes"""
        body = self.node.body if not isinstance(self.node, ast.Lambda) else [self.node.body]
        stack = [b for b in (body if isinstance(body, list) else [body])
                 if not isinstance(b, (ast.FunctionDef, ast.AsyncFunctionDef, ast.Lambda, ast.ClassDef))]
        while stack:
            n = stack.pop()
            yield n
            for c in ast.iter_child_nodes(n):
                if isinstance(c, (ast.FunctionDef, ast.AsyncFunctionDef, ast.Lambda, ast.ClassDef)):
                    continue
                stack.append(c)

    def bind(self, target, value):
        if isinstance(target, ast.Name):
            self.env.setdefault(target.id, []).append(("assign", value))
        elif isinstance(target, (ast.Tuple, ast.List)):
            if isinstance(value, (ast.Tuple, ast.List)) and len(value.elts) == len(target.elts):
                for t, v in zip(target.elts, value.elts):
                    self.bind(t, v)
            else:
                for t in target.elts:
                    if isinstance(t, ast.Name):
                        self.env.setdefault(t.id, []).append(("unpack", value))
                    elif isinstance(t, ast.Starred) and isinstance(t.value, ast.Name):
                        self.env.setdefault(t.value.id, []).append(("unpack", value))
        elif isinstance(target, ast.Subscript) and isinstance(target.value, ast.Name):
            k = const_key(target.slice)
            if k is not None:
                self.keywrites.setdefault(target.value.id, []).append((k, value))

    def bind_stmt(self, st):
        if isinstance(st, ast.Assign):
            for t in st.targets:
                self.bind(t, st.value)
        elif isinstance(st, ast.AnnAssign) and st.value is not None:
            self.bind(st.target, st.value)
        elif isinstance(st, ast.AugAssign):
            self.bind(st.target, ast.BinOp(left=st.target, op=st.op, right=st.value))
        elif isinstance(st, ast.NamedExpr):
            self.bind(st.target, st.value)
        elif isinstance(st, (ast.For, ast.AsyncFor)):
            self.bind(st.target, ast.Subscript(value=st.iter, slice=ast.Constant(value=0), ctx=ast.Load()))
        elif isinstance(st, ast.comprehension):
            self.bind(st.target, ast.Subscript(value=st.iter, slice=ast.Constant(value=0), ctx=ast.Load()))
        elif isinstance(st, (ast.With, ast.AsyncWith)):
            for it in st.items:
                if it.optional_vars is not None:
                    self.bind(it.optional_vars, it.context_expr)
        elif isinstance(st, ast.Call):
            # local dict key writes through methods: d.setdefault(k, v) / d.update(k=v)
            f = st.func
            if isinstance(f, ast.Attribute) and isinstance(f.value, ast.Name):
                for k, v in call_keywrites(st):
                    self.keywrites.setdefault(f.value.id, []).append((k, v))

    def reaching(self, name, use):
        """the bindings of `name` that can reach `use`: the last assignment before it in an enclosing statement list of this scope when
        there is one (straight-line code inside one branch), otherwise every binding of the scope"""
        par = self.mod.parent
        n = use
        while n is not None and n is not self.node:
            p = par.get(n)
            if p is None:
                break
            for fld in ("body", "orelse", "finalbody"):
                blk = getattr(p, fld, None)
                if isinstance(blk, list) and n in blk:
                    for st in reversed(blk[:blk.index(n)]):
                        if isinstance(st, ast.Assign) and any(isinstance(t, ast.Name) and t.id == name for t in st.targets):
                            return [("assign", st.value)]
                        if any(isinstance(x, (ast.Name)) and x.id == name and isinstance(x.ctx, ast.Store) for x in ast.walk(st)):
                            return None       # bound in some other way (unpacking, loop, nested branch): no narrowing
            n = p
        return None

    def lookup(self, name):
        s = self
        while s is not None:
            if name in s.env and not isinstance(s.node, ast.ClassDef):
                return s, s.env[name]
            s = s.outer
        return None, None


def const_key(n):
    if isinstance(n, ast.Constant) and isinstance(n.value, str):
        return n.value
    return None


def call_keywrites(call):
    """(key, value) pairs a dict-method call writes: x.setdefault("k", v), x.update(k=v), x.update({"k": v})"""
    f = call.func
    out = []
    if not isinstance(f, ast.Attribute):
        return out
    if f.attr == "setdefault" and len(call.args) == 2 and const_key(call.args[0]) is not None:
        out.append((const_key(call.args[0]), call.args[1]))
    elif f.attr == "update":
        for kw in call.keywords:
            if kw.arg:
                out.append((kw.arg, kw.value))
        for a in call.args:
            out += dict_literal_items(a)
    return out


def dict_literal_items(e):
    out = []
    if isinstance(e, ast.Dict):
        for k, v in zip(e.keys, e.values):
            if k is not None and const_key(k) is not None:
                out.append((const_key(k), v))
    elif isinstance(e, ast.Call) and isinstance(e.func, ast.Name) and e.func.id == "dict":
        for kw in e.keywords:
            if kw.arg:
                out.append((kw.arg, kw.value))
    return out


class ClassInfo:
    def __init__(self, mod, node):
        self.mod, self.node, self.name = mod, node, node.name
        self.bases = []
        for b in node.bases:
            if isinstance(b, ast.Name):
                self.bases.append(b.id)
            elif isinstance(b, ast.Attribute):
                self.bases.append(b.attr)
        self.methods = {m.name: m for m in node.body if isinstance(m, (ast.FunctionDef, ast.AsyncFunctionDef))}
        self.attr_assign = {}     # attr -> [(scope, value expr)]
        self.attr_keys = {}       # attr -> [(scope, key, value expr)]


# ------------------------------------------------------------------------------------------------------------
class Scanner:
    def __init__(self, repo):
        self.repo = repo
        self.modules = []
        self.classes = {}
        self.dup_classes = set()
        self.funcs = {}
        self.entries = []
        self.scopes = {}      # id(node) -> Scope
        rels = []
        for dp, dn, fs in os.walk(os.path.join(repo, "ribs")):
            dn[:] = sorted(d for d in dn if d != "__pycache__")
            for f in sorted(fs):
                if f.endswith(".py"):
                    rels.append(os.path.relpath(os.path.join(dp, f), repo))
        if not rels:
            raise ScanError("no python module found under %s/ribs" % repo)
        self.files = rels
        self.hash = hashlib.sha256()
        for rel in rels:
            m = Module(repo, rel)
            self.hash.update(rel.encode() + b"\0" + m.src.encode())
            self.modules.append(m)
        for m in self.modules:
            for n in m.tree.body:
                if isinstance(n, ast.ClassDef):
                    if n.name in self.classes:
                        self.dup_classes.add(n.name)
                    self.classes[n.name] = ClassInfo(m, n)
                elif isinstance(n, (ast.FunctionDef, ast.AsyncFunctionDef)):
                    self.funcs.setdefault(n.name, []).append((m, n))
        self.notes = []
        self.seed_kw_callees = set()
        for m in self.modules:
            for n in ast.walk(m.tree):
                if isinstance(n, ast.Call) and any(kw.arg == "seed" for kw in n.keywords):
                    if isinstance(n.func, ast.Name):
                        self.seed_kw_callees.add(n.func.id)
                    elif isinstance(n.func, ast.Attribute) and n.func.attr == "__init__" and isinstance(n.func.value, ast.Name):
                        self.seed_kw_callees.add(n.func.value.id + ".__init__")
                    elif isinstance(n.func, ast.Attribute) and n.func.attr != "__init__":
                        self.seed_kw_callees.add(n.func.attr)
        for m in self.modules:
            self.build_scopes(m, m.tree, None, None, "<module>")
        # class attribute tables
        for sc in list(self.scopes.values()):
            if sc.cls is None or isinstance(sc.node, ast.ClassDef):
                continue
            for n in sc.own_nodes():
                self.class_writes(sc, n)

    # -- scopes
    def build_scopes(self, mod, node, cls, outer, name):
        sc = Scope(mod, cls, name, node, outer) if not isinstance(node, ast.Module) else Scope(mod, None, "<module>", node, None)
        self.scopes[id(node)] = sc
        for n in sc.own_nodes():
            for c in ast.iter_child_nodes(n):
                self.child_scope(mod, c, cls, sc, name)
        body = node.body if isinstance(node.body, list) else [node.body]
        for c in body:
            self.child_scope(mod, c, cls, sc, name)

    def child_scope(self, mod, c, cls, sc, name):
        if id(c) in self.scopes:
            return
        pre = "" if name == "<module>" else name + "."
        if isinstance(c, ast.ClassDef):
            ci = self.classes.get(c.name)
            if ci is None or ci.node is not c:
                ci = ClassInfo(mod, c)          # nested / shadowed class: own table
            self.build_scopes(mod, c, ci, sc, pre + c.name)
        elif isinstance(c, (ast.FunctionDef, ast.AsyncFunctionDef)):
            self.build_scopes(mod, c, cls, sc, pre + c.name)
        elif isinstance(c, ast.Lambda):
            self.build_scopes(mod, c, cls, sc, pre + "<lambda>")

    def class_writes(self, sc, n):
        def is_self_attr(t):
            return isinstance(t, ast.Attribute) and isinstance(t.value, ast.Name) and t.value.id == "self"
        ci = sc.cls
        if isinstance(n, ast.Assign):
            for t in n.targets:
                self.class_target(sc, t, n.value)
        elif isinstance(n, ast.AnnAssign) and n.value is not None:
            self.class_target(sc, n.target, n.value)
        elif isinstance(n, ast.AugAssign):
            self.class_target(sc, n.target, ast.BinOp(left=n.target, op=n.op, right=n.value))
        elif isinstance(n, ast.Call) and isinstance(n.func, ast.Attribute) and is_self_attr(n.func.value):
            for k, v in call_keywrites(n):
                ci.attr_keys.setdefault(n.func.value.attr, []).append((sc, k, v))
            if n.func.attr in ("__setattr__",):
                pass
        elif isinstance(n, ast.Call) and isinstance(n.func, ast.Name) and n.func.id == "setattr" and len(n.args) == 3:
            if isinstance(n.args[0], ast.Name) and n.args[0].id == "self":
                k = const_key(n.args[1])
                if k is not None:
                    ci.attr_assign.setdefault(k, []).append((sc, n.args[2]))
                else:
                    ci.attr_assign.setdefault("*", []).append((sc, n.args[2]))

    def class_target(self, sc, t, value):
        ci = sc.cls
        if isinstance(t, ast.Attribute) and isinstance(t.value, ast.Name) and t.value.id == "self":
            ci.attr_assign.setdefault(t.attr, []).append((sc, value))
            for k, v in dict_literal_items(value):
                ci.attr_keys.setdefault(t.attr, []).append((sc, k, v))
        elif isinstance(t, ast.Subscript) and isinstance(t.value, ast.Attribute) and isinstance(t.value.value, ast.Name) and t.value.value.id == "self":
            k = const_key(t.slice)
            if k is not None:
                ci.attr_keys.setdefault(t.value.attr, []).append((sc, k, value))
        elif isinstance(t, (ast.Tuple, ast.List)):
            for e in t.elts:
                self.class_target(sc, e, ast.Subscript(value=value, slice=ast.Constant(value=0), ctx=ast.Load()))

    def mro(self, ci):
        out, todo = [], [ci]
        while todo:
            c = todo.pop(0)
            if c in out:
                continue
            out.append(c)
            for b in c.bases:
                if b in self.classes and b not in self.dup_classes:
                    todo.append(self.classes[b])
        return out

    def attr_assigns(self, ci, attr):
        out = []
        for c in self.mro(ci):
            out += c.attr_assign.get(attr, []) + c.attr_assign.get("*", [])
        return out

    def attr_keywrites(self, ci, attr, key):
        out = []
        for c in self.mro(ci):
            out += [(sc, v) for sc, k, v in c.attr_keys.get(attr, []) if k == key]
        return out

    # -- name resolution
    def path(self, sc, e):
        """dotted path of a module-level entity, or None for anything local / dynamic"""
        if isinstance(e, ast.Name):
            s, b = sc.lookup(e.id)
            if b is not None and s.name != "<module>":
                return None
            if b is not None and s.name == "<module>" and e.id not in sc.mod.alias:
                return None
            return sc.mod.alias.get(e.id)
        if isinstance(e, ast.Attribute):
            p = self.path(sc, e.value)
            return None if p is None else p + "." + e.attr
        return None

    @staticmethod
    def rng_namespace(p):
        return p is not None and (p == NPR or p.startswith(NPR + ".") or p == "random" or p.startswith("random.") or
                                  any(p == x or (x.endswith(".") and p.startswith(x)) for x in ENTROPY))

    # -- seed data flow
    def combine(self, kinds, literal_ok=False):
        kinds = list(kinds)
        if not kinds:
            return "SrcUnknown"
        for bad in ("SrcUnknown", "SrcNone"):
            if bad in kinds:
                return bad
        if "SrcLiteral" in kinds:
            rest = [k for k in kinds if k != "SrcLiteral"]
            if not (literal_ok and rest):
                return "SrcLiteral"
            kinds = rest
        for p in PREF:
            if p in kinds:
                return p
        return "SrcUnknown"

    def seed_src(self, sc, e, seen=()):
        if e is None:
            return "SrcNone"
        key = (id(sc), id(e))
        if key in seen:
            return "SrcUnknown"
        seen = seen + (key,)
        if isinstance(e, ast.Constant):
            return "SrcNone" if e.value is None else "SrcLiteral"
        if isinstance(e, ast.Name):
            s, binds = sc.lookup(e.id)
            if binds is None or s.name == "<module>":
                return "SrcUnknown"
            return self.combine(self.bind_src(s, e.id, b, seen) for b in binds)
        if isinstance(e, ast.Attribute):
            if isinstance(e.value, ast.Name) and e.value.id == "self" and sc.cls is not None:
                asg = self.attr_assigns(sc.cls, e.attr)
                if not asg:
                    return "SrcUnknown"
                ks = []
                for s2, v in asg:
                    if self.is_gen_ctor(s2, v):
                        k = self.ctor_src(s2, v, seen)
                        ks.append("SrcOwnedGen" if k in SEEDED else k)
                    else:
                        k = self.seed_src(s2, v, seen)
                        ks.append("SrcAttr" if k in SEEDED else k)
                return self.combine(ks)
            p = self.path(sc, e)
            if p in ("numpy.nan", "numpy.inf", "math.nan", "math.inf", "numpy.NaN"):
                return "SrcLiteral"
            return "SrcUnknown"
        if isinstance(e, ast.IfExp):
            return self.combine([self.seed_src(sc, e.body, seen), self.seed_src(sc, e.orelse, seen)])
        if isinstance(e, ast.BinOp):
            return self.combine([self.seed_src(sc, e.left, seen), self.seed_src(sc, e.right, seen)], literal_ok=True)
        if isinstance(e, ast.UnaryOp):
            return self.seed_src(sc, e.operand, seen)
        if isinstance(e, ast.Subscript):
            return self.seed_src(sc, e.value, seen)
        if isinstance(e, ast.Starred):
            return self.seed_src(sc, e.value, seen)
        if isinstance(e, (ast.Tuple, ast.List)) and e.elts:
            return self.combine(self.seed_src(sc, x, seen) for x in e.elts)
        if isinstance(e, ast.Call):
            p = self.path(sc, e.func)
            if p in SEQ_CTORS:
                k = self.seed_src(sc, self.first_arg(e, ("entropy",)), seen)
                return "SrcSeedSeq" if k in SEEDED else k
            if p in GEN_CTORS or p in BITGEN_CTORS:
                return self.ctor_src(sc, e, seen)
            if isinstance(e.func, ast.Attribute) and e.func.attr == "spawn":
                k = self.seed_src(sc, e.func.value, seen)
                return "SrcSpawn" if k in SEEDED else k
            if isinstance(e.func, ast.Attribute) and e.func.attr in ("generate_state", "integers") and e.args is not None:
                k = self.seed_src(sc, e.func.value, seen)      # entropy words drawn from a seeded sequence / generator
                return k
            if isinstance(e.func, ast.Name) and e.func.id in ("int", "abs", "tuple", "list") and len(e.args) == 1:
                return self.seed_src(sc, e.args[0], seen)
            return "SrcUnknown"
        return "SrcUnknown"

    def bind_src(self, s, name, b, seen):
        if b[0] == "param":
            if name == "seed" or name.endswith("_seed") or name == "random_state" or name.endswith("seed_sequence"):
                return "SrcParam"
            return "SrcUnknown"
        if b[0] == "varkw":
            return "SrcKwargs"
        if b[0] == "assign":
            if self.is_gen_ctor(s, b[1]):
                k = self.ctor_src(s, b[1], seen)
                return "SrcOwnedGen" if k in SEEDED else k
            return self.seed_src(s, b[1], seen)
        if b[0] == "unpack":
            return self.seed_src(s, b[1], seen)
        return "SrcUnknown"

    @staticmethod
    def first_arg(call, kws):
        if call.args and not isinstance(call.args[0], ast.Starred):
            return call.args[0]
        for kw in call.keywords:
            if kw.arg in kws:
                return kw.value
        return None

    def is_gen_ctor(self, sc, e):
        return isinstance(e, ast.Call) and (self.path(sc, e.func) in GEN_CTORS or self.path(sc, e.func) in BITGEN_CTORS)

    def ctor_src(self, sc, call, seen=()):
        """seed source of np.random.default_rng(e) / Generator(PCG64(e)) / RandomState(e) / random.Random(e)"""
        a = self.first_arg(call, ("seed", "bit_generator", "x"))
        if a is None:
            return "SrcNone"
        return self.seed_src(sc, a, seen)

    # -- receivers of generator methods
    def recv(self, sc, e):
        """(recv_kind, seed_src) of the object a Generator-looking method is called on; None when it is plainly not a generator"""
        binds = None
        if isinstance(e, ast.Attribute) and isinstance(e.value, ast.Name) and e.value.id == "self" and sc.cls is not None:
            binds = [(s2, ("assign", v)) for s2, v in self.attr_assigns(sc.cls, e.attr)]
            good = "RvSelfAttr"
        elif isinstance(e, ast.Name):
            s, b = sc.lookup(e.id)
            if b is not None and s.name != "<module>":
                near = s.reaching(e.id, e) if s is sc else None
                binds = [(s, x) for x in (near or b)]
            good = "RvLocal"
        if binds is None:
            return ("RvUnknown", "SrcUnknown")
        if not binds:
            return ("RvUnknown", "SrcUnknown")
        kinds, srcs = set(), []
        for s2, b in binds:
            if b[0] in ("param", "varkw"):
                kinds.add("RvParam")
                srcs.append("SrcUnknown")
            elif b[0] == "assign" and self.is_gen_ctor(s2, b[1]):
                kinds.add(good)
                srcs.append(self.ctor_src(s2, b[1]))
            elif b[0] == "assign" and isinstance(b[1], ast.Call) and self.path(s2, b[1].func) in SAMPLER_CTORS:
                kinds.add("RvSampler")
                srcs.append(self.third_party_src(s2, b[1], self.path(s2, b[1].func))[0])
            elif b[0] == "assign" and isinstance(b[1], (ast.Name, ast.Attribute)):
                k, s = self.recv(s2, b[1]) if (id(s2), id(b[1])) != (id(sc), id(e)) else ("RvUnknown", "SrcUnknown")
                kinds.add(k)
                srcs.append(s)
            else:
                kinds.add("RvUnknown")
                srcs.append("SrcUnknown")
        for k in ("RvUnknown", "RvParam"):
            if k in kinds:
                return (k, "SrcUnknown")
        if len(kinds) > 1:
            return ("RvUnknown", "SrcUnknown")
        return (kinds.pop(), self.combine(srcs))

    # -- third party
    def kw_value(self, sc, call, names):
        """expression given for one of the keyword names, looking through **dict arguments; ('missing', None) when absent"""
        for kw in call.keywords:
            if kw.arg in names:
                return ("expr", sc, kw.value)
        for kw in call.keywords:
            if kw.arg is None:
                for nm in names:
                    found = self.dict_key(sc, kw.value, nm)
                    if found:
                        return ("exprs", found)
        return ("missing",)

    def dict_key(self, sc, d, key, depth=0):
        """[(scope, value expr)] written under `key` into the dict expression d (same function / class)"""
        if depth > 4:
            return []
        out = []
        if isinstance(d, ast.IfExp):
            return self.dict_key(sc, d.body, key, depth + 1) + self.dict_key(sc, d.orelse, key, depth + 1)
        if isinstance(d, ast.BoolOp):
            for v in d.values:
                out += self.dict_key(sc, v, key, depth + 1)
            return out
        for k, v in dict_literal_items(d):
            if k == key:
                out.append((sc, v))
        if isinstance(d, ast.Call) and isinstance(d.func, ast.Attribute) and d.func.attr == "copy":
            return out + self.dict_key(sc, d.func.value, key, depth + 1)
        if isinstance(d, ast.Attribute) and isinstance(d.value, ast.Name) and d.value.id == "self" and sc.cls is not None:
            out += self.attr_keywrites(sc.cls, d.attr, key)
            for s2, v in self.attr_assigns(sc.cls, d.attr):
                out += self.dict_key(s2, v, key, depth + 1)
        elif isinstance(d, ast.Name):
            s, binds = sc.lookup(d.id)
            if binds is not None and s.name != "<module>":
                out += [(s, v) for k, v in s.keywrites.get(d.id, []) if k == key]
                for b in binds:
                    if b[0] == "assign":
                        out += self.dict_key(s, b[1], key, depth + 1)
        return out

    def third_party_src(self, sc, call, p):
        """(seed_src, note)"""
        spec = THIRD_PARTY[p]
        if "pycma" in spec:
            opts = call.args[spec["pycma"]] if len(call.args) > spec["pycma"] else None
            for kw in call.keywords:
                if kw.arg == "inopts":
                    opts = kw.value
            if opts is None:
                return "SrcNone", "no options: pycma seeds and uses numpy's global generator"
            randn = self.dict_key(sc, opts, "randn")
            seed = self.dict_key(sc, opts, "seed")
            if not randn:
                return "SrcNone", "options without 'randn': pycma draws from numpy's global generator"
            if not seed:
                return "SrcNone", "options without 'seed': pycma calls np.random.seed()"
            for s2, v in seed:
                if not (self.path(s2, v) in ("numpy.nan", "math.nan", "numpy.NaN") or
                        (isinstance(v, ast.Call) and isinstance(v.func, ast.Name) and v.func.id == "float" and v.args and
                         isinstance(v.args[0], ast.Constant) and str(v.args[0].value).lower() == "nan")):
                    return "SrcLiteral", "options 'seed' is not nan: pycma calls np.random.seed(seed) on the global generator"
            ks = []
            for s2, v in randn:
                ks.append(self.closure_src(s2, v))
            k = self.combine(ks)
            return k, "randn closure + seed=nan"
        det = spec.get("det")
        if det:
            for kw in call.keywords:
                if kw.arg == det[0] and isinstance(kw.value, ast.Constant) and kw.value.value is det[1]:
                    return "SrcDeterministic", "%s=%r" % det
        got = self.kw_value(sc, call, spec["kw"])
        if got[0] == "expr":
            return self.seed_src(got[1], got[2]), "keyword"
        if got[0] == "exprs":
            return self.combine(self.seed_src(s2, v) for s2, v in got[1]), "through **dict"
        return "SrcNone", "no %s argument" % "/".join(spec["kw"])

    def closure_src(self, sc, v):
        """a randn callable: a lambda / local function all of whose RNG uses are Generator methods on an owned, seeded generator"""
        node = None
        if isinstance(v, ast.Lambda):
            node = v
        elif isinstance(v, ast.Name):
            s, binds = sc.lookup(v.id)
            for n in ast.walk(sc.node):
                if isinstance(n, ast.FunctionDef) and n.name == v.id:
                    node = n
        elif isinstance(v, ast.Attribute) and v.attr in GEN_METHODS:
            k, s = self.recv(sc, v.value)            # bound method of an owned generator
            return "SrcOwnedGen" if k in ("RvSelfAttr", "RvLocal") and s in SEEDED else "SrcUnknown"
        if node is None or id(node) not in self.scopes:
            return "SrcUnknown"
        inner = self.scopes[id(node)]
        uses = []
        for n in ast.walk(node):
            if isinstance(n, ast.Call) and isinstance(n.func, ast.Attribute) and n.func.attr in GEN_METHODS:
                p = self.path(inner, n.func)
                if p is not None and not self.rng_namespace(p):
                    continue
                if self.rng_namespace(p):
                    return "SrcNone"
                uses.append(self.recv(inner, n.func.value))
        if not uses:
            return "SrcUnknown"
        if all(k in ("RvSelfAttr", "RvLocal") and s in SEEDED for k, s in uses):
            return "SrcOwnedGen"
        return "SrcUnknown"

    # -- ribs callables with a seed parameter
    def seed_param(self, name):
        """(index among positional parameters without self or None, has **kwargs) of a ribs class / function taking `seed`"""
        fdefs = []
        if name in self.classes and name not in self.dup_classes:
            for c in self.mro(self.classes[name]):
                if "__init__" in c.methods:
                    fdefs = [(c.methods["__init__"], True)]
                    break
        elif name in self.funcs and len(self.funcs[name]) == 1:
            fdefs = [(self.funcs[name][0][1], False)]
        for f, is_method in fdefs:
            pos = [a.arg for a in list(f.args.posonlyargs) + list(f.args.args)]
            if is_method:
                pos = pos[1:]
            if "seed" in pos:
                return (pos.index("seed"), f.args.kwarg is not None)
            if "seed" in [a.arg for a in f.args.kwonlyargs]:
                return (None, f.args.kwarg is not None)
        return None

    # -- the walk
    def add_site(self, sc, node, kind, callee, src, note=""):
        self.entries.append({"e": "site", "file": sc.mod.rel, "line": node.lineno, "col": node.col_offset, "scope": sc.name, "kind": kind,
                             "callee": callee, "src": src, "note": note})

    def add_use(self, sc, node, method, recv_text, rkind, src):
        self.entries.append({"e": "use", "file": sc.mod.rel, "line": node.lineno, "col": node.col_offset, "scope": sc.name, "method": method,
                             "recv": recv_text, "rkind": rkind, "src": src})

    def scan(self):
        for m in self.modules:
            for mod, ln in m.star:
                p = mod.lstrip(".")
                if p == "random" or p == "numpy" or p.startswith("numpy.random") or p == "secrets":
                    self.entries.append({"e": "site", "file": m.rel, "line": ln, "col": 0, "scope": "<module>", "kind": "KAlias",
                                         "callee": "from %s import *" % mod, "src": "SrcUnknown", "note": "star import of an RNG namespace"})
        for sc in self.scopes.values():
            handled = set()
            nodes = list(sc.own_nodes())
            if isinstance(sc.node, (ast.FunctionDef, ast.AsyncFunctionDef, ast.Lambda)):
                # default values of parameters and decorators are evaluated in the enclosing scope: scan them here as well
                for d in list(sc.node.args.defaults) + [d for d in sc.node.args.kw_defaults if d is not None]:
                    nodes += [x for x in ast.walk(d) if not isinstance(x, ast.Lambda)]
            for n in nodes:
                if isinstance(n, ast.Call):
                    self.visit_call(sc, n, handled)
            for n in nodes:
                if isinstance(n, (ast.Attribute, ast.Name)) and id(n) not in handled:
                    par = sc.mod.parent.get(n)
                    if isinstance(par, ast.Attribute) and par.value is n:
                        continue          # not the maximal chain
                    p = self.path(sc, n)
                    if not self.rng_namespace(p):
                        continue
                    if p in RNG_TYPES and self.in_isinstance(sc, n):
                        continue
                    if isinstance(n, ast.Name) and isinstance(par, (ast.Import, ast.ImportFrom, ast.alias)):
                        continue
                    self.add_site(sc, n, "KAlias", p, "SrcUnknown", "RNG namespace / function used as a value")
        self.entries.sort(key=lambda d: (d["file"], d["line"], d["col"], d["e"], d.get("kind", ""), d.get("method", "")))
        return self.entries

    def in_isinstance(self, sc, n):
        p = sc.mod.parent.get(n)
        while isinstance(p, (ast.Tuple, ast.Attribute)):
            p = sc.mod.parent.get(p)
        return isinstance(p, ast.Call) and isinstance(p.func, ast.Name) and p.func.id in ("isinstance", "issubclass")

    def mark(self, handled, e):
        for x in ast.walk(e):
            handled.add(id(x))

    def visit_call(self, sc, c, handled):
        f = c.func
        p = self.path(sc, f)
        txt = sc.mod.text(f)
        if p is not None and (p in ("time.time", "time.time_ns", "time.perf_counter", "time.perf_counter_ns", "time.monotonic", "time.monotonic_ns",
                                      "time.process_time", "os.getpid", "os.times") or p.startswith("datetime.") or p.startswith("uuid.")):
            # wall-clock / process-dependent values: whatever is decided from them differs from run to run
            self.mark(handled, f)
            return self.add_site(sc, c, "KUnknown", p, "SrcUnknown", "clock / process dependent value")
        if isinstance(f, ast.Name) and f.id == "hash" and p is None:
            # hash() of a str / bytes is salted per interpreter process (PYTHONHASHSEED): whatever is derived from it differs between runs
            self.mark(handled, f)
            return self.add_site(sc, c, "KUnknown", "builtins.hash", "SrcUnknown", "hash(): salted per interpreter process")
        if p is not None and self.rng_namespace(p):
            self.mark(handled, f)
            if p in GEN_CTORS:
                return self.add_site(sc, c, "KDefaultRng", p, self.ctor_src(sc, c))
            if p in SEQ_CTORS:
                return self.add_site(sc, c, "KSeedSequence", p, self.seed_src(sc, self.first_arg(c, ("entropy",))))
            if p in BITGEN_CTORS:
                return self.add_site(sc, c, "KBitGen", p, self.ctor_src(sc, c))
            if p.startswith(NPR):
                return self.add_site(sc, c, "KLegacyNp", p, "SrcNone", "legacy global RandomState")
            if p.startswith("random."):
                return self.add_site(sc, c, "KPyRandom", p, "SrcNone", "Python's module-level generator")
            return self.add_site(sc, c, "KUnknown", p, "SrcUnknown", "OS entropy source")
        if p in THIRD_PARTY:
            src, note = self.third_party_src(sc, c, p)
            return self.add_site(sc, c, "KThirdParty", p, src, note)
        if p is not None and p.startswith(FAILCLOSED_PREFIXES):
            got = self.kw_value(sc, c, ["random_state", "seed", "rng"])
            if got[0] == "expr":
                return self.add_site(sc, c, "KThirdParty", p, self.seed_src(got[1], got[2]), "not in the allow-list table; seed keyword present")
            return self.add_site(sc, c, "KUnknown", p, "SrcUnknown", "call into a stochastic third-party namespace that is not in the allow-list table")
        # methods
        if isinstance(f, ast.Attribute):
            meth = f.attr
            if meth == "spawn":
                k = self.seed_src(sc, f.value)
                if k in SEEDED or self.looks_like_seq(sc, f.value):
                    return self.add_site(sc, c, "KSpawn", sc.mod.text(f.value) + ".spawn", k)
            if meth in GEN_METHODS or meth in GLOBAL_STATE_METHODS:
                if p is not None:
                    pass      # a function of some other module (np.power, scipy.special.gamma ...): not a generator method
                else:
                    rk, src = self.recv(sc, f.value)
                    known = rk in ("RvSelfAttr", "RvLocal", "RvSampler")
                    rng_param = rk == "RvParam" and isinstance(f.value, ast.Name) and (
                        f.value.id in RNG_PARAM_NAMES or f.value.id.endswith("_rng") or f.value.id.endswith("rng"))
                    named_rng = "rng" in sc.mod.text(f.value).lower() or "random" in sc.mod.text(f.value).lower()
                    if meth in GLOBAL_STATE_METHODS:
                        if known or rng_param or named_rng:
                            self.add_use(sc, c, meth, sc.mod.text(f.value), rk if (known or rng_param) else "RvUnknown", src if known else "SrcUnknown")
                    elif known:
                        self.add_use(sc, c, meth, sc.mod.text(f.value), rk, src)
                    elif rng_param:
                        self.add_use(sc, c, meth, sc.mod.text(f.value), "RvParam", "SrcUnknown")
                    elif meth not in AMBIGUOUS and not self.plainly_not_rng(sc, f.value, meth):
                        self.add_use(sc, c, meth, sc.mod.text(f.value), "RvUnknown", "SrcUnknown")
        # forwarding
        self.visit_forward(sc, c, p, txt)

    def looks_like_seq(self, sc, e):
        t = sc.mod.text(e).lower()
        return "seed" in t or "seq" in t

    def plainly_not_rng(self, sc, recv, meth):
        """receivers on which a Generator-looking method name is certainly something else (kept minimal and explicit)"""
        t = sc.mod.text(recv)
        if meth == "sample" and t in ("self", "archive", "self.archive", "self._archive"):
            return False
        return False

    def scope_has_seed(self, sc):
        """the enclosing function (chain) is a seeded component: it has a seed parameter, or receives seed= through its **kwargs"""
        s = sc
        while s is not None:
            for name, binds in s.env.items():
                for b in binds:
                    if b[0] == "param" and self.bind_src(s, name, b, ()) == "SrcParam":
                        return True
                    if b[0] == "varkw" and self.varkw_carries_seed(s):
                        return True
            s = s.outer
        return False

    def varkw_carries_seed(self, s):
        """the **kwargs of function scope s can contain the seed: s has no seed parameter of its own and some call in ribs passes seed= to it"""
        if s.varkw is None or "seed" in s.params:
            return False
        name = getattr(s.node, "name", None)
        if name == "__init__" and s.cls is not None:
            return any(c.name in self.seed_kw_callees or c.name + ".__init__" in self.seed_kw_callees for c in [s.cls])
        return name in self.seed_kw_callees

    def star_is_seed_kwargs(self, sc, d):
        if self.seed_src(sc, d) != "SrcKwargs":
            return False
        s = sc
        while s is not None:
            if s.varkw is not None and any(isinstance(x, ast.Name) and x.id == s.varkw for x in ast.walk(d)):
                return self.varkw_carries_seed(s)
            s = s.outer
        return False

    def visit_forward(self, sc, c, p, txt):
        f = c.func
        if isinstance(f, ast.Name) and f.id in SKIP_FORWARD_FUNCS and self.path(sc, f) is None:
            return
        if isinstance(f, ast.Attribute) and f.attr in SKIP_FORWARD_METHODS:
            return
        if p is not None and (p.startswith("numpy.") or p.startswith("warnings.") or p.startswith("numbers.")):
            return
        # which ribs callable is this?
        target = None
        if isinstance(f, ast.Name):
            s, b = sc.lookup(f.id)
            if b is None or s.name == "<module>":
                target = f.id
        elif isinstance(f, ast.Attribute) and f.attr == "__init__":
            if isinstance(f.value, ast.Name):
                target = f.value.id
            elif isinstance(f.value, ast.Call) and isinstance(f.value.func, ast.Name) and f.value.func.id == "super" and sc.cls is not None:
                for bcls in self.mro(sc.cls)[1:]:
                    if "__init__" in bcls.methods:
                        target = bcls.name
                        break
        elif isinstance(f, ast.Attribute) and p is not None:
            target = f.attr
        sp = self.seed_param(target) if target is not None else None
        explicit_init = isinstance(f, ast.Attribute) and f.attr == "__init__" and isinstance(f.value, ast.Name)
        passed = None
        for kw in c.keywords:
            if kw.arg in ("seed", "random_state"):
                passed = self.seed_src(sc, kw.value)
        if passed is None and sp is not None and sp[0] is not None:
            i = sp[0] + (1 if explicit_init else 0)
            if len(c.args) > i and not any(isinstance(a, ast.Starred) for a in c.args[:i + 1]):
                passed = self.seed_src(sc, c.args[i])
        if passed is not None:
            return self.add_site(sc, c, "KForward", txt, passed)
        star = [kw.value for kw in c.keywords if kw.arg is None]
        if sp is not None:
            found = []
            for d in star:
                found += self.dict_key(sc, d, "seed")
            if found:
                return self.add_site(sc, c, "KForward", txt, self.combine(self.seed_src(s2, v) for s2, v in found), "through **dict")
            if any(self.star_is_seed_kwargs(sc, d) for d in star):
                return self.add_site(sc, c, "KForward", txt, "SrcKwargs", "through the caller's **kwargs")
            if self.scope_has_seed(sc):
                return self.add_site(sc, c, "KForward", txt, "SrcNone", "ribs callable with a seed parameter called without the component's seed")
            self.notes.append("%s:%d %s: %s constructed without a seed in a scope that has none (not a seeded component)" % (
                sc.mod.rel, c.lineno, sc.name, txt))
            return
        # unknown / dynamic callee: a seed-derived value handed on positionally or through the enclosing function's **kwargs
        ks = []
        for a in list(c.args) + [kw.value for kw in c.keywords if kw.arg is not None]:
            k = self.seed_src(sc, a)
            if k in SEEDED and k != "SrcKwargs" and not self.is_gen_ctor(sc, a):
                ks.append(k)
        for d in star:
            if self.star_is_seed_kwargs(sc, d):
                ks.append("SrcKwargs")
        if ks:
            return self.add_site(sc, c, "KForward", txt, self.combine(ks))


# ------------------------------------------------------------------------------------------------------------
def entry_seeded(e):
    if e["e"] == "site":
        return e["kind"] not in BAD_KINDS and e["src"] in SEEDED
    return e["rkind"] in ("RvSelfAttr", "RvLocal", "RvSampler") and e["src"] in SEEDED


def coq_str(s):
    s = "".join(ch if 32 <= ord(ch) < 127 else "?" for ch in s)
    return '"' + s.replace('"', '""') + '"'


def coq_entry(e):
    if e["e"] == "site":
        return "ESite (mkSite %s %d %s %s %s %s)" % (coq_str(e["file"]), e["line"], coq_str(e["scope"]), e["kind"], coq_str(e["callee"]), e["src"])
    return "EUse (mkUse %s %d %s %s %s %s %s)" % (coq_str(e["file"]), e["line"], coq_str(e["scope"]), coq_str(e["method"]), coq_str(e["recv"]),
                                                 e["rkind"], e["src"])


def coq_list(es, indent="  "):
    if not es:
        return "[]"
    return "[\n" + ";\n".join(indent + coq_entry(e) for e in es) + "\n]"


HEAD_INV = """(** GENERATED by harness/c09_scan.py from the current pyribs source on every run -- do not edit.
    Inventory of every RNG construction / forwarding / use site under ribs/ (%d modules, source sha256 %s).
    Vocabulary: Model/RngSite.v (sites) and Model/RngSite2.v (use sites, entries). *)
From Coq Require Import List ZArith String.
From PV Require Import Model.Rng Model.RngSite Model.RngSite2.
Import ListNotations.
Local Open Scope string_scope.

Definition inventory : list entry := %s.
"""

HEAD_OK = """(** GENERATED by harness/c09_scan.py together with Generated/RngInventory.v on every run -- do not edit.
    What Coq checks by computation about the inventory of the CURRENT source, and what that verdict means in the
    stream-ownership model (Proofs/RngInventoryProofs.v, Proofs/RngProofs.v).  verdict: %s *)
From Coq Require Import List ZArith Bool String.
From PV Require Import Base.ListUtil Model.Rng Model.RngSite Model.RngSite2 Proofs.RngProofs Proofs.RngInventoryProofs Generated.RngInventory.
Import ListNotations.

Example inventory_size : count_sites inventory = %d%%nat /\\ count_uses inventory = %d%%nat.
Proof. vm_compute. split; reflexivity. Qed.
"""

BODY_TRUE = """
(** every construction is seeded from its component's seed, every use goes through an owned seeded generator,
    nothing legacy / aliased / unclassified *)
Theorem inventory_all_seeded : all_entries_seeded inventory = true.
Proof. vm_compute. reflexivity. Qed.

Theorem inventory_no_offender : unseeded_entries inventory = [].
Proof. exact (proj1 (verdict_true_iff_none inventory) inventory_all_seeded). Qed.

(** hence: any pyribs call that executes inventoried entries only draws from owned generators only ... *)
Theorem ribs_inventory_owned : forall us : list entry_use,
  (forall u, In u us -> In (fst (fst u)) inventory) -> owned_only (entry_prog us) = true.
Proof. intros us H. exact (inventory_prog_owned inventory us inventory_all_seeded H). Qed.

(** ... and every history of such calls, interleaved with foreign draws / reseeds of the global generators and pickle
    round trips, meets the hypothesis of C09_frame / C09_interleaving / C09_checkpoint / C09_globals_* *)
Theorem ribs_inventory_py_ok : forall h : list eop,
  Forall (eop_within inventory) h -> py_ok (map compile_eop h) = true.
Proof. intros h H. exact (inventory_py_ok inventory h inventory_all_seeded H). Qed.

Theorem ribs_inventory_frame : forall (bits : seedid -> Z -> Z) (h : list eop) (w1 w2 : world),
  Forall (eop_within inventory) h -> own w1 = own w2 ->
  py_outs (fst (run bits (map compile_eop h) w1)) = py_outs (fst (run bits (map compile_eop h) w2)) /\\
  own (snd (run bits (map compile_eop h) w1)) = own (snd (run bits (map compile_eop h) w2)).
Proof. intros bits h w1 w2. exact (inventory_frame bits inventory h w1 w2 inventory_all_seeded). Qed.

Theorem ribs_inventory_interleaving : forall (bits : seedid -> Z -> Z) (h : list eop) (w w' : world),
  Forall (eop_within inventory) h -> own w = own w' ->
  py_outs (fst (run bits (map compile_eop h) w)) = py_outs (fst (run bits (drop_foreign (map compile_eop h)) w')) /\\
  own (snd (run bits (map compile_eop h) w)) = own (snd (run bits (drop_foreign (map compile_eop h)) w')).
Proof. intros bits h w w'. exact (inventory_interleave bits inventory h w w' inventory_all_seeded). Qed.

Theorem ribs_inventory_globals_untouched : forall (bits : seedid -> Z -> Z) (h : list eop) (w : world),
  Forall (eop_within inventory) h -> forallb eop_is_py h = true ->
  glob (snd (run bits (map compile_eop h) w)) = glob w.
Proof. intros bits h w. exact (inventory_globals_untouched bits inventory h w inventory_all_seeded). Qed.

Theorem ribs_inventory_checkpoint : forall (bits : seedid -> Z -> Z) (h1 h2 : list eop) (w : world) (gl : globals),
  Forall (eop_within inventory) (h1 ++ h2) ->
  let w1 := snd (run bits (map compile_eop h1) w) in
  let r := run bits (map compile_eop h2) (restore (save w1) gl) in
  py_outs (fst (run bits (map compile_eop (h1 ++ h2)) w)) = py_outs (fst (run bits (map compile_eop h1) w)) ++ py_outs (fst r) /\\
  own (snd (run bits (map compile_eop (h1 ++ h2)) w)) = own (snd r).
Proof. intros bits h1 h2 w gl. exact (inventory_checkpoint bits inventory h1 h2 w gl inventory_all_seeded). Qed.

Print Assumptions inventory_all_seeded.
Print Assumptions ribs_inventory_owned.
Print Assumptions ribs_inventory_py_ok.
Print Assumptions ribs_inventory_frame.
Print Assumptions ribs_inventory_interleaving.
Print Assumptions ribs_inventory_globals_untouched.
Print Assumptions ribs_inventory_checkpoint.
"""

BODY_FALSE = """
(** THE TIE IS BROKEN on this source tree: the inventory contains entries that are not seeded from their
    component's seed (harness/c09.py reports them as a VIOLATION). *)
Theorem inventory_all_seeded_refuted : all_entries_seeded inventory = false.
Proof. vm_compute. reflexivity. Qed.

Local Open Scope string_scope.
Definition offending : list entry := %s.
Close Scope string_scope.

Theorem offending_correct : unseeded_entries inventory = offending.
Proof. vm_compute. reflexivity. Qed.

(** each of them is in the inventory, is not seeded, and executing it consumes a process-wide source
    (NumPy's global RandomState, Python's random module, or fresh OS entropy) *)
Theorem offending_disturb : forall (bits : seedid -> Z -> Z) (e : entry) (g : nat) (n : Z) (w : world),
  In e offending -> 0 < n ->
  In e inventory /\\ entry_seeded e = false /\\ glob (snd (draw bits w (resolve_entry e g) n)) <> glob w.
Proof.
  intros bits e g n w H Hn. rewrite <- offending_correct in H. apply unseeded_entries_spec in H.
  destruct H as [A B]. repeat split; [exact A|exact B|]. exact (unseeded_entry_disturbs bits e g n w B Hn).
Qed.

Print Assumptions inventory_all_seeded_refuted.
Print Assumptions offending_correct.
Print Assumptions offending_disturb.
"""


def render(entries, nfiles, sha):
    bad = [e for e in entries if not entry_seeded(e)]
    inv = HEAD_INV % (nfiles, sha[:16], coq_list(entries))
    ns = sum(1 for e in entries if e["e"] == "site")
    nu = len(entries) - ns
    if bad:
        ok = HEAD_OK % ("REFUTED (%d offending entries)" % len(bad), ns, nu) + BODY_FALSE % coq_list(bad)
    else:
        ok = HEAD_OK % ("all entries seeded", ns, nu) + BODY_TRUE
    return inv, ok, bad


def _write(path, text):
    old = open(path).read() if os.path.exists(path) else None
    if old == text:
        return False
    os.makedirs(os.path.dirname(path), exist_ok=True)
    tmp = path + ".tmp%d" % os.getpid()
    with open(tmp, "w") as f:
        f.write(text)
    os.replace(tmp, path)
    return True


def scan(repo=None):
    sc = Scanner(repo or REPO)
    entries = sc.scan()
    scan.notes = sc.notes
    return entries, len(sc.files), sc.hash.hexdigest()


def generate(repo=None, write=True):
    st = {"ok": False, "error": None, "verdict": None, "entries": [], "offending": [], "written": False, "sha": None, "files": 0,
          "repo": repo or REPO}
    try:
        entries, nfiles, sha = scan(repo)
        inv, ok, bad = render(entries, nfiles, sha)
        st.update(entries=entries, offending=bad, verdict=not bad, sha=sha, files=nfiles, ok=True, notes=list(scan.notes))
    except Exception as e:  # noqa  (unreadable / unparsable source is a broken tie as well)
        import traceback
        st["error"] = "%r\n%s" % (e, traceback.format_exc()[-1200:])
        return st
    if write:
        try:
            w1 = _write(OUT_INV, inv)
            w2 = _write(OUT_OK, ok)
            st["written"] = w1 or w2
        except OSError as e:
            st["ok"], st["error"] = False, "cannot write generated files: %r" % (e,)
    return st


if __name__ == "__main__":
    import sys
    st = generate(sys.argv[1] if len(sys.argv) > 1 else None, write="--write" in sys.argv)
    if not st["ok"]:
        print("SCAN FAILED", st["error"])
        sys.exit(2)
    for e in st["entries"]:
        flag = "   " if entry_seeded(e) else "!! "
        if e["e"] == "site":
            print("%s%s:%d %-38s %-14s %-50s %s %s" % (flag, e["file"], e["line"], e["scope"], e["kind"], e["callee"][:50], e["src"], e["note"]))
        else:
            print("%s%s:%d %-38s use            %s.%s %s %s" % (flag, e["file"], e["line"], e["scope"], e["recv"], e["method"], e["rkind"], e["src"]))
    print("verdict:", st["verdict"], "entries:", len(st["entries"]), "offending:", len(st["offending"]))
