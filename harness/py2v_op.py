"""Fail-closed translator of GaussianOperator.ask and IsoLineOperator.ask (current source under $VERIF_REPO) into per-coordinate Gallina
(coq/Generated/OpGen.v, rewritten on every run); Refine/OpRefine.v proves them equal, row by row, to Model/Emit.v's gaussian_op /
isoline_op.  Translated: the returned expression (np.clip(<arithmetic>, self._lower_bounds, self._upper_bounds) with + - * over the
names parents / noise / elites / directions / iso_gaussian / line_gaussian, after inlining the single assignments of elites, directions
and solution_batch).  Matched exactly and recorded as facts: the shapes and scales of the normal draws (one per coordinate with the
operator's sigma; IsoLine: one isotropic draw per coordinate and ONE line draw per row) and their cast to the parents' dtype.  Anything
else raises Unsupported (= broken tie)."""
import ast
import hashlib
import os

ROOT = os.path.dirname(os.path.dirname(os.path.abspath(__file__)))
REPO = os.environ.get("VERIF_REPO", "/repo")
OUT = os.path.join(ROOT, "coq", "Generated", "OpGen.v")
SRCS = {"GaussianOperator": "ribs/emitters/operators/_gaussian.py", "IsoLineOperator": "ribs/emitters/operators/_iso_line.py"}


class Unsupported(Exception):
    pass


def _fail(node, why):
    raise Unsupported("%s at line %s: %s" % (why, getattr(node, "lineno", "?"), ast.unparse(node)[:160] if node is not None else ""))


def src(e):
    return ast.unparse(e)


def arith(e, atoms, env):
    s = src(e)
    if s in atoms:
        return atoms[s]
    if isinstance(e, ast.Name) and e.id in env:
        return arith(env[e.id], atoms, env)
    if isinstance(e, ast.BinOp):
        op = {ast.Add: "+", ast.Sub: "-", ast.Mult: "*"}.get(type(e.op))
        if op:
            return "(%s %s %s)" % (arith(e.left, atoms, env), op, arith(e.right, atoms, env))
    _fail(e, "unsupported arithmetic in an operator")


def ask_of(repo, cls_name):
    tree = ast.parse(open(os.path.join(repo, SRCS[cls_name])).read())
    cls = [n for n in tree.body if isinstance(n, ast.ClassDef) and n.name == cls_name]
    if len(cls) != 1:
        raise Unsupported("cannot locate class %s" % cls_name)
    fn = [n for n in cls[0].body if isinstance(n, ast.FunctionDef) and n.name == "ask"]
    if len(fn) != 1:
        raise Unsupported("cannot locate %s.ask" % cls_name)
    return fn[0]


def single_assigns(fn):
    env, seen = {}, {}
    for n in ast.walk(fn):
        if isinstance(n, ast.AugAssign):
            _fail(n, "in-place update in an operator")
        if isinstance(n, ast.Assign):
            if len(n.targets) != 1 or not isinstance(n.targets[0], ast.Name):
                _fail(n, "unsupported assignment target in an operator")
            seen[n.targets[0].id] = seen.get(n.targets[0].id, 0) + 1
            env[n.targets[0].id] = n.value
    return env, seen


def clipped_return(fn, atoms, env):
    rets = [n for n in ast.walk(fn) if isinstance(n, ast.Return)]
    if len(rets) != 1:
        raise Unsupported("%s does not have exactly one return" % fn.name)
    c = rets[0].value
    if not (isinstance(c, ast.Call) and src(c.func) == "np.clip" and len(c.args) == 3 and not c.keywords
            and src(c.args[1]) == "self._lower_bounds" and src(c.args[2]) == "self._upper_bounds"):
        _fail(c, "the operator does not return np.clip(<solutions>, self._lower_bounds, self._upper_bounds)")
    return "(clip %s lo hi)" % arith(c.args[0], atoms, env)


def normal_call(e, scale, size):
    want = "self._rng.normal(scale=%s, size=%s).astype(%s)"
    return src(e) in (want % (scale, size, "parents.dtype"), want % (scale, size, "elites.dtype"))


def translate(repo=None):
    repo = repo or REPO
    facts = []
    # ---- Gaussian
    g = ask_of(repo, "GaussianOperator")
    env, seen = single_assigns(g)
    if seen != {"parents": 1, "noise": 1} or src(env["parents"]) != "np.asarray(parents)":
        raise Unsupported("GaussianOperator.ask assigns %r (expected parents = np.asarray(parents); noise = ...)" % seen)
    if not normal_call(env["noise"], "self._sigma", "(parents.shape[0], parents.shape[1])"):
        _fail(env["noise"], "the Gaussian noise is not one normal(scale=sigma) draw per coordinate, cast to the parents' dtype")
    facts.append("GaussNoisePerCoordinate")
    gauss = clipped_return(g, {"parents": "p", "noise": "z"}, {})
    # ---- IsoLine
    i = ask_of(repo, "IsoLineOperator")
    env, seen = single_assigns(i)
    if seen != {"parents": 1, "elites": 1, "directions": 1, "iso_gaussian": 1, "line_gaussian": 1, "solution_batch": 1} or src(env["parents"]) != "np.asarray(parents)":
        raise Unsupported("IsoLineOperator.ask assigns %r" % seen)
    if src(env["elites"]) != "parents[0]":
        _fail(env["elites"], "elites is not parents[0]")
    if not normal_call(env["iso_gaussian"], "self._iso_sigma", "(elites.shape[0], elites.shape[1])"):
        _fail(env["iso_gaussian"], "the isotropic noise is not one normal(scale=iso_sigma) draw per coordinate")
    if not normal_call(env["line_gaussian"], "self._line_sigma", "(elites.shape[0], 1)"):
        _fail(env["line_gaussian"], "the line noise is not ONE normal(scale=line_sigma) draw per row")
    facts += ["IsoNoisePerCoordinate", "LineNoisePerRow"]
    iso = clipped_return(i, {"parents[0]": "e", "parents[1]": "p1", "iso_gaussian": "iso", "line_gaussian": "g"},
                         {k: env[k] for k in ("elites", "directions", "solution_batch")})
    text = ("(** GENERATED by harness/py2v_op.py from the current pyribs source (%s) on every run -- do not edit.\n"
            "    One coordinate of GaussianOperator.ask / IsoLineOperator.ask; Refine/OpRefine.v ties them to Model/Emit.v. *)\n"
            "From Coq Require Import List QArith.\nFrom PV Require Import Model.Emit Model.OpFacts.\nImport ListNotations.\nOpen Scope Q_scope.\n\n"
            "Definition gen_gauss_coord (p z : Q) (lo hi : ebound) : Q := %s.\n"
            "Definition gen_iso_coord (e p1 iso g : Q) (lo hi : ebound) : Q := %s.\n"
            "Definition gen_op_facts : list op_fact := [%s].\n" % (", ".join(sorted(SRCS.values())), gauss, iso, "; ".join(facts)))
    return text, hashlib.sha256((ast.dump(g) + ast.dump(i)).encode()).hexdigest()


def generate():
    st = {"ok": False, "error": None, "written": False, "sha": None}
    try:
        text, st["sha"] = translate()
        st["ok"] = True
    except Unsupported as e:
        st["error"] = str(e)
        return st
    except Exception as e:  # noqa
        st["error"] = repr(e)
        return st
    try:
        old = open(OUT).read() if os.path.exists(OUT) else None
        if old != text:
            os.makedirs(os.path.dirname(OUT), exist_ok=True)
            tmp = OUT + ".tmp%d" % os.getpid()
            with open(tmp, "w") as f:
                f.write(text)
            os.replace(tmp, OUT)
            st["written"] = True
    except OSError as e:
        st["ok"], st["error"] = False, "cannot write %s: %r" % (OUT, e)
    return st


STATUS = generate()


def report(rep):
    rep.extra["source_fragments_op"] = {"translator": "harness/py2v_op.py", "source": sorted(SRCS.values()), "ok": STATUS["ok"], "sha256_of_ast": STATUS["sha"],
                                        "refinement": "coq/Refine/OpRefine.v"}
    if not STATUS["ok"]:
        rep.violation("the operator translator cannot read the current source of GaussianOperator.ask / IsoLineOperator.ask any more (fail-closed): %s" % STATUS["error"],
                      {"kind": "translation", "broken": "harness/py2v_op.py", "error": STATUS["error"]}, False, {"kind": "translation"})


if __name__ == "__main__":
    print(STATUS)
    print(open(OUT).read() if STATUS["ok"] else "")
