(** Extraction of the executable models. ExtrOcamlBasic only (bool, option, list, prod, unit,
    sumbool -> OCaml natives); nat, positive, Z, Q stay the extracted Coq datatypes.
    No Extract Constant / Extract Inductive directives of our own. *)
From Coq Require Extraction ExtrOcamlBasic.
From PV Require Import Model.Sx Model.RunC13.
Extraction Language OCaml.
Extraction "model.ml" Sx.sx BinInt.Z.add BinInt.Z.mul BinInt.Z.opp run_C13.
