
(** val negb : bool -> bool **)

let negb = function
| true -> false
| false -> true

type nat =
| O
| S of nat

(** val option_map : ('a1 -> 'a2) -> 'a1 option -> 'a2 option **)

let option_map f = function
| Some a -> Some (f a)
| None -> None

(** val fst : ('a1 * 'a2) -> 'a1 **)

let fst = function
| (x, _) -> x

(** val snd : ('a1 * 'a2) -> 'a2 **)

let snd = function
| (_, y) -> y

(** val length : 'a1 list -> nat **)

let rec length = function
| [] -> O
| _ :: l' -> S (length l')

(** val app : 'a1 list -> 'a1 list -> 'a1 list **)

let rec app l m =
  match l with
  | [] -> m
  | a :: l1 -> a :: (app l1 m)

type comparison =
| Eq
| Lt
| Gt

(** val compOpp : comparison -> comparison **)

let compOpp = function
| Eq -> Eq
| Lt -> Gt
| Gt -> Lt

module Coq__1 = struct
 (** val add : nat -> nat -> nat **)
 let rec add n m =
   match n with
   | O -> m
   | S p -> S (add p m)
end
include Coq__1

(** val mul : nat -> nat -> nat **)

let rec mul n m =
  match n with
  | O -> O
  | S p -> add m (mul p m)

(** val sub : nat -> nat -> nat **)

let rec sub n m =
  match n with
  | O -> n
  | S k -> (match m with
            | O -> n
            | S l -> sub k l)

module Nat =
 struct
  (** val sub : nat -> nat -> nat **)

  let rec sub n m =
    match n with
    | O -> n
    | S k -> (match m with
              | O -> n
              | S l -> sub k l)

  (** val eqb : nat -> nat -> bool **)

  let rec eqb n m =
    match n with
    | O -> (match m with
            | O -> true
            | S _ -> false)
    | S n' -> (match m with
               | O -> false
               | S m' -> eqb n' m')

  (** val leb : nat -> nat -> bool **)

  let rec leb n m =
    match n with
    | O -> true
    | S n' -> (match m with
               | O -> false
               | S m' -> leb n' m')

  (** val ltb : nat -> nat -> bool **)

  let ltb n m =
    leb (S n) m

  (** val divmod : nat -> nat -> nat -> nat -> nat * nat **)

  let rec divmod x y q0 u =
    match x with
    | O -> (q0, u)
    | S x' ->
      (match u with
       | O -> divmod x' y (S q0) y
       | S u' -> divmod x' y q0 u')

  (** val div : nat -> nat -> nat **)

  let div x y = match y with
  | O -> y
  | S y' -> fst (divmod x y' O y')

  (** val modulo : nat -> nat -> nat **)

  let modulo x = function
  | O -> x
  | S y' -> sub y' (snd (divmod x y' O y'))
 end

(** val tl : 'a1 list -> 'a1 list **)

let tl = function
| [] -> []
| _ :: m -> m

(** val nth : nat -> 'a1 list -> 'a1 -> 'a1 **)

let rec nth n l default =
  match n with
  | O -> (match l with
          | [] -> default
          | x :: _ -> x)
  | S m -> (match l with
            | [] -> default
            | _ :: t -> nth m t default)

(** val nth_error : 'a1 list -> nat -> 'a1 option **)

let rec nth_error l = function
| O -> (match l with
        | [] -> None
        | x :: _ -> Some x)
| S n0 -> (match l with
           | [] -> None
           | _ :: l0 -> nth_error l0 n0)

(** val removelast : 'a1 list -> 'a1 list **)

let rec removelast = function
| [] -> []
| a :: l0 -> (match l0 with
              | [] -> []
              | _ :: _ -> a :: (removelast l0))

(** val rev : 'a1 list -> 'a1 list **)

let rec rev = function
| [] -> []
| x :: l' -> app (rev l') (x :: [])

(** val map : ('a1 -> 'a2) -> 'a1 list -> 'a2 list **)

let rec map f = function
| [] -> []
| a :: t -> (f a) :: (map f t)

(** val flat_map : ('a1 -> 'a2 list) -> 'a1 list -> 'a2 list **)

let rec flat_map f = function
| [] -> []
| x :: t -> app (f x) (flat_map f t)

(** val fold_left : ('a1 -> 'a2 -> 'a1) -> 'a2 list -> 'a1 -> 'a1 **)

let rec fold_left f l a0 =
  match l with
  | [] -> a0
  | b :: t -> fold_left f t (f a0 b)

(** val fold_right : ('a2 -> 'a1 -> 'a1) -> 'a1 -> 'a2 list -> 'a1 **)

let rec fold_right f a0 = function
| [] -> a0
| b :: t -> f b (fold_right f a0 t)

(** val forallb : ('a1 -> bool) -> 'a1 list -> bool **)

let rec forallb f = function
| [] -> true
| a :: l0 -> (&&) (f a) (forallb f l0)

(** val filter : ('a1 -> bool) -> 'a1 list -> 'a1 list **)

let rec filter f = function
| [] -> []
| x :: l0 -> if f x then x :: (filter f l0) else filter f l0

(** val combine : 'a1 list -> 'a2 list -> ('a1 * 'a2) list **)

let rec combine l l' =
  match l with
  | [] -> []
  | x :: tl0 ->
    (match l' with
     | [] -> []
     | y :: tl' -> (x, y) :: (combine tl0 tl'))

(** val firstn : nat -> 'a1 list -> 'a1 list **)

let rec firstn n l =
  match n with
  | O -> []
  | S n0 -> (match l with
             | [] -> []
             | a :: l0 -> a :: (firstn n0 l0))

(** val seq : nat -> nat -> nat list **)

let rec seq start = function
| O -> []
| S len1 -> start :: (seq (S start) len1)

(** val repeat : 'a1 -> nat -> 'a1 list **)

let rec repeat x = function
| O -> []
| S k -> x :: (repeat x k)

type positive =
| XI of positive
| XO of positive
| XH

type z =
| Z0
| Zpos of positive
| Zneg of positive

module Pos =
 struct
  type mask =
  | IsNul
  | IsPos of positive
  | IsNeg
 end

module Coq_Pos =
 struct
  (** val succ : positive -> positive **)

  let rec succ = function
  | XI p -> XO (succ p)
  | XO p -> XI p
  | XH -> XO XH

  (** val add : positive -> positive -> positive **)

  let rec add x y =
    match x with
    | XI p ->
      (match y with
       | XI q0 -> XO (add_carry p q0)
       | XO q0 -> XI (add p q0)
       | XH -> XO (succ p))
    | XO p ->
      (match y with
       | XI q0 -> XI (add p q0)
       | XO q0 -> XO (add p q0)
       | XH -> XI p)
    | XH -> (match y with
             | XI q0 -> XO (succ q0)
             | XO q0 -> XI q0
             | XH -> XO XH)

  (** val add_carry : positive -> positive -> positive **)

  and add_carry x y =
    match x with
    | XI p ->
      (match y with
       | XI q0 -> XI (add_carry p q0)
       | XO q0 -> XO (add_carry p q0)
       | XH -> XI (succ p))
    | XO p ->
      (match y with
       | XI q0 -> XO (add_carry p q0)
       | XO q0 -> XI (add p q0)
       | XH -> XO (succ p))
    | XH ->
      (match y with
       | XI q0 -> XI (succ q0)
       | XO q0 -> XO (succ q0)
       | XH -> XI XH)

  (** val pred_double : positive -> positive **)

  let rec pred_double = function
  | XI p -> XI (XO p)
  | XO p -> XI (pred_double p)
  | XH -> XH

  type mask = Pos.mask =
  | IsNul
  | IsPos of positive
  | IsNeg

  (** val succ_double_mask : mask -> mask **)

  let succ_double_mask = function
  | IsNul -> IsPos XH
  | IsPos p -> IsPos (XI p)
  | IsNeg -> IsNeg

  (** val double_mask : mask -> mask **)

  let double_mask = function
  | IsPos p -> IsPos (XO p)
  | x0 -> x0

  (** val double_pred_mask : positive -> mask **)

  let double_pred_mask = function
  | XI p -> IsPos (XO (XO p))
  | XO p -> IsPos (XO (pred_double p))
  | XH -> IsNul

  (** val sub_mask : positive -> positive -> mask **)

  let rec sub_mask x y =
    match x with
    | XI p ->
      (match y with
       | XI q0 -> double_mask (sub_mask p q0)
       | XO q0 -> succ_double_mask (sub_mask p q0)
       | XH -> IsPos (XO p))
    | XO p ->
      (match y with
       | XI q0 -> succ_double_mask (sub_mask_carry p q0)
       | XO q0 -> double_mask (sub_mask p q0)
       | XH -> IsPos (pred_double p))
    | XH -> (match y with
             | XH -> IsNul
             | _ -> IsNeg)

  (** val sub_mask_carry : positive -> positive -> mask **)

  and sub_mask_carry x y =
    match x with
    | XI p ->
      (match y with
       | XI q0 -> succ_double_mask (sub_mask_carry p q0)
       | XO q0 -> double_mask (sub_mask p q0)
       | XH -> IsPos (pred_double p))
    | XO p ->
      (match y with
       | XI q0 -> double_mask (sub_mask_carry p q0)
       | XO q0 -> succ_double_mask (sub_mask_carry p q0)
       | XH -> double_pred_mask p)
    | XH -> IsNeg

  (** val sub : positive -> positive -> positive **)

  let sub x y =
    match sub_mask x y with
    | IsPos z0 -> z0
    | _ -> XH

  (** val mul : positive -> positive -> positive **)

  let rec mul x y =
    match x with
    | XI p -> add y (XO (mul p y))
    | XO p -> XO (mul p y)
    | XH -> y

  (** val size_nat : positive -> nat **)

  let rec size_nat = function
  | XI p0 -> S (size_nat p0)
  | XO p0 -> S (size_nat p0)
  | XH -> S O

  (** val compare_cont : comparison -> positive -> positive -> comparison **)

  let rec compare_cont r x y =
    match x with
    | XI p ->
      (match y with
       | XI q0 -> compare_cont r p q0
       | XO q0 -> compare_cont Gt p q0
       | XH -> Gt)
    | XO p ->
      (match y with
       | XI q0 -> compare_cont Lt p q0
       | XO q0 -> compare_cont r p q0
       | XH -> Gt)
    | XH -> (match y with
             | XH -> r
             | _ -> Lt)

  (** val compare : positive -> positive -> comparison **)

  let compare =
    compare_cont Eq

  (** val ggcdn :
      nat -> positive -> positive -> positive * (positive * positive) **)

  let rec ggcdn n a b =
    match n with
    | O -> (XH, (a, b))
    | S n0 ->
      (match a with
       | XI a' ->
         (match b with
          | XI b' ->
            (match compare a' b' with
             | Eq -> (a, (XH, XH))
             | Lt ->
               let (g, p) = ggcdn n0 (sub b' a') a in
               let (ba, aa) = p in (g, (aa, (add aa (XO ba))))
             | Gt ->
               let (g, p) = ggcdn n0 (sub a' b') b in
               let (ab, bb) = p in (g, ((add bb (XO ab)), bb)))
          | XO b0 ->
            let (g, p) = ggcdn n0 a b0 in
            let (aa, bb) = p in (g, (aa, (XO bb)))
          | XH -> (XH, (a, XH)))
       | XO a0 ->
         (match b with
          | XI _ ->
            let (g, p) = ggcdn n0 a0 b in
            let (aa, bb) = p in (g, ((XO aa), bb))
          | XO b0 -> let (g, p) = ggcdn n0 a0 b0 in ((XO g), p)
          | XH -> (XH, (a, XH)))
       | XH -> (XH, (XH, b)))

  (** val ggcd : positive -> positive -> positive * (positive * positive) **)

  let ggcd a b =
    ggcdn (Coq__1.add (size_nat a) (size_nat b)) a b

  (** val iter_op : ('a1 -> 'a1 -> 'a1) -> positive -> 'a1 -> 'a1 **)

  let rec iter_op op p a =
    match p with
    | XI p0 -> op a (iter_op op p0 (op a a))
    | XO p0 -> iter_op op p0 (op a a)
    | XH -> a

  (** val to_nat : positive -> nat **)

  let to_nat x =
    iter_op Coq__1.add x (S O)

  (** val of_succ_nat : nat -> positive **)

  let rec of_succ_nat = function
  | O -> XH
  | S x -> succ (of_succ_nat x)
 end

module Z =
 struct
  (** val double : z -> z **)

  let double = function
  | Z0 -> Z0
  | Zpos p -> Zpos (XO p)
  | Zneg p -> Zneg (XO p)

  (** val succ_double : z -> z **)

  let succ_double = function
  | Z0 -> Zpos XH
  | Zpos p -> Zpos (XI p)
  | Zneg p -> Zneg (Coq_Pos.pred_double p)

  (** val pred_double : z -> z **)

  let pred_double = function
  | Z0 -> Zneg XH
  | Zpos p -> Zpos (Coq_Pos.pred_double p)
  | Zneg p -> Zneg (XI p)

  (** val pos_sub : positive -> positive -> z **)

  let rec pos_sub x y =
    match x with
    | XI p ->
      (match y with
       | XI q0 -> double (pos_sub p q0)
       | XO q0 -> succ_double (pos_sub p q0)
       | XH -> Zpos (XO p))
    | XO p ->
      (match y with
       | XI q0 -> pred_double (pos_sub p q0)
       | XO q0 -> double (pos_sub p q0)
       | XH -> Zpos (Coq_Pos.pred_double p))
    | XH ->
      (match y with
       | XI q0 -> Zneg (XO q0)
       | XO q0 -> Zneg (Coq_Pos.pred_double q0)
       | XH -> Z0)

  (** val add : z -> z -> z **)

  let add x y =
    match x with
    | Z0 -> y
    | Zpos x' ->
      (match y with
       | Z0 -> x
       | Zpos y' -> Zpos (Coq_Pos.add x' y')
       | Zneg y' -> pos_sub x' y')
    | Zneg x' ->
      (match y with
       | Z0 -> x
       | Zpos y' -> pos_sub y' x'
       | Zneg y' -> Zneg (Coq_Pos.add x' y'))

  (** val opp : z -> z **)

  let opp = function
  | Z0 -> Z0
  | Zpos x0 -> Zneg x0
  | Zneg x0 -> Zpos x0

  (** val mul : z -> z -> z **)

  let mul x y =
    match x with
    | Z0 -> Z0
    | Zpos x' ->
      (match y with
       | Z0 -> Z0
       | Zpos y' -> Zpos (Coq_Pos.mul x' y')
       | Zneg y' -> Zneg (Coq_Pos.mul x' y'))
    | Zneg x' ->
      (match y with
       | Z0 -> Z0
       | Zpos y' -> Zneg (Coq_Pos.mul x' y')
       | Zneg y' -> Zpos (Coq_Pos.mul x' y'))

  (** val compare : z -> z -> comparison **)

  let compare x y =
    match x with
    | Z0 -> (match y with
             | Z0 -> Eq
             | Zpos _ -> Lt
             | Zneg _ -> Gt)
    | Zpos x' -> (match y with
                  | Zpos y' -> Coq_Pos.compare x' y'
                  | _ -> Gt)
    | Zneg x' ->
      (match y with
       | Zneg y' -> compOpp (Coq_Pos.compare x' y')
       | _ -> Lt)

  (** val sgn : z -> z **)

  let sgn = function
  | Z0 -> Z0
  | Zpos _ -> Zpos XH
  | Zneg _ -> Zneg XH

  (** val leb : z -> z -> bool **)

  let leb x y =
    match compare x y with
    | Gt -> false
    | _ -> true

  (** val ltb : z -> z -> bool **)

  let ltb x y =
    match compare x y with
    | Lt -> true
    | _ -> false

  (** val abs : z -> z **)

  let abs = function
  | Zneg p -> Zpos p
  | x -> x

  (** val to_nat : z -> nat **)

  let to_nat = function
  | Zpos p -> Coq_Pos.to_nat p
  | _ -> O

  (** val of_nat : nat -> z **)

  let of_nat = function
  | O -> Z0
  | S n0 -> Zpos (Coq_Pos.of_succ_nat n0)

  (** val to_pos : z -> positive **)

  let to_pos = function
  | Zpos p -> p
  | _ -> XH

  (** val ggcd : z -> z -> z * (z * z) **)

  let ggcd a b =
    match a with
    | Z0 -> ((abs b), (Z0, (sgn b)))
    | Zpos a0 ->
      (match b with
       | Z0 -> ((abs a), ((sgn a), Z0))
       | Zpos b0 ->
         let (g, p) = Coq_Pos.ggcd a0 b0 in
         let (aa, bb) = p in ((Zpos g), ((Zpos aa), (Zpos bb)))
       | Zneg b0 ->
         let (g, p) = Coq_Pos.ggcd a0 b0 in
         let (aa, bb) = p in ((Zpos g), ((Zpos aa), (Zneg bb))))
    | Zneg a0 ->
      (match b with
       | Z0 -> ((abs a), ((sgn a), Z0))
       | Zpos b0 ->
         let (g, p) = Coq_Pos.ggcd a0 b0 in
         let (aa, bb) = p in ((Zpos g), ((Zneg aa), (Zpos bb)))
       | Zneg b0 ->
         let (g, p) = Coq_Pos.ggcd a0 b0 in
         let (aa, bb) = p in ((Zpos g), ((Zneg aa), (Zneg bb))))
 end

(** val zeq_bool : z -> z -> bool **)

let zeq_bool x y =
  match Z.compare x y with
  | Eq -> true
  | _ -> false

type q = { qnum : z; qden : positive }

(** val qeq_bool : q -> q -> bool **)

let qeq_bool x y =
  zeq_bool (Z.mul x.qnum (Zpos y.qden)) (Z.mul y.qnum (Zpos x.qden))

(** val qle_bool : q -> q -> bool **)

let qle_bool x y =
  Z.leb (Z.mul x.qnum (Zpos y.qden)) (Z.mul y.qnum (Zpos x.qden))

(** val qplus : q -> q -> q **)

let qplus x y =
  { qnum = (Z.add (Z.mul x.qnum (Zpos y.qden)) (Z.mul y.qnum (Zpos x.qden)));
    qden = (Coq_Pos.mul x.qden y.qden) }

(** val qmult : q -> q -> q **)

let qmult x y =
  { qnum = (Z.mul x.qnum y.qnum); qden = (Coq_Pos.mul x.qden y.qden) }

(** val qopp : q -> q **)

let qopp x =
  { qnum = (Z.opp x.qnum); qden = x.qden }

(** val qminus : q -> q -> q **)

let qminus x y =
  qplus x (qopp y)

(** val qinv : q -> q **)

let qinv x =
  match x.qnum with
  | Z0 -> { qnum = Z0; qden = XH }
  | Zpos p -> { qnum = (Zpos x.qden); qden = p }
  | Zneg p -> { qnum = (Zneg x.qden); qden = p }

(** val qdiv : q -> q -> q **)

let qdiv x y =
  qmult x (qinv y)

(** val qred : q -> q **)

let qred q0 =
  let { qnum = q1; qden = q2 } = q0 in
  let (r1, r2) = snd (Z.ggcd q1 (Zpos q2)) in
  { qnum = r1; qden = (Z.to_pos r2) }

type sx =
| SZ of z
| SL of sx list

(** val sx_fail : sx **)

let sx_fail =
  SL ((SZ (Zneg (XI (XI (XI (XO (XO (XI (XI (XI (XI XH))))))))))) :: [])

(** val dz : sx -> z option **)

let dz = function
| SZ z0 -> Some z0
| SL _ -> None

(** val dnat : sx -> nat option **)

let dnat = function
| SZ z0 -> if Z.ltb z0 Z0 then None else Some (Z.to_nat z0)
| SL _ -> None

(** val dbool : sx -> bool option **)

let dbool = function
| SZ z0 ->
  (match z0 with
   | Z0 -> Some false
   | Zpos p -> (match p with
                | XH -> Some true
                | _ -> None)
   | Zneg _ -> None)
| SL _ -> None

(** val opt_all : 'a1 option list -> 'a1 list option **)

let rec opt_all = function
| [] -> Some []
| o :: t ->
  (match o with
   | Some x -> (match opt_all t with
                | Some r -> Some (x :: r)
                | None -> None)
   | None -> None)

(** val dlist : (sx -> 'a1 option) -> sx -> 'a1 list option **)

let dlist f = function
| SZ _ -> None
| SL l -> opt_all (map f l)

(** val dq : sx -> q option **)

let dq = function
| SZ _ -> None
| SL l ->
  (match l with
   | [] -> None
   | s0 :: l0 ->
     (match s0 with
      | SZ n ->
        (match l0 with
         | [] -> None
         | s1 :: l1 ->
           (match s1 with
            | SZ d ->
              (match l1 with
               | [] ->
                 if Z.ltb Z0 d
                 then Some { qnum = n; qden = (Z.to_pos d) }
                 else None
               | _ :: _ -> None)
            | SL _ -> None))
      | SL _ -> None))

(** val dopt : (sx -> 'a1 option) -> sx -> 'a1 option option **)

let dopt f = function
| SZ _ -> None
| SL l ->
  (match l with
   | [] -> Some None
   | x :: l0 ->
     (match l0 with
      | [] -> (match f x with
               | Some v -> Some (Some v)
               | None -> None)
      | _ :: _ -> None))

(** val ez : z -> sx **)

let ez z0 =
  SZ z0

(** val enat : nat -> sx **)

let enat n =
  SZ (Z.of_nat n)

(** val ebool : bool -> sx **)

let ebool b =
  SZ (if b then Zpos XH else Z0)

(** val elist : ('a1 -> sx) -> 'a1 list -> sx **)

let elist f l =
  SL (map f l)

(** val eq_ : q -> sx **)

let eq_ q0 =
  let r = qred q0 in SL ((SZ r.qnum) :: ((SZ (Zpos r.qden)) :: []))

(** val eopt : ('a1 -> sx) -> 'a1 option -> sx **)

let eopt f = function
| Some x -> SL ((f x) :: [])
| None -> SL []

(** val upd : 'a1 list -> nat -> 'a1 -> 'a1 list **)

let rec upd l i x =
  match l with
  | [] -> []
  | h :: t -> (match i with
               | O -> x :: t
               | S j -> h :: (upd t j x))

(** val insert_uniq : nat -> nat list -> nat list **)

let rec insert_uniq i l = match l with
| [] -> i :: []
| j :: t ->
  if Nat.ltb i j
  then i :: l
  else if Nat.eqb i j then l else j :: (insert_uniq i t)

(** val sort_uniq : nat list -> nat list **)

let sort_uniq l =
  fold_right insert_uniq [] l

type err =
| ValueError
| IndexError
| RuntimeError
| KeyError
| TypeError
| StopIteration
| OtherError

type 'a result =
| Ok of 'a
| Err of err

type 'r store = { cap : nat; occ : bool list; olist : nat list;
                  rows : 'r option list; nadd : nat; nclear : nat }

(** val init : nat -> 'a1 store **)

let init c =
  { cap = c; occ = (repeat false c); olist = []; rows = (repeat None c);
    nadd = O; nclear = O }

(** val get_occ : 'a1 store -> nat -> bool **)

let get_occ s i =
  nth i s.occ false

(** val get_row : 'a1 store -> nat -> 'a1 option **)

let get_row s i =
  nth i s.rows None

(** val len : 'a1 store -> nat **)

let len s =
  length s.olist

(** val in_range : 'a1 store -> nat list -> bool **)

let in_range s idxs =
  forallb (fun i -> Nat.ltb i s.cap) idxs

(** val retrieve :
    'a1 store -> nat list -> (bool * 'a1 option) list result **)

let retrieve s idxs =
  if in_range s idxs
  then Ok (map (fun i -> ((get_occ s i), (get_row s i))) idxs)
  else Err IndexError

(** val data : 'a1 store -> (nat * 'a1 option) list **)

let data s =
  map (fun i -> (i, (get_row s i))) s.olist

(** val new_indices : 'a1 store -> nat list -> nat list **)

let new_indices s idxs =
  filter (fun i -> negb (get_occ s i)) (sort_uniq idxs)

(** val write_rows :
    'a1 option list -> nat list -> 'a1 list -> 'a1 option list **)

let write_rows rs idxs xs =
  fold_left (fun r ix -> upd r (fst ix) (Some (snd ix))) (combine idxs xs) rs

(** val mark : bool list -> nat list -> bool list **)

let mark o new0 =
  fold_left (fun o0 i -> upd o0 i true) new0 o

(** val bump_add : 'a1 store -> 'a1 store **)

let bump_add s =
  { cap = s.cap; occ = s.occ; olist = s.olist; rows = s.rows; nadd = (S
    s.nadd); nclear = s.nclear }

(** val add_raw :
    'a1 store -> nat list -> 'a1 list -> bool -> 'a1 store * unit result **)

let add_raw s idxs xs keys_ok =
  if Nat.eqb (length idxs) O
  then (s, (Ok ()))
  else if negb (Nat.eqb (length idxs) (length xs))
       then (s, (Err ValueError))
       else if negb keys_ok
            then (s, (Err ValueError))
            else if negb (in_range s idxs)
                 then (s, (Err IndexError))
                 else let new0 = new_indices s idxs in
                      ({ cap = s.cap; occ = (mark s.occ new0); olist =
                      (app s.olist new0); rows = (write_rows s.rows idxs xs);
                      nadd = s.nadd; nclear = s.nclear }, (Ok ()))

type 'r transform =
  nat list -> 'r list -> (bool * 'r option) list -> nat list * 'r list

(** val run_transforms :
    'a1 store -> 'a1 transform list -> nat list -> 'a1 list -> (nat
    list * 'a1 list) result **)

let rec run_transforms s ts idxs xs =
  match ts with
  | [] -> Ok (idxs, xs)
  | t :: ts' ->
    (match retrieve s idxs with
     | Ok view -> let (i', x') = t idxs xs view in run_transforms s ts' i' x'
     | Err e -> Err e)

(** val add0 :
    'a1 store -> nat list -> 'a1 list -> 'a1 transform list -> bool -> 'a1
    store * unit result **)

let add0 s idxs xs ts keys_ok =
  let s1 = bump_add s in
  (match run_transforms s1 ts idxs xs with
   | Ok a -> let (i', x') = a in add_raw s1 i' x' keys_ok
   | Err e -> (s1, (Err e)))

(** val clear : 'a1 store -> 'a1 store **)

let clear s =
  { cap = s.cap; occ = (repeat false s.cap); olist = []; rows = s.rows;
    nadd = s.nadd; nclear = (S s.nclear) }

(** val resize : 'a1 store -> nat -> 'a1 store * unit result **)

let resize s c =
  if Nat.leb c s.cap
  then (s, (Err ValueError))
  else ({ cap = c; occ = (app s.occ (repeat false (sub c s.cap))); olist =
         s.olist; rows = (app s.rows (repeat None (sub c s.cap))); nadd =
         s.nadd; nclear = s.nclear }, (Ok ()))

type 'r raw = { r_cap : nat; r_occ : bool list; r_nocc : nat;
                r_olist : nat list; r_rows : 'r option list; r_nadd : 
                nat; r_nclear : nat }

(** val as_raw : 'a1 store -> 'a1 raw **)

let as_raw s =
  { r_cap = s.cap; r_occ = s.occ; r_nocc = (length s.olist); r_olist =
    s.olist; r_rows = s.rows; r_nadd = s.nadd; r_nclear = s.nclear }

(** val from_raw : 'a1 raw -> 'a1 store **)

let from_raw r =
  { cap = r.r_cap; occ = r.r_occ; olist = (firstn r.r_nocc r.r_olist); rows =
    r.r_rows; nadd = r.r_nadd; nclear = r.r_nclear }

type iter = { it_pos : nat; it_add : nat; it_clear : nat }

(** val iter_new : 'a1 store -> iter **)

let iter_new s =
  { it_pos = O; it_add = s.nadd; it_clear = s.nclear }

type 'r iter_out =
| Yield of nat * 'r option
| Stop
| Modified

(** val iter_next : 'a1 store -> iter -> iter * 'a1 iter_out **)

let iter_next s it =
  if negb ((&&) (Nat.eqb it.it_add s.nadd) (Nat.eqb it.it_clear s.nclear))
  then (it, Modified)
  else if Nat.leb (len s) it.it_pos
       then (it, Stop)
       else let i = nth it.it_pos s.olist O in
            ({ it_pos = (S it.it_pos); it_add = it.it_add; it_clear =
            it.it_clear }, (Yield (i, (get_row s i))))

(** val err_code : err -> z **)

let err_code = function
| ValueError -> Zpos XH
| IndexError -> Zpos (XO XH)
| RuntimeError -> Zpos (XI XH)
| KeyError -> Zpos (XO (XO XH))
| TypeError -> Zpos (XI (XO XH))
| StopIteration -> Zpos (XO (XI XH))
| OtherError -> Zpos (XI (XI XH))

(** val eres : ('a1 -> sx) -> 'a1 result -> sx **)

let eres f = function
| Ok a -> SL ((SZ Z0) :: ((f a) :: []))
| Err e -> SL ((SZ (err_code e)) :: [])

(** val erow : z option -> sx **)

let erow r =
  eopt ez r

type st = { s_store : z store; s_iters : iter list }

(** val const_transform : nat list -> z list -> z transform **)

let const_transform i' x' _ _ _ =
  (i', x')

(** val dtransform : sx -> z transform option **)

let dtransform = function
| SZ _ -> None
| SL l ->
  (match l with
   | [] -> None
   | a :: l0 ->
     (match l0 with
      | [] -> None
      | b :: l1 ->
        (match l1 with
         | [] ->
           (match dlist dnat a with
            | Some i' ->
              (match dlist dz b with
               | Some x' -> Some (const_transform i' x')
               | None -> None)
            | None -> None)
         | _ :: _ -> None)))

(** val run_op : st -> sx -> st * sx **)

let run_op s o =
  let keep = fun out -> (s, out) in
  (match o with
   | SZ _ -> keep sx_fail
   | SL l ->
     (match l with
      | [] -> keep sx_fail
      | s0 :: l0 ->
        (match s0 with
         | SZ z0 ->
           (match z0 with
            | Z0 ->
              (match l0 with
               | [] -> keep sx_fail
               | a :: l1 ->
                 (match l1 with
                  | [] -> keep sx_fail
                  | b :: l2 ->
                    (match l2 with
                     | [] -> keep sx_fail
                     | k :: l3 ->
                       (match l3 with
                        | [] -> keep sx_fail
                        | ts :: l4 ->
                          (match l4 with
                           | [] ->
                             (match dlist dnat a with
                              | Some idxs ->
                                (match dlist dz b with
                                 | Some xs ->
                                   (match dbool k with
                                    | Some kk ->
                                      (match dlist dtransform ts with
                                       | Some tl0 ->
                                         let (s', r) =
                                           add0 s.s_store idxs xs tl0 kk
                                         in
                                         ({ s_store = s'; s_iters =
                                         s.s_iters },
                                         (eres (fun _ -> SL []) r))
                                       | None -> keep sx_fail)
                                    | None -> keep sx_fail)
                                 | None -> keep sx_fail)
                              | None -> keep sx_fail)
                           | _ :: _ -> keep sx_fail)))))
            | Zpos p ->
              (match p with
               | XI p0 ->
                 (match p0 with
                  | XI p1 ->
                    (match p1 with
                     | XH ->
                       (match l0 with
                        | [] ->
                          ({ s_store = (from_raw (as_raw s.s_store));
                            s_iters = s.s_iters }, (SL ((SZ Z0) :: [])))
                        | _ :: _ -> keep sx_fail)
                     | _ -> keep sx_fail)
                  | XO p1 ->
                    (match p1 with
                     | XH ->
                       (match l0 with
                        | [] ->
                          ({ s_store = s.s_store; s_iters =
                            (app s.s_iters ((iter_new s.s_store) :: [])) },
                            (enat (length s.s_iters)))
                        | _ :: _ -> keep sx_fail)
                     | _ -> keep sx_fail)
                  | XH ->
                    (match l0 with
                     | [] -> keep sx_fail
                     | a :: l1 ->
                       (match l1 with
                        | [] ->
                          (match dlist dnat a with
                           | Some idxs ->
                             keep
                               (eres
                                 (elist (fun p1 -> SL
                                   ((ebool (fst p1)) :: ((erow (snd p1)) :: []))))
                                 (retrieve s.s_store idxs))
                           | None -> keep sx_fail)
                        | _ :: _ -> keep sx_fail)))
               | XO p0 ->
                 (match p0 with
                  | XI p1 ->
                    (match p1 with
                     | XH ->
                       (match l0 with
                        | [] -> keep sx_fail
                        | k :: l1 ->
                          (match l1 with
                           | [] ->
                             (match dnat k with
                              | Some kk ->
                                (match nth_error s.s_iters kk with
                                 | Some it ->
                                   let (it', out) = iter_next s.s_store it in
                                   ({ s_store = s.s_store; s_iters =
                                   (upd s.s_iters kk it') },
                                   (match out with
                                    | Yield (i, r) ->
                                      SL ((SZ
                                        Z0) :: ((enat i) :: ((erow r) :: [])))
                                    | Stop ->
                                      SL ((SZ (Zpos (XO (XI XH)))) :: [])
                                    | Modified ->
                                      SL ((SZ (Zpos (XI XH))) :: [])))
                                 | None -> keep sx_fail)
                              | None -> keep sx_fail)
                           | _ :: _ -> keep sx_fail))
                     | _ -> keep sx_fail)
                  | XO p1 ->
                    (match p1 with
                     | XI _ -> keep sx_fail
                     | XO p2 ->
                       (match p2 with
                        | XH ->
                          (match l0 with
                           | [] ->
                             let t = s.s_store in
                             keep (SL
                               ((enat t.cap) :: ((enat (len t)) :: ((elist
                                                                    enat
                                                                    t.olist) :: (
                               (elist ebool t.occ) :: ((enat t.nadd) :: (
                               (enat t.nclear) :: [])))))))
                           | _ :: _ -> keep sx_fail)
                        | _ -> keep sx_fail)
                     | XH ->
                       (match l0 with
                        | [] ->
                          keep
                            (elist (fun p2 -> SL
                              ((enat (fst p2)) :: ((erow (snd p2)) :: [])))
                              (data s.s_store))
                        | _ :: _ -> keep sx_fail))
                  | XH ->
                    (match l0 with
                     | [] -> keep sx_fail
                     | c :: l1 ->
                       (match l1 with
                        | [] ->
                          (match dnat c with
                           | Some cc ->
                             let (s', r) = resize s.s_store cc in
                             ({ s_store = s'; s_iters = s.s_iters },
                             (eres (fun _ -> SL []) r))
                           | None -> keep sx_fail)
                        | _ :: _ -> keep sx_fail)))
               | XH ->
                 (match l0 with
                  | [] ->
                    ({ s_store = (clear s.s_store); s_iters = s.s_iters },
                      (SL ((SZ Z0) :: [])))
                  | _ :: _ -> keep sx_fail))
            | Zneg _ -> keep sx_fail)
         | SL _ -> keep sx_fail)))

(** val run_ops : st -> sx list -> sx list **)

let rec run_ops s = function
| [] -> []
| o :: t -> let (s', out) = run_op s o in out :: (run_ops s' t)

(** val run_C13 : sx -> sx **)

let run_C13 = function
| SZ _ -> sx_fail
| SL l ->
  (match l with
   | [] -> sx_fail
   | c :: l0 ->
     (match l0 with
      | [] -> sx_fail
      | s :: l1 ->
        (match s with
         | SZ _ -> sx_fail
         | SL ops ->
           (match l1 with
            | [] ->
              (match dnat c with
               | Some cc ->
                 SL (run_ops { s_store = (init cc); s_iters = [] } ops)
               | None -> sx_fail)
            | _ :: _ -> sx_fail))))

(** val prod0 : nat list -> nat **)

let rec prod0 = function
| [] -> S O
| d :: t -> mul d (prod0 t)

(** val unravel : nat list -> nat -> nat list **)

let rec unravel dims i =
  match dims with
  | [] -> []
  | _ :: dt ->
    (Nat.div i (prod0 dt)) :: (unravel dt (Nat.modulo i (prod0 dt)))

type elite = { e_index : nat; e_obj : q; e_meas : q list }

type listing = elite list

type geometry = { g_dims : nat list; g_boundaries : q list list;
                  g_lower : q list; g_upper : q list;
                  g_centroids : q list list }

type world = { w_geom : geometry; w_elites : listing; w_frame : listing option }

type opts = { o_df : bool; o_transpose : bool; o_vmin : q option;
              o_vmax : q option; o_sort : bool; o_order : nat list option;
              o_lines : bool; o_bounds : (q list * q list) option }

(** val qnth : q list -> nat -> q **)

let qnth l i =
  nth i l { qnum = Z0; qden = XH }

(** val pair2 : q list -> q * q **)

let pair2 l =
  ((qnth l O), (qnth l (S O)))

(** val flip2 : ('a1 * 'a1) -> 'a1 * 'a1 **)

let flip2 p =
  ((snd p), (fst p))

(** val qmin : q -> q -> q **)

let qmin a b =
  if qle_bool a b then a else b

(** val qmax : q -> q -> q **)

let qmax a b =
  if qle_bool a b then b else a

(** val min_list : q list -> q option **)

let min_list = function
| [] -> None
| x :: t -> Some (fold_left qmin t x)

(** val max_list : q list -> q option **)

let max_list = function
| [] -> None
| x :: t -> Some (fold_left qmax t x)

(** val pick : q option -> q option -> q option **)

let pick explicit dflt =
  match explicit with
  | Some v -> Some v
  | None -> dflt

(** val limits_strict : q option -> q option -> q list -> (q * q) result **)

let limits_strict vmin vmax objs =
  match pick vmin (min_list objs) with
  | Some lo ->
    (match pick vmax (max_list objs) with
     | Some hi -> Ok (lo, hi)
     | None -> Err ValueError)
  | None -> Err ValueError

(** val c001 : q **)

let c001 =
  { qnum = (Zpos (XI (XI (XO (XI (XI (XI (XI (XO (XO (XO (XI (XO (XI (XO (XO
    (XO (XO (XI (XI (XI (XO (XI (XO (XI (XI (XI (XI (XO (XO (XO (XI (XO (XI
    (XO (XO (XO (XO (XI (XI (XI (XO (XI (XO (XI (XI (XI (XI (XO (XO (XO (XI
    (XO XH))))))))))))))))))))))))))))))))))))))))))))))))))))); qden = (XO
    (XO (XO (XO (XO (XO (XO (XO (XO (XO (XO (XO (XO (XO (XO (XO (XO (XO (XO
    (XO (XO (XO (XO (XO (XO (XO (XO (XO (XO (XO (XO (XO (XO (XO (XO (XO (XO
    (XO (XO (XO (XO (XO (XO (XO (XO (XO (XO (XO (XO (XO (XO (XO (XO (XO (XO
    (XO (XO (XO (XO
    XH))))))))))))))))))))))))))))))))))))))))))))))))))))))))))) }

(** val somes : 'a1 option list -> 'a1 list **)

let somes l =
  flat_map (fun o -> match o with
                     | Some x -> x :: []
                     | None -> []) l

(** val all_below : nat -> nat list -> bool **)

let all_below n idxs =
  forallb (fun i -> Nat.ltb i n) idxs

(** val scatter : 'a1 list -> nat list -> 'a1 list -> 'a1 list **)

let scatter a ks vs =
  fold_left (fun a0 kv -> upd a0 (fst kv) (snd kv)) (combine ks vs) a

(** val set2 : 'a1 list list -> nat -> nat -> 'a1 -> 'a1 list list **)

let set2 m y x v =
  upd m y (upd (nth y m []) x v)

(** val scatter2 :
    'a1 list list -> (nat * nat) list -> 'a1 list -> 'a1 list list **)

let scatter2 m ks vs =
  fold_left (fun m0 kv -> set2 m0 (fst (fst kv)) (snd (fst kv)) (snd kv))
    (combine ks vs) m

(** val transpose : 'a1 -> nat -> 'a1 list list -> 'a1 list list **)

let transpose d ncols m =
  map (fun x -> map (fun row -> nth x row d) m) (seq O ncols)

type heatmap = { hm_xb : q list; hm_yb : q list;
                 hm_colors : q option list list; hm_xlim : (q * q);
                 hm_ylim : (q * q) option; hm_clim : (q option * q option);
                 hm_markers : (q * q) list }

type scatterplot = { sc_offsets : (q * q) list; sc_array : q list;
                     sc_vlines : (q * (q * q)) list;
                     sc_hlines : (q * (q * q)) list; sc_xlim : (q * q);
                     sc_ylim : (q * q); sc_clim : (q * q) }

type voronoi = { vo_sites : (q * q) list; vo_obj : q option list;
                 vo_t : q option list; vo_xlim : (q * q); vo_ylim : (q * q);
                 vo_clim : (q * q) option; vo_markers : (q * q) list }

type parallel = { pa_lines : q list list; pa_objs : q list; pa_t : q list;
                  pa_ylims : (q * q) list; pa_clim : (q option * q option) }

type picture =
| PHeat of heatmap
| PScatter of scatterplot
| PVor of voronoi
| PPar of parallel

(** val heatmap_1d :
    geometry -> q list -> q option list -> opts -> (q * q) list -> heatmap **)

let heatmap_1d g bnds cells o markers =
  { hm_xb = bnds; hm_yb = ({ qnum = Z0; qden = XH } :: ({ qnum = (Zpos XH);
    qden = XH } :: [])); hm_colors = (cells :: []); hm_xlim =
    ((qnth g.g_lower O), (qnth g.g_upper O)); hm_ylim = None; hm_clim =
    ((pick o.o_vmin (min_list (somes cells))),
    (pick o.o_vmax (max_list (somes cells)))); hm_markers = markers }

(** val grid2d_colors :
    nat -> nat -> nat list -> q list -> q option list list **)

let grid2d_colors dx dy idxs objs =
  let g = map (unravel (dx :: (dy :: []))) idxs in
  scatter2 (repeat (repeat None dx) dy)
    (map (fun gi -> ((nth (S O) gi O), (nth O gi O))) g)
    (map (fun x -> Some x) objs)

(** val grid1d_cells : nat -> nat list -> q list -> q option list **)

let grid1d_cells d idxs objs =
  let cell_idx = map (fun i -> nth O (unravel (d :: []) i) O) idxs in
  scatter (repeat None d) cell_idx (map (fun x -> Some x) objs)

(** val grid_heatmap : geometry -> listing -> opts -> picture result **)

let grid_heatmap g l o =
  let idxs = map (fun e -> e.e_index) l in
  let objs = map (fun e -> e.e_obj) l in
  (match g.g_dims with
   | [] -> Err ValueError
   | dx :: l0 ->
     (match l0 with
      | [] ->
        if all_below dx idxs
        then Ok (PHeat
               (heatmap_1d g (nth O g.g_boundaries [])
                 (grid1d_cells dx idxs objs) o []))
        else Err ValueError
      | dy :: l1 ->
        (match l1 with
         | [] ->
           if all_below (mul dx dy) idxs
           then let colors = grid2d_colors dx dy idxs objs in
                let xb = nth O g.g_boundaries [] in
                let yb = nth (S O) g.g_boundaries [] in
                let t = o.o_transpose in
                let lo = if t then rev g.g_lower else g.g_lower in
                let up = if t then rev g.g_upper else g.g_upper in
                (match limits_strict o.o_vmin o.o_vmax objs with
                 | Ok a ->
                   let (vlo, vhi) = a in
                   Ok (PHeat { hm_xb = (if t then yb else xb); hm_yb =
                   (if t then xb else yb); hm_colors =
                   (if t then transpose None dx colors else colors);
                   hm_xlim = ((qnth lo O), (qnth up O)); hm_ylim = (Some
                   ((qnth lo (S O)), (qnth up (S O)))); hm_clim = ((Some
                   vlo), (Some vhi)); hm_markers = [] })
                 | Err e -> Err e)
           else Err ValueError
         | _ :: _ -> Err ValueError)))

(** val insert_idx : q list -> nat -> nat list -> nat list **)

let rec insert_idx cs i l = match l with
| [] -> i :: []
| j :: t ->
  if qle_bool (qnth cs i) (qnth cs j)
  then i :: l
  else j :: (insert_idx cs i t)

(** val argsort : q list -> nat list **)

let argsort cs =
  fold_right (insert_idx cs) [] (seq O (length cs))

(** val inverse_perm : nat list -> nat list **)

let inverse_perm p =
  scatter (repeat O (length p)) p (seq O (length p))

(** val midpoints : q list -> q list **)

let midpoints s =
  map (fun ab ->
    qdiv (qplus (fst ab) (snd ab)) { qnum = (Zpos (XO XH)); qden = XH })
    (combine (removelast s) (tl s))

(** val cvt1d_cells : q list -> nat list -> q list -> q option list **)

let cvt1d_cells cs idxs objs =
  let inv = inverse_perm (argsort cs) in
  let selected_inv_idx = map (fun i -> nth i inv O) idxs in
  scatter (repeat None (length cs)) selected_inv_idx
    (map (fun x -> Some x) objs)

(** val qclip01 : q -> q **)

let qclip01 t =
  if qle_bool t { qnum = Z0; qden = XH }
  then { qnum = Z0; qden = XH }
  else if qle_bool { qnum = (Zpos XH); qden = XH } t
       then { qnum = (Zpos XH); qden = XH }
       else t

(** val cvt_heatmap : geometry -> listing -> opts -> picture result **)

let cvt_heatmap g l o =
  let idxs = map (fun e -> e.e_index) l in
  let objs = map (fun e -> e.e_obj) l in
  (match g.g_lower with
   | [] -> Err ValueError
   | _ :: l0 ->
     (match l0 with
      | [] ->
        let cs = map (fun c -> qnth c O) g.g_centroids in
        let sorted = map (qnth cs) (argsort cs) in
        let bnds =
          app ((qnth g.g_lower O) :: [])
            (app (midpoints sorted) ((qnth g.g_upper O) :: []))
        in
        if all_below (length cs) idxs
        then Ok (PHeat
               (heatmap_1d g bnds (cvt1d_cells cs idxs objs) o
                 (if o.o_lines
                  then map (fun c -> (c, { qnum = (Zpos XH); qden = (XO
                         XH) })) cs
                  else [])))
        else Err IndexError
      | _ :: l1 ->
        (match l1 with
         | [] ->
           let t = o.o_transpose in
           let lo = if t then rev g.g_lower else g.g_lower in
           let up = if t then rev g.g_upper else g.g_upper in
           let sites0 = map pair2 g.g_centroids in
           let sites = if t then map flip2 sites0 else sites0 in
           let site_obj =
             scatter (repeat None (length sites)) idxs
               (map (fun x -> Some x) objs)
           in
           let drawn = somes site_obj in
           let (ts, clim) =
             match pick o.o_vmin (min_list drawn) with
             | Some a ->
               (match pick o.o_vmax (max_list drawn) with
                | Some b ->
                  let a' = if qeq_bool a b then qminus a c001 else a in
                  let b' = if qeq_bool a b then qplus b c001 else b in
                  ((map
                     (option_map (fun ob ->
                       qclip01 (qdiv (qminus ob a') (qminus b' a'))))
                     site_obj), (Some (a', b')))
                | None -> ((map (fun _ -> None) site_obj), None))
             | None -> ((map (fun _ -> None) site_obj), None)
           in
           Ok (PVor { vo_sites = sites; vo_obj = site_obj; vo_t = ts;
           vo_xlim = ((qnth lo O), (qnth up O)); vo_ylim = ((qnth lo (S O)),
           (qnth up (S O))); vo_clim = clim; vo_markers =
           (if o.o_lines then sites else []) })
         | _ :: _ -> Err ValueError)))

(** val sliding_heatmap : geometry -> listing -> opts -> picture result **)

let sliding_heatmap g l o =
  let objs = map (fun e -> e.e_obj) l in
  (match g.g_dims with
   | [] -> Err ValueError
   | _ :: l0 ->
     (match l0 with
      | [] -> Err ValueError
      | _ :: l1 ->
        (match l1 with
         | [] ->
           let t = o.o_transpose in
           let pts0 = map (fun e -> pair2 e.e_meas) l in
           let pts = if t then map flip2 pts0 else pts0 in
           let xb0 = nth O g.g_boundaries [] in
           let yb0 = nth (S O) g.g_boundaries [] in
           let xb = if t then yb0 else xb0 in
           let yb = if t then xb0 else yb0 in
           let lo = if t then rev g.g_lower else g.g_lower in
           let up = if t then rev g.g_upper else g.g_upper in
           (match limits_strict o.o_vmin o.o_vmax objs with
            | Ok clim ->
              Ok (PScatter { sc_offsets = pts; sc_array = objs; sc_vlines =
                (if o.o_lines
                 then map (fun x -> (x, ((qnth lo (S O)), (qnth up (S O)))))
                        xb
                 else []); sc_hlines =
                (if o.o_lines
                 then map (fun y -> (y, ((qnth lo O), (qnth up O)))) yb
                 else []); sc_xlim = ((qnth lo O), (qnth up O)); sc_ylim =
                ((qnth lo (S O)), (qnth up (S O))); sc_clim = clim })
            | Err e -> Err e)
         | _ :: _ -> Err ValueError)))

(** val proximity_plot : geometry -> listing -> opts -> picture result **)

let proximity_plot g l o =
  let objs = map (fun e -> e.e_obj) l in
  let t = o.o_transpose in
  let pts0 = map (fun e -> pair2 e.e_meas) l in
  let pts = if t then map flip2 pts0 else pts0 in
  let bounds =
    match o.o_bounds with
    | Some p -> Ok p
    | None ->
      (match g.g_lower with
       | [] -> Err RuntimeError
       | _ :: _ ->
         Ok ((map (fun x -> qminus x c001) g.g_lower),
           (map (fun x -> qplus x c001) g.g_upper)))
  in
  (match bounds with
   | Ok a ->
     let (lo0, up0) = a in
     let lo = if t then rev lo0 else lo0 in
     let up = if t then rev up0 else up0 in
     (match limits_strict o.o_vmin o.o_vmax objs with
      | Ok clim ->
        Ok (PScatter { sc_offsets = pts; sc_array = objs; sc_vlines = [];
          sc_hlines = []; sc_xlim = ((qnth lo O), (qnth up O)); sc_ylim =
          ((qnth lo (S O)), (qnth up (S O))); sc_clim = clim })
      | Err e -> Err e)
   | Err e -> Err e)

(** val select : 'a1 -> nat list -> 'a1 list -> 'a1 list **)

let select d cols l =
  map (fun c -> nth c l d) cols

(** val insert_obj : elite -> listing -> listing **)

let rec insert_obj e l = match l with
| [] -> e :: []
| h :: t -> if qle_bool e.e_obj h.e_obj then e :: l else h :: (insert_obj e t)

(** val sort_by_obj : listing -> listing **)

let sort_by_obj l =
  fold_right insert_obj [] l

(** val normalize : q -> q -> q -> q **)

let normalize vmin vmax x =
  if qeq_bool vmin vmax
  then { qnum = Z0; qden = XH }
  else qdiv (qminus (qmin (qmax x vmin) vmax) vmin) (qminus vmax vmin)

(** val to_axis0 : q -> q -> q -> q -> q -> q **)

let to_axis0 lb0 r0 y lb ub =
  qplus (qmult (qdiv (qminus y lb) (qminus ub lb)) r0) lb0

(** val map3 :
    ('a1 -> 'a2 -> 'a3 -> 'a4) -> 'a1 list -> 'a2 list -> 'a3 list -> 'a4 list **)

let rec map3 f a b c =
  match a with
  | [] -> []
  | x :: a' ->
    (match b with
     | [] -> []
     | y :: b' ->
       (match c with
        | [] -> []
        | z0 :: c' -> (f x y z0) :: (map3 f a' b' c')))

(** val normalize_row : q list -> q list -> q list -> q list **)

let normalize_row lo up = function
| [] -> []
| y0 :: rest ->
  y0 :: (map3 (to_axis0 (qnth lo O) (qminus (qnth up O) (qnth lo O))) rest
          (tl lo) (tl up))

(** val parallel_axes : geometry -> listing -> opts -> picture result **)

let parallel_axes g df o =
  let m = length g.g_lower in
  let cols = match o.o_order with
             | Some c -> c
             | None -> seq O m in
  (match cols with
   | [] -> Err ValueError
   | _ :: _ ->
     if negb (all_below m cols)
     then Err ValueError
     else let lo = select { qnum = Z0; qden = XH } cols g.g_lower in
          let up = select { qnum = Z0; qden = XH } cols g.g_upper in
          let vmin = pick o.o_vmin (min_list (map (fun e -> e.e_obj) df)) in
          let vmax = pick o.o_vmax (max_list (map (fun e -> e.e_obj) df)) in
          let df' = if o.o_sort then sort_by_obj df else df in
          let objs = map (fun e -> e.e_obj) df' in
          let ys =
            map (fun e -> select { qnum = Z0; qden = XH } cols e.e_meas) df'
          in
          let ts =
            match vmin with
            | Some a ->
              (match vmax with
               | Some b -> map (normalize a b) objs
               | None -> [])
            | None -> []
          in
          Ok (PPar { pa_lines = (map (normalize_row lo up) ys); pa_objs =
          objs; pa_t = ts; pa_ylims = (combine lo up); pa_clim = (vmin,
          vmax) }))

type kind =
| KGrid
| KCvt
| KSliding
| KProximity
| KParallel

(** val source : world -> opts -> listing **)

let source w o =
  if o.o_df
  then (match w.w_frame with
        | Some f -> f
        | None -> w.w_elites)
  else w.w_elites

(** val draw : kind -> geometry -> listing -> opts -> picture result **)

let draw k g l o =
  match k with
  | KGrid -> grid_heatmap g l o
  | KCvt -> cvt_heatmap g l o
  | KSliding -> sliding_heatmap g l o
  | KProximity -> proximity_plot g l o
  | KParallel -> parallel_axes g l o

(** val plot : world -> (kind * opts) -> world * picture result **)

let plot w c =
  (w, (draw (fst c) w.w_geom (source w (snd c)) (snd c)))

(** val err_code0 : err -> z **)

let err_code0 = function
| ValueError -> Zpos XH
| IndexError -> Zpos (XO XH)
| RuntimeError -> Zpos (XI XH)
| KeyError -> Zpos (XO (XO XH))
| TypeError -> Zpos (XI (XO XH))
| StopIteration -> Zpos (XO (XI XH))
| OtherError -> Zpos (XI (XI XH))

(** val dql : sx -> q list option **)

let dql =
  dlist dq

(** val delite : sx -> elite option **)

let delite = function
| SZ _ -> None
| SL l ->
  (match l with
   | [] -> None
   | i :: l0 ->
     (match l0 with
      | [] -> None
      | ob :: l1 ->
        (match l1 with
         | [] -> None
         | m :: l2 ->
           (match l2 with
            | [] ->
              (match dnat i with
               | Some i' ->
                 (match dq ob with
                  | Some ob' ->
                    (match dql m with
                     | Some m' ->
                       Some { e_index = i'; e_obj = ob'; e_meas = m' }
                     | None -> None)
                  | None -> None)
               | None -> None)
            | _ :: _ -> None))))

(** val dgeom : sx -> geometry option **)

let dgeom = function
| SZ _ -> None
| SL l ->
  (match l with
   | [] -> None
   | d :: l0 ->
     (match l0 with
      | [] -> None
      | b :: l1 ->
        (match l1 with
         | [] -> None
         | lo :: l2 ->
           (match l2 with
            | [] -> None
            | up :: l3 ->
              (match l3 with
               | [] -> None
               | c :: l4 ->
                 (match l4 with
                  | [] ->
                    (match dlist dnat d with
                     | Some d' ->
                       (match dlist dql b with
                        | Some b' ->
                          (match dql lo with
                           | Some lo' ->
                             (match dql up with
                              | Some up' ->
                                (match dlist dql c with
                                 | Some c' ->
                                   Some { g_dims = d'; g_boundaries = b';
                                     g_lower = lo'; g_upper = up';
                                     g_centroids = c' }
                                 | None -> None)
                              | None -> None)
                           | None -> None)
                        | None -> None)
                     | None -> None)
                  | _ :: _ -> None))))))

(** val dbounds : sx -> (q list * q list) option **)

let dbounds = function
| SZ _ -> None
| SL l ->
  (match l with
   | [] -> None
   | lo :: l0 ->
     (match l0 with
      | [] -> None
      | up :: l1 ->
        (match l1 with
         | [] ->
           (match dql lo with
            | Some a ->
              (match dql up with
               | Some b -> Some (a, b)
               | None -> None)
            | None -> None)
         | _ :: _ -> None)))

(** val dopts : sx -> opts option **)

let dopts = function
| SZ _ -> None
| SL l ->
  (match l with
   | [] -> None
   | df :: l0 ->
     (match l0 with
      | [] -> None
      | tr :: l1 ->
        (match l1 with
         | [] -> None
         | vmin :: l2 ->
           (match l2 with
            | [] -> None
            | vmax :: l3 ->
              (match l3 with
               | [] -> None
               | srt :: l4 ->
                 (match l4 with
                  | [] -> None
                  | ord :: l5 ->
                    (match l5 with
                     | [] -> None
                     | lines :: l6 ->
                       (match l6 with
                        | [] -> None
                        | bnds :: l7 ->
                          (match l7 with
                           | [] ->
                             (match dbool df with
                              | Some df' ->
                                (match dbool tr with
                                 | Some tr' ->
                                   (match dopt dq vmin with
                                    | Some vmin' ->
                                      (match dopt dq vmax with
                                       | Some vmax' ->
                                         (match dbool srt with
                                          | Some srt' ->
                                            (match dopt (dlist dnat) ord with
                                             | Some ord' ->
                                               (match dbool lines with
                                                | Some lines' ->
                                                  (match dopt dbounds bnds with
                                                   | Some bnds' ->
                                                     Some { o_df = df';
                                                       o_transpose = tr';
                                                       o_vmin = vmin';
                                                       o_vmax = vmax';
                                                       o_sort = srt';
                                                       o_order = ord';
                                                       o_lines = lines';
                                                       o_bounds = bnds' }
                                                   | None -> None)
                                                | None -> None)
                                             | None -> None)
                                          | None -> None)
                                       | None -> None)
                                    | None -> None)
                                 | None -> None)
                              | None -> None)
                           | _ :: _ -> None)))))))))

(** val dkind : sx -> kind option **)

let dkind = function
| SZ z0 ->
  (match z0 with
   | Z0 -> Some KGrid
   | Zpos p ->
     (match p with
      | XI p0 -> (match p0 with
                  | XH -> Some KProximity
                  | _ -> None)
      | XO p0 ->
        (match p0 with
         | XI _ -> None
         | XO p1 -> (match p1 with
                     | XH -> Some KParallel
                     | _ -> None)
         | XH -> Some KSliding)
      | XH -> Some KCvt)
   | Zneg _ -> None)
| SL _ -> None

(** val eqq : (q * q) -> sx **)

let eqq p =
  SL ((eq_ (fst p)) :: ((eq_ (snd p)) :: []))

(** val eql : q list -> sx **)

let eql l =
  elist eq_ l

(** val eoq : q option -> sx **)

let eoq =
  eopt eq_

(** val eline : (q * (q * q)) -> sx **)

let eline p =
  SL ((eq_ (fst p)) :: ((eqq (snd p)) :: []))

(** val epicture : picture -> sx list **)

let epicture = function
| PHeat h ->
  (SZ
    Z0) :: ((eql h.hm_xb) :: ((eql h.hm_yb) :: ((elist (elist eoq)
                                                  h.hm_colors) :: ((eqq
                                                                    h.hm_xlim) :: (
    (eopt eqq h.hm_ylim) :: ((SL
    ((eoq (fst h.hm_clim)) :: ((eoq (snd h.hm_clim)) :: []))) :: ((elist eqq
                                                                    h.hm_markers) :: [])))))))
| PScatter s ->
  (SZ (Zpos
    XH)) :: ((elist eqq s.sc_offsets) :: ((eql s.sc_array) :: ((elist eline
                                                                 s.sc_vlines) :: (
    (elist eline s.sc_hlines) :: ((eqq s.sc_xlim) :: ((eqq s.sc_ylim) :: (
    (eqq s.sc_clim) :: [])))))))
| PVor v ->
  (SZ (Zpos (XO
    XH))) :: ((elist eqq v.vo_sites) :: ((elist eoq v.vo_obj) :: ((elist eoq
                                                                    v.vo_t) :: (
    (eqq v.vo_xlim) :: ((eqq v.vo_ylim) :: ((eopt eqq v.vo_clim) :: (
    (elist eqq v.vo_markers) :: [])))))))
| PPar p0 ->
  (SZ (Zpos (XI
    XH))) :: ((elist eql p0.pa_lines) :: ((eql p0.pa_objs) :: ((eql p0.pa_t) :: (
    (elist eqq p0.pa_ylims) :: ((SL
    ((eoq (fst p0.pa_clim)) :: ((eoq (snd p0.pa_clim)) :: []))) :: [])))))

(** val eelite : elite -> sx **)

let eelite e =
  SL ((enat e.e_index) :: ((eq_ e.e_obj) :: ((eql e.e_meas) :: [])))

(** val eworld : world -> sx **)

let eworld w =
  SL ((elist eelite w.w_elites) :: ((eopt (elist eelite) w.w_frame) :: []))

(** val run_C20 : sx -> sx **)

let run_C20 = function
| SZ _ -> sx_fail
| SL l ->
  (match l with
   | [] -> sx_fail
   | k :: l0 ->
     (match l0 with
      | [] -> sx_fail
      | g :: l1 ->
        (match l1 with
         | [] -> sx_fail
         | es :: l2 ->
           (match l2 with
            | [] -> sx_fail
            | fr :: l3 ->
              (match l3 with
               | [] -> sx_fail
               | o :: l4 ->
                 (match l4 with
                  | [] ->
                    (match dkind k with
                     | Some k' ->
                       (match dgeom g with
                        | Some g' ->
                          (match dlist delite es with
                           | Some es' ->
                             (match dopt (dlist delite) fr with
                              | Some fr' ->
                                (match dopts o with
                                 | Some o' ->
                                   let w = { w_geom = g'; w_elites = es';
                                     w_frame = fr' }
                                   in
                                   let (w', r) = plot w (k', o') in
                                   (match r with
                                    | Ok p ->
                                      SL ((SZ
                                        Z0) :: (app (epicture p)
                                                 ((eworld w') :: [])))
                                    | Err e ->
                                      SL ((SZ
                                        (err_code0 e)) :: ((eworld w') :: [])))
                                 | None -> sx_fail)
                              | None -> sx_fail)
                           | None -> sx_fail)
                        | None -> sx_fail)
                     | None -> sx_fail)
                  | _ :: _ -> sx_fail))))))
