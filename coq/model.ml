
(** val implb : bool -> bool -> bool **)

let implb b1 b2 =
  if b1 then b2 else true

(** val negb : bool -> bool **)

let negb = function
| true -> false
| false -> true

type nat =
| O
| S of nat

(** val option_map : ('a1 -> 'a2) -> 'a1 option -> 'a2 option **)

let option_map f = function
| Some a -> Some (f a)
| None -> None

(** val fst : ('a1 * 'a2) -> 'a1 **)

let fst = function
| (x, _) -> x

(** val snd : ('a1 * 'a2) -> 'a2 **)

let snd = function
| (_, y) -> y

(** val length : 'a1 list -> nat **)

let rec length = function
| [] -> O
| _ :: l' -> S (length l')

(** val app : 'a1 list -> 'a1 list -> 'a1 list **)

let rec app l m =
  match l with
  | [] -> m
  | a :: l1 -> a :: (app l1 m)

type comparison =
| Eq
| Lt
| Gt

(** val compOpp : comparison -> comparison **)

let compOpp = function
| Eq -> Eq
| Lt -> Gt
| Gt -> Lt

module Coq__1 = struct
 (** val add : nat -> nat -> nat **)
 let rec add n m =
   match n with
   | O -> m
   | S p -> S (add p m)
end
include Coq__1

(** val sub : nat -> nat -> nat **)

let rec sub n m =
  match n with
  | O -> n
  | S k -> (match m with
            | O -> n
            | S l -> sub k l)

(** val eqb : bool -> bool -> bool **)

let eqb b1 b2 =
  if b1 then b2 else if b2 then false else true

module Nat =
 struct
  (** val eqb : nat -> nat -> bool **)

  let rec eqb n m =
    match n with
    | O -> (match m with
            | O -> true
            | S _ -> false)
    | S n' -> (match m with
               | O -> false
               | S m' -> eqb n' m')

  (** val leb : nat -> nat -> bool **)

  let rec leb n m =
    match n with
    | O -> true
    | S n' -> (match m with
               | O -> false
               | S m' -> leb n' m')

  (** val ltb : nat -> nat -> bool **)

  let ltb n m =
    leb (S n) m
 end

(** val nth : nat -> 'a1 list -> 'a1 -> 'a1 **)

let rec nth n l default =
  match n with
  | O -> (match l with
          | [] -> default
          | x :: _ -> x)
  | S m -> (match l with
            | [] -> default
            | _ :: t -> nth m t default)

(** val nth_error : 'a1 list -> nat -> 'a1 option **)

let rec nth_error l = function
| O -> (match l with
        | [] -> None
        | x :: _ -> Some x)
| S n0 -> (match l with
           | [] -> None
           | _ :: l0 -> nth_error l0 n0)

(** val concat : 'a1 list list -> 'a1 list **)

let rec concat = function
| [] -> []
| x :: l0 -> app x (concat l0)

(** val map : ('a1 -> 'a2) -> 'a1 list -> 'a2 list **)

let rec map f = function
| [] -> []
| a :: t -> (f a) :: (map f t)

(** val fold_left : ('a1 -> 'a2 -> 'a1) -> 'a2 list -> 'a1 -> 'a1 **)

let rec fold_left f l a0 =
  match l with
  | [] -> a0
  | b :: t -> fold_left f t (f a0 b)

(** val fold_right : ('a2 -> 'a1 -> 'a1) -> 'a1 -> 'a2 list -> 'a1 **)

let rec fold_right f a0 = function
| [] -> a0
| b :: t -> f b (fold_right f a0 t)

(** val existsb : ('a1 -> bool) -> 'a1 list -> bool **)

let rec existsb f = function
| [] -> false
| a :: l0 -> (||) (f a) (existsb f l0)

(** val forallb : ('a1 -> bool) -> 'a1 list -> bool **)

let rec forallb f = function
| [] -> true
| a :: l0 -> (&&) (f a) (forallb f l0)

(** val filter : ('a1 -> bool) -> 'a1 list -> 'a1 list **)

let rec filter f = function
| [] -> []
| x :: l0 -> if f x then x :: (filter f l0) else filter f l0

(** val combine : 'a1 list -> 'a2 list -> ('a1 * 'a2) list **)

let rec combine l l' =
  match l with
  | [] -> []
  | x :: tl ->
    (match l' with
     | [] -> []
     | y :: tl' -> (x, y) :: (combine tl tl'))

(** val firstn : nat -> 'a1 list -> 'a1 list **)

let rec firstn n l =
  match n with
  | O -> []
  | S n0 -> (match l with
             | [] -> []
             | a :: l0 -> a :: (firstn n0 l0))

(** val skipn : nat -> 'a1 list -> 'a1 list **)

let rec skipn n l =
  match n with
  | O -> l
  | S n0 -> (match l with
             | [] -> []
             | _ :: l0 -> skipn n0 l0)

(** val seq : nat -> nat -> nat list **)

let rec seq start = function
| O -> []
| S len1 -> start :: (seq (S start) len1)

(** val repeat : 'a1 -> nat -> 'a1 list **)

let rec repeat x = function
| O -> []
| S k -> x :: (repeat x k)

type positive =
| XI of positive
| XO of positive
| XH

type z =
| Z0
| Zpos of positive
| Zneg of positive

module Pos =
 struct
  (** val succ : positive -> positive **)

  let rec succ = function
  | XI p -> XO (succ p)
  | XO p -> XI p
  | XH -> XO XH

  (** val add : positive -> positive -> positive **)

  let rec add x y =
    match x with
    | XI p ->
      (match y with
       | XI q0 -> XO (add_carry p q0)
       | XO q0 -> XI (add p q0)
       | XH -> XO (succ p))
    | XO p ->
      (match y with
       | XI q0 -> XI (add p q0)
       | XO q0 -> XO (add p q0)
       | XH -> XI p)
    | XH -> (match y with
             | XI q0 -> XO (succ q0)
             | XO q0 -> XI q0
             | XH -> XO XH)

  (** val add_carry : positive -> positive -> positive **)

  and add_carry x y =
    match x with
    | XI p ->
      (match y with
       | XI q0 -> XI (add_carry p q0)
       | XO q0 -> XO (add_carry p q0)
       | XH -> XI (succ p))
    | XO p ->
      (match y with
       | XI q0 -> XO (add_carry p q0)
       | XO q0 -> XI (add p q0)
       | XH -> XO (succ p))
    | XH ->
      (match y with
       | XI q0 -> XI (succ q0)
       | XO q0 -> XO (succ q0)
       | XH -> XI XH)

  (** val pred_double : positive -> positive **)

  let rec pred_double = function
  | XI p -> XI (XO p)
  | XO p -> XI (pred_double p)
  | XH -> XH

  (** val mul : positive -> positive -> positive **)

  let rec mul x y =
    match x with
    | XI p -> add y (XO (mul p y))
    | XO p -> XO (mul p y)
    | XH -> y

  (** val compare_cont : comparison -> positive -> positive -> comparison **)

  let rec compare_cont r x y =
    match x with
    | XI p ->
      (match y with
       | XI q0 -> compare_cont r p q0
       | XO q0 -> compare_cont Gt p q0
       | XH -> Gt)
    | XO p ->
      (match y with
       | XI q0 -> compare_cont Lt p q0
       | XO q0 -> compare_cont r p q0
       | XH -> Gt)
    | XH -> (match y with
             | XH -> r
             | _ -> Lt)

  (** val compare : positive -> positive -> comparison **)

  let compare =
    compare_cont Eq

  (** val eqb : positive -> positive -> bool **)

  let rec eqb p q0 =
    match p with
    | XI p0 -> (match q0 with
                | XI q1 -> eqb p0 q1
                | _ -> false)
    | XO p0 -> (match q0 with
                | XO q1 -> eqb p0 q1
                | _ -> false)
    | XH -> (match q0 with
             | XH -> true
             | _ -> false)

  (** val iter_op : ('a1 -> 'a1 -> 'a1) -> positive -> 'a1 -> 'a1 **)

  let rec iter_op op p a =
    match p with
    | XI p0 -> op a (iter_op op p0 (op a a))
    | XO p0 -> iter_op op p0 (op a a)
    | XH -> a

  (** val to_nat : positive -> nat **)

  let to_nat x =
    iter_op Coq__1.add x (S O)

  (** val of_succ_nat : nat -> positive **)

  let rec of_succ_nat = function
  | O -> XH
  | S x -> succ (of_succ_nat x)
 end

module Z =
 struct
  (** val double : z -> z **)

  let double = function
  | Z0 -> Z0
  | Zpos p -> Zpos (XO p)
  | Zneg p -> Zneg (XO p)

  (** val succ_double : z -> z **)

  let succ_double = function
  | Z0 -> Zpos XH
  | Zpos p -> Zpos (XI p)
  | Zneg p -> Zneg (Pos.pred_double p)

  (** val pred_double : z -> z **)

  let pred_double = function
  | Z0 -> Zneg XH
  | Zpos p -> Zpos (Pos.pred_double p)
  | Zneg p -> Zneg (XI p)

  (** val pos_sub : positive -> positive -> z **)

  let rec pos_sub x y =
    match x with
    | XI p ->
      (match y with
       | XI q0 -> double (pos_sub p q0)
       | XO q0 -> succ_double (pos_sub p q0)
       | XH -> Zpos (XO p))
    | XO p ->
      (match y with
       | XI q0 -> pred_double (pos_sub p q0)
       | XO q0 -> double (pos_sub p q0)
       | XH -> Zpos (Pos.pred_double p))
    | XH ->
      (match y with
       | XI q0 -> Zneg (XO q0)
       | XO q0 -> Zneg (Pos.pred_double q0)
       | XH -> Z0)

  (** val add : z -> z -> z **)

  let add x y =
    match x with
    | Z0 -> y
    | Zpos x' ->
      (match y with
       | Z0 -> x
       | Zpos y' -> Zpos (Pos.add x' y')
       | Zneg y' -> pos_sub x' y')
    | Zneg x' ->
      (match y with
       | Z0 -> x
       | Zpos y' -> pos_sub y' x'
       | Zneg y' -> Zneg (Pos.add x' y'))

  (** val opp : z -> z **)

  let opp = function
  | Z0 -> Z0
  | Zpos x0 -> Zneg x0
  | Zneg x0 -> Zpos x0

  (** val mul : z -> z -> z **)

  let mul x y =
    match x with
    | Z0 -> Z0
    | Zpos x' ->
      (match y with
       | Z0 -> Z0
       | Zpos y' -> Zpos (Pos.mul x' y')
       | Zneg y' -> Zneg (Pos.mul x' y'))
    | Zneg x' ->
      (match y with
       | Z0 -> Z0
       | Zpos y' -> Zneg (Pos.mul x' y')
       | Zneg y' -> Zpos (Pos.mul x' y'))

  (** val compare : z -> z -> comparison **)

  let compare x y =
    match x with
    | Z0 -> (match y with
             | Z0 -> Eq
             | Zpos _ -> Lt
             | Zneg _ -> Gt)
    | Zpos x' -> (match y with
                  | Zpos y' -> Pos.compare x' y'
                  | _ -> Gt)
    | Zneg x' ->
      (match y with
       | Zneg y' -> compOpp (Pos.compare x' y')
       | _ -> Lt)

  (** val leb : z -> z -> bool **)

  let leb x y =
    match compare x y with
    | Gt -> false
    | _ -> true

  (** val ltb : z -> z -> bool **)

  let ltb x y =
    match compare x y with
    | Lt -> true
    | _ -> false

  (** val eqb : z -> z -> bool **)

  let eqb x y =
    match x with
    | Z0 -> (match y with
             | Z0 -> true
             | _ -> false)
    | Zpos p -> (match y with
                 | Zpos q0 -> Pos.eqb p q0
                 | _ -> false)
    | Zneg p -> (match y with
                 | Zneg q0 -> Pos.eqb p q0
                 | _ -> false)

  (** val to_nat : z -> nat **)

  let to_nat = function
  | Zpos p -> Pos.to_nat p
  | _ -> O

  (** val of_nat : nat -> z **)

  let of_nat = function
  | O -> Z0
  | S n0 -> Zpos (Pos.of_succ_nat n0)

  (** val to_pos : z -> positive **)

  let to_pos = function
  | Zpos p -> p
  | _ -> XH
 end

type q = { qnum : z; qden : positive }

(** val qle_bool : q -> q -> bool **)

let qle_bool x y =
  Z.leb (Z.mul x.qnum (Zpos y.qden)) (Z.mul y.qnum (Zpos x.qden))

type sx =
| SZ of z
| SL of sx list

(** val sx_fail : sx **)

let sx_fail =
  SL ((SZ (Zneg (XI (XI (XI (XO (XO (XI (XI (XI (XI XH))))))))))) :: [])

(** val dz : sx -> z option **)

let dz = function
| SZ z0 -> Some z0
| SL _ -> None

(** val dnat : sx -> nat option **)

let dnat = function
| SZ z0 -> if Z.ltb z0 Z0 then None else Some (Z.to_nat z0)
| SL _ -> None

(** val dbool : sx -> bool option **)

let dbool = function
| SZ z0 ->
  (match z0 with
   | Z0 -> Some false
   | Zpos p -> (match p with
                | XH -> Some true
                | _ -> None)
   | Zneg _ -> None)
| SL _ -> None

(** val opt_all : 'a1 option list -> 'a1 list option **)

let rec opt_all = function
| [] -> Some []
| o :: t ->
  (match o with
   | Some x -> (match opt_all t with
                | Some r -> Some (x :: r)
                | None -> None)
   | None -> None)

(** val dlist : (sx -> 'a1 option) -> sx -> 'a1 list option **)

let dlist f = function
| SZ _ -> None
| SL l -> opt_all (map f l)

(** val dq : sx -> q option **)

let dq = function
| SZ _ -> None
| SL l ->
  (match l with
   | [] -> None
   | s0 :: l0 ->
     (match s0 with
      | SZ n ->
        (match l0 with
         | [] -> None
         | s1 :: l1 ->
           (match s1 with
            | SZ d ->
              (match l1 with
               | [] ->
                 if Z.ltb Z0 d
                 then Some { qnum = n; qden = (Z.to_pos d) }
                 else None
               | _ :: _ -> None)
            | SL _ -> None))
      | SL _ -> None))

(** val dopt : (sx -> 'a1 option) -> sx -> 'a1 option option **)

let dopt f = function
| SZ _ -> None
| SL l ->
  (match l with
   | [] -> Some None
   | x :: l0 ->
     (match l0 with
      | [] -> (match f x with
               | Some v -> Some (Some v)
               | None -> None)
      | _ :: _ -> None))

(** val ez : z -> sx **)

let ez z0 =
  SZ z0

(** val enat : nat -> sx **)

let enat n =
  SZ (Z.of_nat n)

(** val ebool : bool -> sx **)

let ebool b =
  SZ (if b then Zpos XH else Z0)

(** val elist : ('a1 -> sx) -> 'a1 list -> sx **)

let elist f l =
  SL (map f l)

(** val eopt : ('a1 -> sx) -> 'a1 option -> sx **)

let eopt f = function
| Some x -> SL ((f x) :: [])
| None -> SL []

(** val upd : 'a1 list -> nat -> 'a1 -> 'a1 list **)

let rec upd l i x =
  match l with
  | [] -> []
  | h :: t -> (match i with
               | O -> x :: t
               | S j -> h :: (upd t j x))

(** val insert_uniq : nat -> nat list -> nat list **)

let rec insert_uniq i l = match l with
| [] -> i :: []
| j :: t ->
  if Nat.ltb i j
  then i :: l
  else if Nat.eqb i j then l else j :: (insert_uniq i t)

(** val sort_uniq : nat list -> nat list **)

let sort_uniq l =
  fold_right insert_uniq [] l

(** val slice : 'a1 list -> nat -> nat -> 'a1 list **)

let slice l pos end_ =
  firstn (sub end_ pos) (skipn pos l)

(** val where_from : nat -> bool list -> nat list **)

let rec where_from i = function
| [] -> []
| b :: t -> if b then i :: (where_from (S i) t) else where_from (S i) t

(** val where_true : bool list -> nat list **)

let where_true l =
  where_from O l

(** val ntrue : bool list -> nat **)

let rec ntrue = function
| [] -> O
| b :: t -> add (if b then S O else O) (ntrue t)

type err =
| ValueError
| IndexError
| RuntimeError
| KeyError
| TypeError
| StopIteration
| OtherError

type 'a result =
| Ok of 'a
| Err of err

type 'r store = { cap : nat; occ : bool list; olist : nat list;
                  rows : 'r option list; nadd : nat; nclear : nat }

(** val init : nat -> 'a1 store **)

let init c =
  { cap = c; occ = (repeat false c); olist = []; rows = (repeat None c);
    nadd = O; nclear = O }

(** val get_occ : 'a1 store -> nat -> bool **)

let get_occ s i =
  nth i s.occ false

(** val get_row : 'a1 store -> nat -> 'a1 option **)

let get_row s i =
  nth i s.rows None

(** val len : 'a1 store -> nat **)

let len s =
  length s.olist

(** val in_range : 'a1 store -> nat list -> bool **)

let in_range s idxs =
  forallb (fun i -> Nat.ltb i s.cap) idxs

(** val retrieve :
    'a1 store -> nat list -> (bool * 'a1 option) list result **)

let retrieve s idxs =
  if in_range s idxs
  then Ok (map (fun i -> ((get_occ s i), (get_row s i))) idxs)
  else Err IndexError

(** val data : 'a1 store -> (nat * 'a1 option) list **)

let data s =
  map (fun i -> (i, (get_row s i))) s.olist

(** val new_indices : 'a1 store -> nat list -> nat list **)

let new_indices s idxs =
  filter (fun i -> negb (get_occ s i)) (sort_uniq idxs)

(** val write_rows :
    'a1 option list -> nat list -> 'a1 list -> 'a1 option list **)

let write_rows rs idxs xs =
  fold_left (fun r ix -> upd r (fst ix) (Some (snd ix))) (combine idxs xs) rs

(** val mark : bool list -> nat list -> bool list **)

let mark o new0 =
  fold_left (fun o0 i -> upd o0 i true) new0 o

(** val bump_add : 'a1 store -> 'a1 store **)

let bump_add s =
  { cap = s.cap; occ = s.occ; olist = s.olist; rows = s.rows; nadd = (S
    s.nadd); nclear = s.nclear }

(** val add_raw :
    'a1 store -> nat list -> 'a1 list -> bool -> 'a1 store * unit result **)

let add_raw s idxs xs keys_ok =
  if Nat.eqb (length idxs) O
  then (s, (Ok ()))
  else if negb (Nat.eqb (length idxs) (length xs))
       then (s, (Err ValueError))
       else if negb keys_ok
            then (s, (Err ValueError))
            else if negb (in_range s idxs)
                 then (s, (Err IndexError))
                 else let new0 = new_indices s idxs in
                      ({ cap = s.cap; occ = (mark s.occ new0); olist =
                      (app s.olist new0); rows = (write_rows s.rows idxs xs);
                      nadd = s.nadd; nclear = s.nclear }, (Ok ()))

type 'r transform =
  nat list -> 'r list -> (bool * 'r option) list -> nat list * 'r list

(** val run_transforms :
    'a1 store -> 'a1 transform list -> nat list -> 'a1 list -> (nat
    list * 'a1 list) result **)

let rec run_transforms s ts idxs xs =
  match ts with
  | [] -> Ok (idxs, xs)
  | t :: ts' ->
    (match retrieve s idxs with
     | Ok view -> let (i', x') = t idxs xs view in run_transforms s ts' i' x'
     | Err e -> Err e)

(** val add0 :
    'a1 store -> nat list -> 'a1 list -> 'a1 transform list -> bool -> 'a1
    store * unit result **)

let add0 s idxs xs ts keys_ok =
  let s1 = bump_add s in
  (match run_transforms s1 ts idxs xs with
   | Ok a -> let (i', x') = a in add_raw s1 i' x' keys_ok
   | Err e -> (s1, (Err e)))

(** val clear : 'a1 store -> 'a1 store **)

let clear s =
  { cap = s.cap; occ = (repeat false s.cap); olist = []; rows = s.rows;
    nadd = s.nadd; nclear = (S s.nclear) }

(** val resize : 'a1 store -> nat -> 'a1 store * unit result **)

let resize s c =
  if Nat.leb c s.cap
  then (s, (Err ValueError))
  else ({ cap = c; occ = (app s.occ (repeat false (sub c s.cap))); olist =
         s.olist; rows = (app s.rows (repeat None (sub c s.cap))); nadd =
         s.nadd; nclear = s.nclear }, (Ok ()))

type 'r raw = { r_cap : nat; r_occ : bool list; r_nocc : nat;
                r_olist : nat list; r_rows : 'r option list; r_nadd : 
                nat; r_nclear : nat }

(** val as_raw : 'a1 store -> 'a1 raw **)

let as_raw s =
  { r_cap = s.cap; r_occ = s.occ; r_nocc = (length s.olist); r_olist =
    s.olist; r_rows = s.rows; r_nadd = s.nadd; r_nclear = s.nclear }

(** val from_raw : 'a1 raw -> 'a1 store **)

let from_raw r =
  { cap = r.r_cap; occ = r.r_occ; olist = (firstn r.r_nocc r.r_olist); rows =
    r.r_rows; nadd = r.r_nadd; nclear = r.r_nclear }

type iter = { it_pos : nat; it_add : nat; it_clear : nat }

(** val iter_new : 'a1 store -> iter **)

let iter_new s =
  { it_pos = O; it_add = s.nadd; it_clear = s.nclear }

type 'r iter_out =
| Yield of nat * 'r option
| Stop
| Modified

(** val iter_next : 'a1 store -> iter -> iter * 'a1 iter_out **)

let iter_next s it =
  if negb ((&&) (Nat.eqb it.it_add s.nadd) (Nat.eqb it.it_clear s.nclear))
  then (it, Modified)
  else if Nat.leb (len s) it.it_pos
       then (it, Stop)
       else let i = nth it.it_pos s.olist O in
            ({ it_pos = (S it.it_pos); it_add = it.it_add; it_clear =
            it.it_clear }, (Yield (i, (get_row s i))))

(** val err_code : err -> z **)

let err_code = function
| ValueError -> Zpos XH
| IndexError -> Zpos (XO XH)
| RuntimeError -> Zpos (XI XH)
| KeyError -> Zpos (XO (XO XH))
| TypeError -> Zpos (XI (XO XH))
| StopIteration -> Zpos (XO (XI XH))
| OtherError -> Zpos (XI (XI XH))

(** val eres : ('a1 -> sx) -> 'a1 result -> sx **)

let eres f = function
| Ok a -> SL ((SZ Z0) :: ((f a) :: []))
| Err e -> SL ((SZ (err_code e)) :: [])

(** val erow : z option -> sx **)

let erow r =
  eopt ez r

type st = { s_store : z store; s_iters : iter list }

(** val const_transform : nat list -> z list -> z transform **)

let const_transform i' x' _ _ _ =
  (i', x')

(** val dtransform : sx -> z transform option **)

let dtransform = function
| SZ _ -> None
| SL l ->
  (match l with
   | [] -> None
   | a :: l0 ->
     (match l0 with
      | [] -> None
      | b :: l1 ->
        (match l1 with
         | [] ->
           (match dlist dnat a with
            | Some i' ->
              (match dlist dz b with
               | Some x' -> Some (const_transform i' x')
               | None -> None)
            | None -> None)
         | _ :: _ -> None)))

(** val run_op : st -> sx -> st * sx **)

let run_op s o =
  let keep = fun out0 -> (s, out0) in
  (match o with
   | SZ _ -> keep sx_fail
   | SL l ->
     (match l with
      | [] -> keep sx_fail
      | s0 :: l0 ->
        (match s0 with
         | SZ z0 ->
           (match z0 with
            | Z0 ->
              (match l0 with
               | [] -> keep sx_fail
               | a :: l1 ->
                 (match l1 with
                  | [] -> keep sx_fail
                  | b :: l2 ->
                    (match l2 with
                     | [] -> keep sx_fail
                     | k :: l3 ->
                       (match l3 with
                        | [] -> keep sx_fail
                        | ts :: l4 ->
                          (match l4 with
                           | [] ->
                             (match dlist dnat a with
                              | Some idxs ->
                                (match dlist dz b with
                                 | Some xs ->
                                   (match dbool k with
                                    | Some kk ->
                                      (match dlist dtransform ts with
                                       | Some tl ->
                                         let (s', r) =
                                           add0 s.s_store idxs xs tl kk
                                         in
                                         ({ s_store = s'; s_iters =
                                         s.s_iters },
                                         (eres (fun _ -> SL []) r))
                                       | None -> keep sx_fail)
                                    | None -> keep sx_fail)
                                 | None -> keep sx_fail)
                              | None -> keep sx_fail)
                           | _ :: _ -> keep sx_fail)))))
            | Zpos p ->
              (match p with
               | XI p0 ->
                 (match p0 with
                  | XI p1 ->
                    (match p1 with
                     | XH ->
                       (match l0 with
                        | [] ->
                          ({ s_store = (from_raw (as_raw s.s_store));
                            s_iters = s.s_iters }, (SL ((SZ Z0) :: [])))
                        | _ :: _ -> keep sx_fail)
                     | _ -> keep sx_fail)
                  | XO p1 ->
                    (match p1 with
                     | XH ->
                       (match l0 with
                        | [] ->
                          ({ s_store = s.s_store; s_iters =
                            (app s.s_iters ((iter_new s.s_store) :: [])) },
                            (enat (length s.s_iters)))
                        | _ :: _ -> keep sx_fail)
                     | _ -> keep sx_fail)
                  | XH ->
                    (match l0 with
                     | [] -> keep sx_fail
                     | a :: l1 ->
                       (match l1 with
                        | [] ->
                          (match dlist dnat a with
                           | Some idxs ->
                             keep
                               (eres
                                 (elist (fun p1 -> SL
                                   ((ebool (fst p1)) :: ((erow (snd p1)) :: []))))
                                 (retrieve s.s_store idxs))
                           | None -> keep sx_fail)
                        | _ :: _ -> keep sx_fail)))
               | XO p0 ->
                 (match p0 with
                  | XI p1 ->
                    (match p1 with
                     | XH ->
                       (match l0 with
                        | [] -> keep sx_fail
                        | k :: l1 ->
                          (match l1 with
                           | [] ->
                             (match dnat k with
                              | Some kk ->
                                (match nth_error s.s_iters kk with
                                 | Some it ->
                                   let (it', out0) = iter_next s.s_store it in
                                   ({ s_store = s.s_store; s_iters =
                                   (upd s.s_iters kk it') },
                                   (match out0 with
                                    | Yield (i, r) ->
                                      SL ((SZ
                                        Z0) :: ((enat i) :: ((erow r) :: [])))
                                    | Stop ->
                                      SL ((SZ (Zpos (XO (XI XH)))) :: [])
                                    | Modified ->
                                      SL ((SZ (Zpos (XI XH))) :: [])))
                                 | None -> keep sx_fail)
                              | None -> keep sx_fail)
                           | _ :: _ -> keep sx_fail))
                     | _ -> keep sx_fail)
                  | XO p1 ->
                    (match p1 with
                     | XI _ -> keep sx_fail
                     | XO p2 ->
                       (match p2 with
                        | XH ->
                          (match l0 with
                           | [] ->
                             let t = s.s_store in
                             keep (SL
                               ((enat t.cap) :: ((enat (len t)) :: ((elist
                                                                    enat
                                                                    t.olist) :: (
                               (elist ebool t.occ) :: ((enat t.nadd) :: (
                               (enat t.nclear) :: [])))))))
                           | _ :: _ -> keep sx_fail)
                        | _ -> keep sx_fail)
                     | XH ->
                       (match l0 with
                        | [] ->
                          keep
                            (elist (fun p2 -> SL
                              ((enat (fst p2)) :: ((erow (snd p2)) :: [])))
                              (data s.s_store))
                        | _ :: _ -> keep sx_fail))
                  | XH ->
                    (match l0 with
                     | [] -> keep sx_fail
                     | c :: l1 ->
                       (match l1 with
                        | [] ->
                          (match dnat c with
                           | Some cc ->
                             let (s', r) = resize s.s_store cc in
                             ({ s_store = s'; s_iters = s.s_iters },
                             (eres (fun _ -> SL []) r))
                           | None -> keep sx_fail)
                        | _ :: _ -> keep sx_fail)))
               | XH ->
                 (match l0 with
                  | [] ->
                    ({ s_store = (clear s.s_store); s_iters = s.s_iters },
                      (SL ((SZ Z0) :: [])))
                  | _ :: _ -> keep sx_fail))
            | Zneg _ -> keep sx_fail)
         | SL _ -> keep sx_fail)))

(** val run_ops : st -> sx list -> sx list **)

let rec run_ops s = function
| [] -> []
| o :: t -> let (s', out0) = run_op s o in out0 :: (run_ops s' t)

(** val run_C13 : sx -> sx **)

let run_C13 = function
| SZ _ -> sx_fail
| SL l ->
  (match l with
   | [] -> sx_fail
   | c :: l0 ->
     (match l0 with
      | [] -> sx_fail
      | s :: l1 ->
        (match s with
         | SZ _ -> sx_fail
         | SL ops ->
           (match l1 with
            | [] ->
              (match dnat c with
               | Some cc ->
                 SL (run_ops { s_store = (init cc); s_iters = [] } ops)
               | None -> sx_fail)
            | _ :: _ -> sx_fail))))

type call =
| CAsk
| CAskDqd
| CTell
| CTellDqd

type add_mode =
| Batch
| Single

(** val call_eqb : call -> call -> bool **)

let call_eqb a b =
  match a with
  | CAsk -> (match b with
             | CAsk -> true
             | _ -> false)
  | CAskDqd -> (match b with
                | CAskDqd -> true
                | _ -> false)
  | CTell -> (match b with
              | CTell -> true
              | _ -> false)
  | CTellDqd -> (match b with
                 | CTellDqd -> true
                 | _ -> false)

(** val last_is : call option -> call -> bool **)

let last_is l c =
  match l with
  | Some d -> call_eqb d c
  | None -> false

type 'v column = 'v list option

(** val slice_col : nat -> nat -> 'a1 column -> 'a1 column **)

let slice_col pos end_ c =
  option_map (fun l -> slice l pos end_) c

(** val row_at : nat -> 'a1 column list -> 'a1 option list **)

let row_at i data0 =
  map (fun c -> match c with
                | Some l -> nth_error l i
                | None -> None) data0

type 'v aevent =
| AddBatch of 'v column list
| AddSingle of 'v option list

type ('v, 'f) told = { t_data : 'v column list; t_jac : 'v list option;
                       t_info : 'f list }

type ('v, 'f) eevent =
| Asked of bool * 'v list
| Told of bool * ('v, 'f) told

type ('v, 'f) sched = { last_called : call option; cur : 'v list;
                        num_emitted : nat list; arch : 'v aevent list;
                        rarch : 'v aevent list option; mode : add_mode;
                        elog : ('v, 'f) eevent list list }

(** val sched_init : nat -> add_mode -> bool -> ('a1, 'a2) sched **)

let sched_init n_emitters0 m with_result =
  { last_called = None; cur = []; num_emitted = (repeat O n_emitters0);
    arch = []; rarch = (if with_result then Some [] else None); mode = m;
    elog = (repeat [] n_emitters0) }

(** val n_emitters : ('a1, 'a2) sched -> nat **)

let n_emitters s =
  length s.elog

(** val push :
    ('a1, 'a2) eevent list list -> nat -> ('a1, 'a2) eevent -> ('a1, 'a2)
    eevent list list **)

let push el i e =
  upd el i (app (nth i el []) (e :: []))

(** val push_all :
    ('a1, 'a2) eevent list list -> (nat * ('a1, 'a2) eevent) list -> ('a1,
    'a2) eevent list list **)

let push_all el evs =
  fold_left (fun el0 ie -> push el0 (fst ie) (snd ie)) evs el

(** val set_all : nat list -> (nat * nat) list -> nat list **)

let set_all nums kvs =
  fold_left (fun m kv -> upd m (fst kv) (snd kv)) kvs nums

(** val ask_route :
    bool -> nat list -> (nat -> 'a1 list) -> nat list -> ('a1, 'a2) eevent
    list list -> ('a1 list * nat list) * ('a1, 'a2) eevent list list **)

let ask_route dqd idxs resp nums el =
  let sols = map (fun i -> (i, (resp i))) idxs in
  (((concat (map snd sols)),
  (set_all nums (map (fun p -> ((fst p), (length (snd p)))) sols))),
  (push_all el (map (fun p -> ((fst p), (Asked (dqd, (snd p))))) sols)))

(** val mk_told :
    nat -> nat -> 'a1 column list -> 'a1 list option -> 'a2 list -> ('a1,
    'a2) told **)

let mk_told pos end_ data0 jac info =
  { t_data = (map (slice_col pos end_) data0); t_jac =
    (option_map (fun j -> slice j pos end_) jac); t_info =
    (slice info pos end_) }

(** val deliveries :
    nat list -> nat list -> nat -> 'a1 column list -> 'a1 list option -> 'a2
    list -> (nat * ('a1, 'a2) told) list **)

let rec deliveries idxs nums pos data0 jac info =
  match idxs with
  | [] -> []
  | i :: t ->
    let n = nth i nums O in
    let end_ = add pos n in
    (i,
    (mk_told pos end_ data0 jac info)) :: (deliveries t nums end_ data0 jac
                                            info)

(** val lens_ok : nat -> 'a1 column list -> bool **)

let lens_ok n data0 =
  forallb (fun c ->
    match c with
    | Some l -> Nat.eqb (length l) n
    | None -> true) data0

(** val app_event :
    'a1 aevent list -> 'a1 aevent list option -> 'a1 aevent -> 'a1 aevent
    list * 'a1 aevent list option **)

let app_event a r e =
  ((app a (e :: [])), (option_map (fun l -> app l (e :: [])) r))

(** val single_loop :
    'a1 column list -> (nat -> 'a2) -> nat option -> nat list -> 'a1 aevent
    list -> 'a1 aevent list option -> 'a2 list -> ('a1 aevent list * 'a1
    aevent list option) * 'a2 list result **)

let rec single_loop data0 fb fail is a r info =
  match is with
  | [] -> ((a, r), (Ok info))
  | i :: t ->
    (match fail with
     | Some k ->
       if Nat.eqb i k
       then ((a, r), (Err ValueError))
       else let (a', r') = app_event a r (AddSingle (row_at i data0)) in
            single_loop data0 fb fail t a' r' (app info ((fb i) :: []))
     | None ->
       let (a', r') = app_event a r (AddSingle (row_at i data0)) in
       single_loop data0 fb fail t a' r' (app info ((fb i) :: [])))

(** val add_to_archives :
    add_mode -> nat -> 'a1 column list -> (nat -> 'a2) -> nat option -> 'a1
    aevent list -> 'a1 aevent list option -> ('a1 aevent list * 'a1 aevent
    list option) * 'a2 list result **)

let add_to_archives m n data0 fb fail a r =
  match m with
  | Batch ->
    (match fail with
     | Some _ -> ((a, r), (Err ValueError))
     | None -> ((app_event a r (AddBatch data0)), (Ok (map fb (seq O n)))))
  | Single -> single_loop data0 fb fail (seq O n) a r []

type ('v, 'f) tell_args = { ta_data : 'v column list; ta_jac : 'v list;
                            ta_fb : (nat -> 'f); ta_fail : nat option }

type 'v out =
| ORows of 'v list
| ONone

(** val ask_call : bool -> call **)

let ask_call = function
| true -> CAskDqd
| false -> CAsk

(** val tell_call : bool -> call **)

let tell_call = function
| true -> CTellDqd
| false -> CTell

(** val ask_gen :
    bool -> ('a1, 'a2) sched -> (nat -> 'a1 list) -> ('a1, 'a2) sched * 'a1
    out result **)

let ask_gen dqd s resp =
  if (||) (last_is s.last_called CAsk) (last_is s.last_called CAskDqd)
  then (s, (Err RuntimeError))
  else let (p, el) =
         ask_route dqd (seq O (n_emitters s)) resp s.num_emitted s.elog
       in
       let (sols, nums) = p in
       ({ last_called = (Some (ask_call dqd)); cur = sols; num_emitted =
       nums; arch = s.arch; rarch = s.rarch; mode = s.mode; elog = el }, (Ok
       (ORows sols)))

(** val tell_gen :
    bool -> ('a1, 'a2) sched -> ('a1, 'a2) tell_args -> ('a1, 'a2)
    sched * 'a1 out result **)

let tell_gen dqd s a =
  if negb (last_is s.last_called (ask_call dqd))
  then (s, (Err RuntimeError))
  else let lc = Some (tell_call dqd) in
       let keep = { last_called = lc; cur = s.cur; num_emitted =
         s.num_emitted; arch = s.arch; rarch = s.rarch; mode = s.mode; elog =
         s.elog }
       in
       let n = length s.cur in
       if negb (lens_ok n a.ta_data)
       then (keep, (Err ValueError))
       else let data0 = app a.ta_data ((Some s.cur) :: []) in
            if (&&) dqd (negb (Nat.eqb (length a.ta_jac) n))
            then (keep, (Err ValueError))
            else let (p, r) =
                   add_to_archives s.mode n data0 a.ta_fb a.ta_fail s.arch
                     s.rarch
                 in
                 let (ar, rr) = p in
                 (match r with
                  | Ok info ->
                    let ds =
                      deliveries (seq O (n_emitters s)) s.num_emitted O data0
                        (if dqd then Some a.ta_jac else None) info
                    in
                    ({ last_called = lc; cur = s.cur; num_emitted =
                    s.num_emitted; arch = ar; rarch = rr; mode = s.mode;
                    elog =
                    (push_all s.elog
                      (map (fun d -> ((fst d), (Told (dqd, (snd d))))) ds)) },
                    (Ok ONone))
                  | Err e ->
                    ({ last_called = lc; cur = s.cur; num_emitted =
                      s.num_emitted; arch = ar; rarch = rr; mode = s.mode;
                      elog = s.elog }, (Err e)))

type ('v, 'f) sop =
| OpAsk of (nat -> 'v list)
| OpAskDqd of (nat -> 'v list)
| OpTell of ('v, 'f) tell_args
| OpTellDqd of ('v, 'f) tell_args

(** val sched_step :
    ('a1, 'a2) sched -> ('a1, 'a2) sop -> ('a1, 'a2) sched * 'a1 out result **)

let sched_step s = function
| OpAsk resp -> ask_gen false s resp
| OpAskDqd resp -> ask_gen true s resp
| OpTell a -> tell_gen false s a
| OpTellDqd a -> tell_gen true s a

(** val dany : sx -> sx option **)

let dany s =
  Some s

(** val eany : sx -> sx **)

let eany s =
  s

(** val dcol : sx -> sx column option **)

let dcol = function
| SZ _ -> None
| SL l0 ->
  (match l0 with
   | [] -> Some None
   | s0 :: l1 ->
     (match s0 with
      | SZ _ -> None
      | SL l -> (match l1 with
                 | [] -> Some (Some l)
                 | _ :: _ -> None)))

(** val ecol : sx column -> sx **)

let ecol = function
| Some l -> SL ((SL l) :: [])
| None -> SL []

(** val dresp : sx -> (nat -> sx list) option **)

let dresp s =
  match dlist (dlist dany) s with
  | Some ls -> Some (fun i -> nth i ls [])
  | None -> None

(** val dtell : sx -> sx -> sx -> sx -> (sx, sx) tell_args option **)

let dtell data0 jac fbs fail =
  match dlist dcol data0 with
  | Some d ->
    (match dlist dany jac with
     | Some j ->
       (match dlist dany fbs with
        | Some f ->
          (match dopt dnat fail with
           | Some fl ->
             Some { ta_data = d; ta_jac = j; ta_fb = (fun k ->
               nth k f sx_fail); ta_fail = fl }
           | None -> None)
        | None -> None)
     | None -> None)
  | None -> None

(** val dsop : sx -> (sx, sx) sop option **)

let dsop = function
| SZ _ -> None
| SL l ->
  (match l with
   | [] -> None
   | s0 :: l0 ->
     (match s0 with
      | SZ z0 ->
        (match z0 with
         | Z0 ->
           (match l0 with
            | [] -> None
            | r :: l1 ->
              (match l1 with
               | [] -> option_map (fun x -> OpAsk x) (dresp r)
               | _ :: _ -> None))
         | Zpos p ->
           (match p with
            | XI p0 ->
              (match p0 with
               | XH ->
                 (match l0 with
                  | [] -> None
                  | d :: l1 ->
                    (match l1 with
                     | [] -> None
                     | j :: l2 ->
                       (match l2 with
                        | [] -> None
                        | f :: l3 ->
                          (match l3 with
                           | [] -> None
                           | fl :: l4 ->
                             (match l4 with
                              | [] ->
                                option_map (fun x -> OpTellDqd x)
                                  (dtell d j f fl)
                              | _ :: _ -> None)))))
               | _ -> None)
            | XO p0 ->
              (match p0 with
               | XH ->
                 (match l0 with
                  | [] -> None
                  | d :: l1 ->
                    (match l1 with
                     | [] -> None
                     | f :: l2 ->
                       (match l2 with
                        | [] -> None
                        | fl :: l3 ->
                          (match l3 with
                           | [] ->
                             option_map (fun x -> OpTell x)
                               (dtell d (SL []) f fl)
                           | _ :: _ -> None))))
               | _ -> None)
            | XH ->
              (match l0 with
               | [] -> None
               | r :: l1 ->
                 (match l1 with
                  | [] -> option_map (fun x -> OpAskDqd x) (dresp r)
                  | _ :: _ -> None)))
         | Zneg _ -> None)
      | SL _ -> None))

(** val eout : sx out result -> sx **)

let eout = function
| Ok a ->
  (match a with
   | ORows rows0 -> SL ((SZ Z0) :: ((SL rows0) :: []))
   | ONone -> SL ((SZ Z0) :: []))
| Err e -> SL ((SZ (err_code e)) :: [])

(** val etold : (sx, sx) told -> sx **)

let etold t =
  SL ((elist ecol t.t_data) :: ((eopt (fun j -> SL j) t.t_jac) :: ((SL
    t.t_info) :: [])))

(** val eeevent : (sx, sx) eevent -> sx **)

let eeevent = function
| Asked (dqd, rows0) -> SL ((SZ Z0) :: ((ebool dqd) :: ((SL rows0) :: [])))
| Told (dqd, t) -> SL ((SZ (Zpos XH)) :: ((ebool dqd) :: ((etold t) :: [])))

(** val eaevent : sx aevent -> sx **)

let eaevent = function
| AddBatch data0 -> SL ((SZ Z0) :: ((elist ecol data0) :: []))
| AddSingle row -> SL ((SZ (Zpos XH)) :: ((elist (eopt eany) row) :: []))

(** val ecall : call option -> sx **)

let ecall = function
| Some c0 ->
  (match c0 with
   | CAsk -> SZ (Zpos XH)
   | CAskDqd -> SZ (Zpos (XO XH))
   | CTell -> SZ (Zpos (XI XH))
   | CTellDqd -> SZ (Zpos (XO (XO XH))))
| None -> SZ Z0

(** val esizes : (sx, sx) sched -> sx **)

let esizes s =
  SL
    ((elist (fun l -> enat (length l)) s.elog) :: ((enat (length s.arch)) :: (
    (eopt (fun l -> enat (length l)) s.rarch) :: ((ecall s.last_called) :: []))))

(** val estate : (sx, sx) sched -> sx **)

let estate s =
  SL
    ((elist (elist eeevent) s.elog) :: ((elist eaevent s.arch) :: ((eopt
                                                                    (elist
                                                                    eaevent)
                                                                    s.rarch) :: (
    (ecall s.last_called) :: ((elist enat s.num_emitted) :: [])))))

(** val run_sops : (sx, sx) sched -> sx list -> sx list * sx **)

let rec run_sops s = function
| [] -> ([], (estate s))
| o :: t ->
  (match dsop o with
   | Some op ->
     let (s', r) = sched_step s op in
     let (outs, fin) = run_sops s' t in
     (((SL ((eout r) :: ((esizes s') :: []))) :: outs), fin)
   | None -> ((sx_fail :: []), (estate s)))

(** val run_C04 : sx -> sx **)

let run_C04 = function
| SZ _ -> sx_fail
| SL l ->
  (match l with
   | [] -> sx_fail
   | n :: l0 ->
     (match l0 with
      | [] -> sx_fail
      | m :: l1 ->
        (match l1 with
         | [] -> sx_fail
         | wr :: l2 ->
           (match l2 with
            | [] -> sx_fail
            | s :: l3 ->
              (match s with
               | SZ _ -> sx_fail
               | SL ops ->
                 (match l3 with
                  | [] ->
                    (match dnat n with
                     | Some nn ->
                       (match dbool m with
                        | Some mm ->
                          (match dbool wr with
                           | Some ww ->
                             let (outs, fin) =
                               run_sops
                                 (sched_init nn
                                   (if mm then Single else Batch) ww) ops
                             in
                             SL ((SL outs) :: (fin :: []))
                           | None -> sx_fail)
                        | None -> sx_fail)
                     | None -> sx_fail)
                  | _ :: _ -> sx_fail))))))

type reselect_mode =
| Terminated
| AllActive

type key =
| KInf
| KFin of q
| KUndef

(** val key_geb : key -> key -> bool **)

let key_geb a b =
  match a with
  | KInf -> true
  | KFin x ->
    (match b with
     | KInf -> false
     | KFin y -> qle_bool y x
     | KUndef -> true)
  | KUndef -> (match b with
               | KUndef -> true
               | _ -> false)

(** val better : key -> key -> bool **)

let better a b =
  match a with
  | KInf -> (match b with
             | KInf -> false
             | _ -> true)
  | KFin x -> (match b with
               | KFin y -> negb (qle_bool x y)
               | _ -> false)
  | KUndef -> false

(** val map2 : ('a1 -> 'a2 -> 'a3) -> 'a1 list -> 'a2 list -> 'a3 list **)

let rec map2 f la lb =
  match la with
  | [] -> []
  | a :: ta -> (match lb with
                | [] -> []
                | b :: tb -> (f a b) :: (map2 f ta tb))

(** val ucb_keys : nat list -> (nat -> q option) -> key list **)

let ucb_keys selection0 scores =
  map (fun i ->
    if Nat.eqb (nth i selection0 O) O
    then KInf
    else (match scores i with
          | Some q0 -> KFin q0
          | None -> KUndef)) (seq O (length selection0))

(** val valid_selection :
    nat -> bool list -> key list -> bool list -> bool **)

let valid_selection num_active0 kept keys chosen =
  let n = length kept in
  (&&)
    ((&&)
      ((&&) (Nat.eqb (length chosen) n) (Nat.eqb (ntrue chosen) num_active0))
      (forallb (fun i -> implb (nth i kept false) (nth i chosen false))
        (seq O n)))
    (forallb (fun i ->
      forallb (fun j ->
        implb
          ((&&) ((&&) (nth i chosen false) (negb (nth i kept false)))
            (negb (nth j chosen false)))
          (negb (better (nth j keys KUndef) (nth i keys KUndef)))) (seq O n))
      (seq O n))

(** val insert_desc : key list -> nat -> nat list -> nat list **)

let rec insert_desc keys i l = match l with
| [] -> i :: []
| j :: t ->
  if key_geb (nth i keys KUndef) (nth j keys KUndef)
  then i :: l
  else j :: (insert_desc keys i t)

(** val argsort_desc : key list -> nat list **)

let argsort_desc keys =
  fold_right (insert_desc keys) [] (seq O (length keys))

(** val activate_loop : nat list -> bool list -> nat -> nat -> bool list **)

let rec activate_loop order act cur_active num_active0 =
  match order with
  | [] -> act
  | i :: t ->
    if Nat.leb num_active0 cur_active
    then act
    else if nth i act false
         then activate_loop t act cur_active num_active0
         else activate_loop t (upd act i true) (S cur_active) num_active0

(** val select : nat -> bool list -> key list -> bool list **)

let select num_active0 kept keys =
  activate_loop (argsort_desc keys) kept (ntrue kept) num_active0

(** val fill : nat -> bool list -> bool list -> bool list * bool list **)

let rec fill needed resel act =
  match needed with
  | O -> (resel, act)
  | S m ->
    (match resel with
     | [] -> (resel, act)
     | _ :: rt ->
       (match act with
        | [] -> (resel, act)
        | a :: at_ ->
          let (rt', at') = fill (if a then S m else m) rt at_ in
          ((false :: rt'), (true :: at'))))

(** val deactivate : bool list -> bool list -> bool list **)

let deactivate act resel =
  map2 (fun a r -> (&&) a (negb r)) act resel

type ('v, 'f) bandit = { core : ('v, 'f) sched; active : bool list;
                         success : nat list; selection : nat list;
                         restarts : z list; num_active : nat;
                         reselect : reselect_mode }

(** val pool : ('a1, 'a2) bandit -> nat **)

let pool s =
  length s.active

(** val bandit_init :
    nat -> nat -> reselect_mode -> add_mode -> bool -> ('a1, 'a2) bandit **)

let bandit_init n_pool k rm m with_result =
  { core = (sched_init n_pool m with_result); active = (repeat false n_pool);
    success = (repeat O n_pool); selection = (repeat O n_pool); restarts =
    (repeat Z0 n_pool); num_active = k; reselect = rm }

(** val ask_pre :
    ('a1, 'a2) bandit -> (nat -> z) -> (bool list * bool list) * z list **)

let ask_pre s rin =
  let (resel0, restarts') =
    match s.reselect with
    | Terminated ->
      let er = map rin (seq O (pool s)) in
      ((map2 (fun e r -> (||) (Z.ltb r e) (Z.ltb e Z0)) er s.restarts), er)
    | AllActive -> (s.active, s.restarts)
  in
  let (resel, act1) = fill (sub s.num_active (ntrue s.active)) resel0 s.active
  in
  ((resel, (deactivate act1 resel)), restarts')

(** val bandit_ask :
    ('a1, 'a2) bandit -> (nat -> z) -> (nat -> q option) -> bool list -> (nat
    -> 'a1 list) -> ('a1, 'a2) bandit * 'a1 out result **)

let bandit_ask s rin scores chosen resp =
  let c = s.core in
  if last_is c.last_called CAsk
  then (s, (Err RuntimeError))
  else let (p, restarts') = ask_pre s rin in
       let (resel, kept) = p in
       let act' =
         if existsb (fun b -> b) resel
         then let keys = ucb_keys s.selection scores in
              if valid_selection s.num_active kept keys chosen
              then chosen
              else select s.num_active kept keys
         else kept
       in
       let (p0, el) =
         ask_route false (where_true act') resp c.num_emitted c.elog
       in
       let (sols, nums) = p0 in
       ({ core = { last_called = (Some CAsk); cur = sols; num_emitted = nums;
       arch = c.arch; rarch = c.rarch; mode = c.mode; elog = el }; active =
       act'; success = s.success; selection = s.selection; restarts =
       restarts'; num_active = s.num_active; reselect = s.reselect }, (Ok
       (ORows sols)))

(** val count_nz : ('a1 -> bool) -> 'a1 list -> nat **)

let count_nz status_nz info =
  length (filter status_nz info)

(** val credit :
    ('a2 -> bool) -> (nat * ('a1, 'a2) told) list -> nat list -> nat list ->
    nat list -> nat list * nat list **)

let rec credit status_nz ds nums sel suc =
  match ds with
  | [] -> (sel, suc)
  | p :: rest ->
    let (i, t) = p in
    credit status_nz rest nums (upd sel i (add (nth i sel O) (nth i nums O)))
      (upd suc i (add (nth i suc O) (count_nz status_nz t.t_info)))

(** val bandit_tell :
    ('a2 -> bool) -> ('a1, 'a2) bandit -> ('a1, 'a2) tell_args -> ('a1, 'a2)
    bandit * 'a1 out result **)

let bandit_tell status_nz s a =
  let c = s.core in
  if negb (last_is c.last_called CAsk)
  then (s, (Err RuntimeError))
  else let lc = Some CTell in
       let with_core = fun c' -> { core = c'; active = s.active; success =
         s.success; selection = s.selection; restarts = s.restarts;
         num_active = s.num_active; reselect = s.reselect }
       in
       let n = length c.cur in
       if negb (lens_ok n a.ta_data)
       then ((with_core { last_called = lc; cur = c.cur; num_emitted =
               c.num_emitted; arch = c.arch; rarch = c.rarch; mode = c.mode;
               elog = c.elog }), (Err ValueError))
       else let data0 = app a.ta_data ((Some c.cur) :: []) in
            let (p, r) =
              add_to_archives c.mode n data0 a.ta_fb a.ta_fail c.arch c.rarch
            in
            let (ar, rr) = p in
            (match r with
             | Ok info ->
               let ds =
                 deliveries (where_true s.active) c.num_emitted O data0 None
                   info
               in
               let (sel, suc) =
                 credit status_nz ds c.num_emitted s.selection s.success
               in
               ({ core = { last_called = lc; cur = c.cur; num_emitted =
               c.num_emitted; arch = ar; rarch = rr; mode = c.mode; elog =
               (push_all c.elog
                 (map (fun d -> ((fst d), (Told (false, (snd d))))) ds)) };
               active = s.active; success = suc; selection = sel; restarts =
               s.restarts; num_active = s.num_active; reselect =
               s.reselect }, (Ok ONone))
             | Err e ->
               ((with_core { last_called = lc; cur = c.cur; num_emitted =
                  c.num_emitted; arch = ar; rarch = rr; mode = c.mode; elog =
                  c.elog }), (Err e)))

type ('v, 'f) bop =
| BAsk of (nat -> z) * (nat -> q option) * bool list * (nat -> 'v list)
| BTell of ('v, 'f) tell_args
| BAskDqd
| BTellDqd

(** val bandit_step :
    ('a2 -> bool) -> ('a1, 'a2) bandit -> ('a1, 'a2) bop -> ('a1, 'a2)
    bandit * 'a1 out result **)

let bandit_step status_nz s = function
| BAsk (rin, scores, chosen, resp) -> bandit_ask s rin scores chosen resp
| BTell a -> bandit_tell status_nz s a
| _ -> (s, (Err OtherError))

(** val status_nz_sx : sx -> bool **)

let status_nz_sx = function
| SZ _ -> false
| SL l ->
  (match l with
   | [] -> false
   | s :: _ -> (match s with
                | SZ st0 -> negb (Z.eqb st0 Z0)
                | SL _ -> false))

type bstate = (sx, sx) bandit

(** val dbop : sx -> (sx, sx) bop option **)

let dbop = function
| SZ _ -> None
| SL l ->
  (match l with
   | [] -> None
   | s0 :: l0 ->
     (match s0 with
      | SZ z0 ->
        (match z0 with
         | Z0 ->
           (match l0 with
            | [] -> None
            | rin :: l1 ->
              (match l1 with
               | [] -> None
               | sc :: l2 ->
                 (match l2 with
                  | [] -> None
                  | ch :: l3 ->
                    (match l3 with
                     | [] -> None
                     | r :: l4 ->
                       (match l4 with
                        | [] ->
                          (match dlist dz rin with
                           | Some ri ->
                             (match dlist (dopt dq) sc with
                              | Some scs ->
                                (match dlist dbool ch with
                                 | Some chosen ->
                                   (match dresp r with
                                    | Some resp ->
                                      Some (BAsk ((fun i ->
                                        nth i ri (Zneg XH)), (fun i ->
                                        nth i scs None), chosen, resp))
                                    | None -> None)
                                 | None -> None)
                              | None -> None)
                           | None -> None)
                        | _ :: _ -> None)))))
         | Zpos p ->
           (match p with
            | XI p0 ->
              (match p0 with
               | XH -> (match l0 with
                        | [] -> Some BTellDqd
                        | _ :: _ -> None)
               | _ -> None)
            | XO p0 ->
              (match p0 with
               | XH ->
                 (match l0 with
                  | [] -> None
                  | d :: l1 ->
                    (match l1 with
                     | [] -> None
                     | f :: l2 ->
                       (match l2 with
                        | [] -> None
                        | fl :: l3 ->
                          (match l3 with
                           | [] ->
                             option_map (fun x -> BTell x)
                               (dtell d (SL []) f fl)
                           | _ :: _ -> None))))
               | _ -> None)
            | XH -> (match l0 with
                     | [] -> Some BAskDqd
                     | _ :: _ -> None))
         | Zneg _ -> None)
      | SL _ -> None))

(** val ebstate : bstate -> sx **)

let ebstate s =
  SL
    ((estate s.core) :: ((elist ebool s.active) :: ((elist enat s.selection) :: (
    (elist enat s.success) :: ((elist ez s.restarts) :: [])))))

(** val ask_diag : bstate -> (sx, sx) bop -> bstate -> sx * bool **)

let ask_diag s o s' =
  match o with
  | BAsk (rin, scores, chosen, _) ->
    if last_is s.core.last_called CAsk
    then ((SL []), true)
    else let (p, _) = ask_pre s rin in
         let (resel, kept) = p in
         let any = existsb (fun b -> b) resel in
         let keys = ucb_keys s.selection scores in
         let ok =
           if any
           then valid_selection s.num_active kept keys chosen
           else (&&)
                  (forallb (fun p0 -> eqb (fst p0) (snd p0))
                    (combine kept chosen))
                  (Nat.eqb (length kept) (length chosen))
         in
         ((SL
         ((ebool any) :: ((ebool ok) :: ((elist ebool kept) :: ((elist ebool
                                                                  (select
                                                                    s.num_active
                                                                    kept keys)) :: (
         (elist ebool s'.active) :: [])))))), ok)
  | BTell _ ->
    ((SL ((elist enat s'.selection) :: ((elist enat s'.success) :: []))),
      true)
  | _ -> ((SL []), true)

(** val run_bops : bstate -> sx list -> sx list * sx **)

let rec run_bops s = function
| [] -> ([], (ebstate s))
| o :: t ->
  (match dbop o with
   | Some op ->
     let (s', r) = bandit_step status_nz_sx s op in
     let (d, ok) = ask_diag s op s' in
     if ok
     then let (outs, fin) = run_bops s' t in
          (((SL ((eout r) :: (d :: ((esizes s'.core) :: [])))) :: outs), fin)
     else (((SL ((eout r) :: (d :: ((esizes s'.core) :: [])))) :: []),
            (ebstate s'))
   | None -> ((sx_fail :: []), (ebstate s)))

(** val run_C16 : sx -> sx **)

let run_C16 = function
| SZ _ -> sx_fail
| SL l ->
  (match l with
   | [] -> sx_fail
   | n :: l0 ->
     (match l0 with
      | [] -> sx_fail
      | k :: l1 ->
        (match l1 with
         | [] -> sx_fail
         | rm :: l2 ->
           (match l2 with
            | [] -> sx_fail
            | m :: l3 ->
              (match l3 with
               | [] -> sx_fail
               | wr :: l4 ->
                 (match l4 with
                  | [] -> sx_fail
                  | s :: l5 ->
                    (match s with
                     | SZ _ -> sx_fail
                     | SL ops ->
                       (match l5 with
                        | [] ->
                          (match dnat n with
                           | Some nn ->
                             (match dnat k with
                              | Some kk ->
                                (match dbool rm with
                                 | Some rr ->
                                   (match dbool m with
                                    | Some mm ->
                                      (match dbool wr with
                                       | Some ww ->
                                         let (outs, fin) =
                                           run_bops
                                             (bandit_init nn kk
                                               (if rr
                                                then AllActive
                                                else Terminated)
                                               (if mm then Single else Batch)
                                               ww) ops
                                         in
                                         SL ((SL outs) :: (fin :: []))
                                       | None -> sx_fail)
                                    | None -> sx_fail)
                                 | None -> sx_fail)
                              | None -> sx_fail)
                           | None -> sx_fail)
                        | _ :: _ -> sx_fail))))))))
