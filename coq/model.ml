
(** val negb : bool -> bool **)

let negb = function
| true -> false
| false -> true

type nat =
| O
| S of nat

(** val fst : ('a1 * 'a2) -> 'a1 **)

let fst = function
| (x, _) -> x

(** val snd : ('a1 * 'a2) -> 'a2 **)

let snd = function
| (_, y) -> y

(** val length : 'a1 list -> nat **)

let rec length = function
| [] -> O
| _ :: l' -> S (length l')

(** val app : 'a1 list -> 'a1 list -> 'a1 list **)

let rec app l m =
  match l with
  | [] -> m
  | a :: l1 -> a :: (app l1 m)

type comparison =
| Eq
| Lt
| Gt

(** val compOpp : comparison -> comparison **)

let compOpp = function
| Eq -> Eq
| Lt -> Gt
| Gt -> Lt

module Coq__1 = struct
 (** val add : nat -> nat -> nat **)
 let rec add n m =
   match n with
   | O -> m
   | S p -> S (add p m)
end
include Coq__1

(** val mul : nat -> nat -> nat **)

let rec mul n m =
  match n with
  | O -> O
  | S p -> add m (mul p m)

(** val sub : nat -> nat -> nat **)

let rec sub n m =
  match n with
  | O -> n
  | S k -> (match m with
            | O -> n
            | S l -> sub k l)

module Nat =
 struct
  (** val eqb : nat -> nat -> bool **)

  let rec eqb n m =
    match n with
    | O -> (match m with
            | O -> true
            | S _ -> false)
    | S n' -> (match m with
               | O -> false
               | S m' -> eqb n' m')

  (** val leb : nat -> nat -> bool **)

  let rec leb n m =
    match n with
    | O -> true
    | S n' -> (match m with
               | O -> false
               | S m' -> leb n' m')

  (** val ltb : nat -> nat -> bool **)

  let ltb n m =
    leb (S n) m
 end

(** val hd : 'a1 -> 'a1 list -> 'a1 **)

let hd default = function
| [] -> default
| x :: _ -> x

(** val nth : nat -> 'a1 list -> 'a1 -> 'a1 **)

let rec nth n l default =
  match n with
  | O -> (match l with
          | [] -> default
          | x :: _ -> x)
  | S m -> (match l with
            | [] -> default
            | _ :: t -> nth m t default)

(** val nth_error : 'a1 list -> nat -> 'a1 option **)

let rec nth_error l = function
| O -> (match l with
        | [] -> None
        | x :: _ -> Some x)
| S n0 -> (match l with
           | [] -> None
           | _ :: l0 -> nth_error l0 n0)

(** val map : ('a1 -> 'a2) -> 'a1 list -> 'a2 list **)

let rec map f = function
| [] -> []
| a :: t -> (f a) :: (map f t)

(** val fold_left : ('a1 -> 'a2 -> 'a1) -> 'a2 list -> 'a1 -> 'a1 **)

let rec fold_left f l a0 =
  match l with
  | [] -> a0
  | b :: t -> fold_left f t (f a0 b)

(** val fold_right : ('a2 -> 'a1 -> 'a1) -> 'a1 -> 'a2 list -> 'a1 **)

let rec fold_right f a0 = function
| [] -> a0
| b :: t -> f b (fold_right f a0 t)

(** val forallb : ('a1 -> bool) -> 'a1 list -> bool **)

let rec forallb f = function
| [] -> true
| a :: l0 -> (&&) (f a) (forallb f l0)

(** val filter : ('a1 -> bool) -> 'a1 list -> 'a1 list **)

let rec filter f = function
| [] -> []
| x :: l0 -> if f x then x :: (filter f l0) else filter f l0

(** val combine : 'a1 list -> 'a2 list -> ('a1 * 'a2) list **)

let rec combine l l' =
  match l with
  | [] -> []
  | x :: tl ->
    (match l' with
     | [] -> []
     | y :: tl' -> (x, y) :: (combine tl tl'))

(** val firstn : nat -> 'a1 list -> 'a1 list **)

let rec firstn n l =
  match n with
  | O -> []
  | S n0 -> (match l with
             | [] -> []
             | a :: l0 -> a :: (firstn n0 l0))

(** val skipn : nat -> 'a1 list -> 'a1 list **)

let rec skipn n l =
  match n with
  | O -> l
  | S n0 -> (match l with
             | [] -> []
             | _ :: l0 -> skipn n0 l0)

(** val seq : nat -> nat -> nat list **)

let rec seq start = function
| O -> []
| S len1 -> start :: (seq (S start) len1)

(** val repeat : 'a1 -> nat -> 'a1 list **)

let rec repeat x = function
| O -> []
| S k -> x :: (repeat x k)

type positive =
| XI of positive
| XO of positive
| XH

type z =
| Z0
| Zpos of positive
| Zneg of positive

module Pos =
 struct
  type mask =
  | IsNul
  | IsPos of positive
  | IsNeg
 end

module Coq_Pos =
 struct
  (** val succ : positive -> positive **)

  let rec succ = function
  | XI p -> XO (succ p)
  | XO p -> XI p
  | XH -> XO XH

  (** val add : positive -> positive -> positive **)

  let rec add x y =
    match x with
    | XI p ->
      (match y with
       | XI q0 -> XO (add_carry p q0)
       | XO q0 -> XI (add p q0)
       | XH -> XO (succ p))
    | XO p ->
      (match y with
       | XI q0 -> XI (add p q0)
       | XO q0 -> XO (add p q0)
       | XH -> XI p)
    | XH -> (match y with
             | XI q0 -> XO (succ q0)
             | XO q0 -> XI q0
             | XH -> XO XH)

  (** val add_carry : positive -> positive -> positive **)

  and add_carry x y =
    match x with
    | XI p ->
      (match y with
       | XI q0 -> XI (add_carry p q0)
       | XO q0 -> XO (add_carry p q0)
       | XH -> XI (succ p))
    | XO p ->
      (match y with
       | XI q0 -> XO (add_carry p q0)
       | XO q0 -> XI (add p q0)
       | XH -> XO (succ p))
    | XH ->
      (match y with
       | XI q0 -> XI (succ q0)
       | XO q0 -> XO (succ q0)
       | XH -> XI XH)

  (** val pred_double : positive -> positive **)

  let rec pred_double = function
  | XI p -> XI (XO p)
  | XO p -> XI (pred_double p)
  | XH -> XH

  type mask = Pos.mask =
  | IsNul
  | IsPos of positive
  | IsNeg

  (** val succ_double_mask : mask -> mask **)

  let succ_double_mask = function
  | IsNul -> IsPos XH
  | IsPos p -> IsPos (XI p)
  | IsNeg -> IsNeg

  (** val double_mask : mask -> mask **)

  let double_mask = function
  | IsPos p -> IsPos (XO p)
  | x0 -> x0

  (** val double_pred_mask : positive -> mask **)

  let double_pred_mask = function
  | XI p -> IsPos (XO (XO p))
  | XO p -> IsPos (XO (pred_double p))
  | XH -> IsNul

  (** val sub_mask : positive -> positive -> mask **)

  let rec sub_mask x y =
    match x with
    | XI p ->
      (match y with
       | XI q0 -> double_mask (sub_mask p q0)
       | XO q0 -> succ_double_mask (sub_mask p q0)
       | XH -> IsPos (XO p))
    | XO p ->
      (match y with
       | XI q0 -> succ_double_mask (sub_mask_carry p q0)
       | XO q0 -> double_mask (sub_mask p q0)
       | XH -> IsPos (pred_double p))
    | XH -> (match y with
             | XH -> IsNul
             | _ -> IsNeg)

  (** val sub_mask_carry : positive -> positive -> mask **)

  and sub_mask_carry x y =
    match x with
    | XI p ->
      (match y with
       | XI q0 -> succ_double_mask (sub_mask_carry p q0)
       | XO q0 -> double_mask (sub_mask p q0)
       | XH -> IsPos (pred_double p))
    | XO p ->
      (match y with
       | XI q0 -> double_mask (sub_mask_carry p q0)
       | XO q0 -> succ_double_mask (sub_mask_carry p q0)
       | XH -> double_pred_mask p)
    | XH -> IsNeg

  (** val sub : positive -> positive -> positive **)

  let sub x y =
    match sub_mask x y with
    | IsPos z0 -> z0
    | _ -> XH

  (** val mul : positive -> positive -> positive **)

  let rec mul x y =
    match x with
    | XI p -> add y (XO (mul p y))
    | XO p -> XO (mul p y)
    | XH -> y

  (** val size_nat : positive -> nat **)

  let rec size_nat = function
  | XI p0 -> S (size_nat p0)
  | XO p0 -> S (size_nat p0)
  | XH -> S O

  (** val compare_cont : comparison -> positive -> positive -> comparison **)

  let rec compare_cont r x y =
    match x with
    | XI p ->
      (match y with
       | XI q0 -> compare_cont r p q0
       | XO q0 -> compare_cont Gt p q0
       | XH -> Gt)
    | XO p ->
      (match y with
       | XI q0 -> compare_cont Lt p q0
       | XO q0 -> compare_cont r p q0
       | XH -> Gt)
    | XH -> (match y with
             | XH -> r
             | _ -> Lt)

  (** val compare : positive -> positive -> comparison **)

  let compare =
    compare_cont Eq

  (** val ggcdn :
      nat -> positive -> positive -> positive * (positive * positive) **)

  let rec ggcdn n a b =
    match n with
    | O -> (XH, (a, b))
    | S n0 ->
      (match a with
       | XI a' ->
         (match b with
          | XI b' ->
            (match compare a' b' with
             | Eq -> (a, (XH, XH))
             | Lt ->
               let (g, p) = ggcdn n0 (sub b' a') a in
               let (ba, aa) = p in (g, (aa, (add aa (XO ba))))
             | Gt ->
               let (g, p) = ggcdn n0 (sub a' b') b in
               let (ab, bb) = p in (g, ((add bb (XO ab)), bb)))
          | XO b0 ->
            let (g, p) = ggcdn n0 a b0 in
            let (aa, bb) = p in (g, (aa, (XO bb)))
          | XH -> (XH, (a, XH)))
       | XO a0 ->
         (match b with
          | XI _ ->
            let (g, p) = ggcdn n0 a0 b in
            let (aa, bb) = p in (g, ((XO aa), bb))
          | XO b0 -> let (g, p) = ggcdn n0 a0 b0 in ((XO g), p)
          | XH -> (XH, (a, XH)))
       | XH -> (XH, (XH, b)))

  (** val ggcd : positive -> positive -> positive * (positive * positive) **)

  let ggcd a b =
    ggcdn (Coq__1.add (size_nat a) (size_nat b)) a b

  (** val iter_op : ('a1 -> 'a1 -> 'a1) -> positive -> 'a1 -> 'a1 **)

  let rec iter_op op p a =
    match p with
    | XI p0 -> op a (iter_op op p0 (op a a))
    | XO p0 -> iter_op op p0 (op a a)
    | XH -> a

  (** val to_nat : positive -> nat **)

  let to_nat x =
    iter_op Coq__1.add x (S O)

  (** val of_succ_nat : nat -> positive **)

  let rec of_succ_nat = function
  | O -> XH
  | S x -> succ (of_succ_nat x)
 end

module Z =
 struct
  (** val double : z -> z **)

  let double = function
  | Z0 -> Z0
  | Zpos p -> Zpos (XO p)
  | Zneg p -> Zneg (XO p)

  (** val succ_double : z -> z **)

  let succ_double = function
  | Z0 -> Zpos XH
  | Zpos p -> Zpos (XI p)
  | Zneg p -> Zneg (Coq_Pos.pred_double p)

  (** val pred_double : z -> z **)

  let pred_double = function
  | Z0 -> Zneg XH
  | Zpos p -> Zpos (Coq_Pos.pred_double p)
  | Zneg p -> Zneg (XI p)

  (** val pos_sub : positive -> positive -> z **)

  let rec pos_sub x y =
    match x with
    | XI p ->
      (match y with
       | XI q0 -> double (pos_sub p q0)
       | XO q0 -> succ_double (pos_sub p q0)
       | XH -> Zpos (XO p))
    | XO p ->
      (match y with
       | XI q0 -> pred_double (pos_sub p q0)
       | XO q0 -> double (pos_sub p q0)
       | XH -> Zpos (Coq_Pos.pred_double p))
    | XH ->
      (match y with
       | XI q0 -> Zneg (XO q0)
       | XO q0 -> Zneg (Coq_Pos.pred_double q0)
       | XH -> Z0)

  (** val add : z -> z -> z **)

  let add x y =
    match x with
    | Z0 -> y
    | Zpos x' ->
      (match y with
       | Z0 -> x
       | Zpos y' -> Zpos (Coq_Pos.add x' y')
       | Zneg y' -> pos_sub x' y')
    | Zneg x' ->
      (match y with
       | Z0 -> x
       | Zpos y' -> pos_sub y' x'
       | Zneg y' -> Zneg (Coq_Pos.add x' y'))

  (** val opp : z -> z **)

  let opp = function
  | Z0 -> Z0
  | Zpos x0 -> Zneg x0
  | Zneg x0 -> Zpos x0

  (** val mul : z -> z -> z **)

  let mul x y =
    match x with
    | Z0 -> Z0
    | Zpos x' ->
      (match y with
       | Z0 -> Z0
       | Zpos y' -> Zpos (Coq_Pos.mul x' y')
       | Zneg y' -> Zneg (Coq_Pos.mul x' y'))
    | Zneg x' ->
      (match y with
       | Z0 -> Z0
       | Zpos y' -> Zneg (Coq_Pos.mul x' y')
       | Zneg y' -> Zpos (Coq_Pos.mul x' y'))

  (** val compare : z -> z -> comparison **)

  let compare x y =
    match x with
    | Z0 -> (match y with
             | Z0 -> Eq
             | Zpos _ -> Lt
             | Zneg _ -> Gt)
    | Zpos x' -> (match y with
                  | Zpos y' -> Coq_Pos.compare x' y'
                  | _ -> Gt)
    | Zneg x' ->
      (match y with
       | Zneg y' -> compOpp (Coq_Pos.compare x' y')
       | _ -> Lt)

  (** val sgn : z -> z **)

  let sgn = function
  | Z0 -> Z0
  | Zpos _ -> Zpos XH
  | Zneg _ -> Zneg XH

  (** val leb : z -> z -> bool **)

  let leb x y =
    match compare x y with
    | Gt -> false
    | _ -> true

  (** val ltb : z -> z -> bool **)

  let ltb x y =
    match compare x y with
    | Lt -> true
    | _ -> false

  (** val abs : z -> z **)

  let abs = function
  | Zneg p -> Zpos p
  | x -> x

  (** val to_nat : z -> nat **)

  let to_nat = function
  | Zpos p -> Coq_Pos.to_nat p
  | _ -> O

  (** val of_nat : nat -> z **)

  let of_nat = function
  | O -> Z0
  | S n0 -> Zpos (Coq_Pos.of_succ_nat n0)

  (** val to_pos : z -> positive **)

  let to_pos = function
  | Zpos p -> p
  | _ -> XH

  (** val ggcd : z -> z -> z * (z * z) **)

  let ggcd a b =
    match a with
    | Z0 -> ((abs b), (Z0, (sgn b)))
    | Zpos a0 ->
      (match b with
       | Z0 -> ((abs a), ((sgn a), Z0))
       | Zpos b0 ->
         let (g, p) = Coq_Pos.ggcd a0 b0 in
         let (aa, bb) = p in ((Zpos g), ((Zpos aa), (Zpos bb)))
       | Zneg b0 ->
         let (g, p) = Coq_Pos.ggcd a0 b0 in
         let (aa, bb) = p in ((Zpos g), ((Zpos aa), (Zneg bb))))
    | Zneg a0 ->
      (match b with
       | Z0 -> ((abs a), ((sgn a), Z0))
       | Zpos b0 ->
         let (g, p) = Coq_Pos.ggcd a0 b0 in
         let (aa, bb) = p in ((Zpos g), ((Zneg aa), (Zpos bb)))
       | Zneg b0 ->
         let (g, p) = Coq_Pos.ggcd a0 b0 in
         let (aa, bb) = p in ((Zpos g), ((Zneg aa), (Zneg bb))))
 end

type q = { qnum : z; qden : positive }

(** val qle_bool : q -> q -> bool **)

let qle_bool x y =
  Z.leb (Z.mul x.qnum (Zpos y.qden)) (Z.mul y.qnum (Zpos x.qden))

(** val qplus : q -> q -> q **)

let qplus x y =
  { qnum = (Z.add (Z.mul x.qnum (Zpos y.qden)) (Z.mul y.qnum (Zpos x.qden)));
    qden = (Coq_Pos.mul x.qden y.qden) }

(** val qmult : q -> q -> q **)

let qmult x y =
  { qnum = (Z.mul x.qnum y.qnum); qden = (Coq_Pos.mul x.qden y.qden) }

(** val qopp : q -> q **)

let qopp x =
  { qnum = (Z.opp x.qnum); qden = x.qden }

(** val qminus : q -> q -> q **)

let qminus x y =
  qplus x (qopp y)

(** val qred : q -> q **)

let qred q0 =
  let { qnum = q1; qden = q2 } = q0 in
  let (r1, r2) = snd (Z.ggcd q1 (Zpos q2)) in
  { qnum = r1; qden = (Z.to_pos r2) }

type sx =
| SZ of z
| SL of sx list

(** val sx_fail : sx **)

let sx_fail =
  SL ((SZ (Zneg (XI (XI (XI (XO (XO (XI (XI (XI (XI XH))))))))))) :: [])

(** val dz : sx -> z option **)

let dz = function
| SZ z0 -> Some z0
| SL _ -> None

(** val dnat : sx -> nat option **)

let dnat = function
| SZ z0 -> if Z.ltb z0 Z0 then None else Some (Z.to_nat z0)
| SL _ -> None

(** val dbool : sx -> bool option **)

let dbool = function
| SZ z0 ->
  (match z0 with
   | Z0 -> Some false
   | Zpos p -> (match p with
                | XH -> Some true
                | _ -> None)
   | Zneg _ -> None)
| SL _ -> None

(** val opt_all : 'a1 option list -> 'a1 list option **)

let rec opt_all = function
| [] -> Some []
| o :: t ->
  (match o with
   | Some x -> (match opt_all t with
                | Some r -> Some (x :: r)
                | None -> None)
   | None -> None)

(** val dlist : (sx -> 'a1 option) -> sx -> 'a1 list option **)

let dlist f = function
| SZ _ -> None
| SL l -> opt_all (map f l)

(** val dq : sx -> q option **)

let dq = function
| SZ _ -> None
| SL l ->
  (match l with
   | [] -> None
   | s0 :: l0 ->
     (match s0 with
      | SZ n ->
        (match l0 with
         | [] -> None
         | s1 :: l1 ->
           (match s1 with
            | SZ d ->
              (match l1 with
               | [] ->
                 if Z.ltb Z0 d
                 then Some { qnum = n; qden = (Z.to_pos d) }
                 else None
               | _ :: _ -> None)
            | SL _ -> None))
      | SL _ -> None))

(** val dopt : (sx -> 'a1 option) -> sx -> 'a1 option option **)

let dopt f = function
| SZ _ -> None
| SL l ->
  (match l with
   | [] -> Some None
   | x :: l0 ->
     (match l0 with
      | [] -> (match f x with
               | Some v -> Some (Some v)
               | None -> None)
      | _ :: _ -> None))

(** val ez : z -> sx **)

let ez z0 =
  SZ z0

(** val enat : nat -> sx **)

let enat n =
  SZ (Z.of_nat n)

(** val ebool : bool -> sx **)

let ebool b =
  SZ (if b then Zpos XH else Z0)

(** val elist : ('a1 -> sx) -> 'a1 list -> sx **)

let elist f l =
  SL (map f l)

(** val eq_ : q -> sx **)

let eq_ q0 =
  let r = qred q0 in SL ((SZ r.qnum) :: ((SZ (Zpos r.qden)) :: []))

(** val eopt : ('a1 -> sx) -> 'a1 option -> sx **)

let eopt f = function
| Some x -> SL ((f x) :: [])
| None -> SL []

(** val upd : 'a1 list -> nat -> 'a1 -> 'a1 list **)

let rec upd l i x =
  match l with
  | [] -> []
  | h :: t -> (match i with
               | O -> x :: t
               | S j -> h :: (upd t j x))

(** val insert_uniq : nat -> nat list -> nat list **)

let rec insert_uniq i l = match l with
| [] -> i :: []
| j :: t ->
  if Nat.ltb i j
  then i :: l
  else if Nat.eqb i j then l else j :: (insert_uniq i t)

(** val sort_uniq : nat list -> nat list **)

let sort_uniq l =
  fold_right insert_uniq [] l

type err =
| ValueError
| IndexError
| RuntimeError
| KeyError
| TypeError
| StopIteration
| OtherError

type 'a result =
| Ok of 'a
| Err of err

type 'r store = { cap : nat; occ : bool list; olist : nat list;
                  rows : 'r option list; nadd : nat; nclear : nat }

(** val init : nat -> 'a1 store **)

let init c =
  { cap = c; occ = (repeat false c); olist = []; rows = (repeat None c);
    nadd = O; nclear = O }

(** val get_occ : 'a1 store -> nat -> bool **)

let get_occ s i =
  nth i s.occ false

(** val get_row : 'a1 store -> nat -> 'a1 option **)

let get_row s i =
  nth i s.rows None

(** val len : 'a1 store -> nat **)

let len s =
  length s.olist

(** val in_range : 'a1 store -> nat list -> bool **)

let in_range s idxs =
  forallb (fun i -> Nat.ltb i s.cap) idxs

(** val retrieve :
    'a1 store -> nat list -> (bool * 'a1 option) list result **)

let retrieve s idxs =
  if in_range s idxs
  then Ok (map (fun i -> ((get_occ s i), (get_row s i))) idxs)
  else Err IndexError

(** val data : 'a1 store -> (nat * 'a1 option) list **)

let data s =
  map (fun i -> (i, (get_row s i))) s.olist

(** val new_indices : 'a1 store -> nat list -> nat list **)

let new_indices s idxs =
  filter (fun i -> negb (get_occ s i)) (sort_uniq idxs)

(** val write_rows :
    'a1 option list -> nat list -> 'a1 list -> 'a1 option list **)

let write_rows rs idxs xs =
  fold_left (fun r ix -> upd r (fst ix) (Some (snd ix))) (combine idxs xs) rs

(** val mark : bool list -> nat list -> bool list **)

let mark o new0 =
  fold_left (fun o0 i -> upd o0 i true) new0 o

(** val bump_add : 'a1 store -> 'a1 store **)

let bump_add s =
  { cap = s.cap; occ = s.occ; olist = s.olist; rows = s.rows; nadd = (S
    s.nadd); nclear = s.nclear }

(** val add_raw :
    'a1 store -> nat list -> 'a1 list -> bool -> 'a1 store * unit result **)

let add_raw s idxs xs keys_ok =
  if Nat.eqb (length idxs) O
  then (s, (Ok ()))
  else if negb (Nat.eqb (length idxs) (length xs))
       then (s, (Err ValueError))
       else if negb keys_ok
            then (s, (Err ValueError))
            else if negb (in_range s idxs)
                 then (s, (Err IndexError))
                 else let new0 = new_indices s idxs in
                      ({ cap = s.cap; occ = (mark s.occ new0); olist =
                      (app s.olist new0); rows = (write_rows s.rows idxs xs);
                      nadd = s.nadd; nclear = s.nclear }, (Ok ()))

type 'r transform =
  nat list -> 'r list -> (bool * 'r option) list -> nat list * 'r list

(** val run_transforms :
    'a1 store -> 'a1 transform list -> nat list -> 'a1 list -> (nat
    list * 'a1 list) result **)

let rec run_transforms s ts idxs xs =
  match ts with
  | [] -> Ok (idxs, xs)
  | t :: ts' ->
    (match retrieve s idxs with
     | Ok view -> let (i', x') = t idxs xs view in run_transforms s ts' i' x'
     | Err e -> Err e)

(** val add0 :
    'a1 store -> nat list -> 'a1 list -> 'a1 transform list -> bool -> 'a1
    store * unit result **)

let add0 s idxs xs ts keys_ok =
  let s1 = bump_add s in
  (match run_transforms s1 ts idxs xs with
   | Ok a -> let (i', x') = a in add_raw s1 i' x' keys_ok
   | Err e -> (s1, (Err e)))

(** val clear : 'a1 store -> 'a1 store **)

let clear s =
  { cap = s.cap; occ = (repeat false s.cap); olist = []; rows = s.rows;
    nadd = s.nadd; nclear = (S s.nclear) }

(** val resize : 'a1 store -> nat -> 'a1 store * unit result **)

let resize s c =
  if Nat.leb c s.cap
  then (s, (Err ValueError))
  else ({ cap = c; occ = (app s.occ (repeat false (sub c s.cap))); olist =
         s.olist; rows = (app s.rows (repeat None (sub c s.cap))); nadd =
         s.nadd; nclear = s.nclear }, (Ok ()))

type 'r raw = { r_cap : nat; r_occ : bool list; r_nocc : nat;
                r_olist : nat list; r_rows : 'r option list; r_nadd : 
                nat; r_nclear : nat }

(** val as_raw : 'a1 store -> 'a1 raw **)

let as_raw s =
  { r_cap = s.cap; r_occ = s.occ; r_nocc = (length s.olist); r_olist =
    s.olist; r_rows = s.rows; r_nadd = s.nadd; r_nclear = s.nclear }

(** val from_raw : 'a1 raw -> 'a1 store **)

let from_raw r =
  { cap = r.r_cap; occ = r.r_occ; olist = (firstn r.r_nocc r.r_olist); rows =
    r.r_rows; nadd = r.r_nadd; nclear = r.r_nclear }

type iter = { it_pos : nat; it_add : nat; it_clear : nat }

(** val iter_new : 'a1 store -> iter **)

let iter_new s =
  { it_pos = O; it_add = s.nadd; it_clear = s.nclear }

type 'r iter_out =
| Yield of nat * 'r option
| Stop
| Modified

(** val iter_next : 'a1 store -> iter -> iter * 'a1 iter_out **)

let iter_next s it =
  if negb ((&&) (Nat.eqb it.it_add s.nadd) (Nat.eqb it.it_clear s.nclear))
  then (it, Modified)
  else if Nat.leb (len s) it.it_pos
       then (it, Stop)
       else let i = nth it.it_pos s.olist O in
            ({ it_pos = (S it.it_pos); it_add = it.it_add; it_clear =
            it.it_clear }, (Yield (i, (get_row s i))))

(** val qabs : q -> q **)

let qabs x =
  let { qnum = n; qden = d } = x in { qnum = (Z.abs n); qden = d }

type ebound = q option

type row = q list

type matrix = row list

(** val map2 : ('a1 -> 'a2 -> 'a3) -> 'a1 list -> 'a2 list -> 'a3 list **)

let rec map2 f l1 l2 =
  match l1 with
  | [] -> []
  | a :: t1 -> (match l2 with
                | [] -> []
                | b :: t2 -> (f a b) :: (map2 f t1 t2))

(** val tabulate : nat -> (nat -> 'a1) -> 'a1 list **)

let tabulate n f =
  map f (seq O n)

(** val vadd : row -> row -> row **)

let vadd a b =
  map2 qplus a b

(** val vsub : row -> row -> row **)

let vsub a b =
  map2 qminus a b

(** val vscale : q -> row -> row **)

let vscale g a =
  map (qmult g) a

type bentry = q option list option

(** val process_entry : bentry -> (ebound * ebound) result **)

let process_entry = function
| Some l0 ->
  (match l0 with
   | [] -> Err ValueError
   | l :: l1 ->
     (match l1 with
      | [] -> Err ValueError
      | h :: l2 -> (match l2 with
                    | [] -> Ok (l, h)
                    | _ :: _ -> Err ValueError)))
| None -> Ok (None, None)

(** val process_entries :
    bentry list -> (ebound list * ebound list) result **)

let rec process_entries = function
| [] -> Ok ([], [])
| b :: t ->
  (match process_entry b with
   | Ok a ->
     let (l, h) = a in
     (match process_entries t with
      | Ok a0 -> let (ls, hs) = a0 in Ok ((l :: ls), (h :: hs))
      | Err e -> Err e)
   | Err e -> Err e)

(** val process_bounds :
    bentry list option -> nat -> (ebound list * ebound list) result **)

let process_bounds bounds dim =
  match bounds with
  | Some bs ->
    if Nat.eqb (length bs) dim then process_entries bs else Err ValueError
  | None -> Ok ((repeat None dim), (repeat None dim))

(** val qmax : q -> q -> q **)

let qmax a b =
  if qle_bool b a then a else b

(** val qmin : q -> q -> q **)

let qmin a b =
  if qle_bool a b then a else b

(** val clip_lo : q -> ebound -> q **)

let clip_lo x = function
| Some l -> qmax x l
| None -> x

(** val clip_hi : q -> ebound -> q **)

let clip_hi x = function
| Some h -> qmin x h
| None -> x

(** val clip : q -> ebound -> ebound -> q **)

let clip x lo hi =
  clip_hi (clip_lo x lo) hi

(** val clip_row : row -> ebound list -> ebound list -> row **)

let rec clip_row r lo hi =
  match r with
  | [] -> []
  | x :: t ->
    (match lo with
     | [] -> []
     | l :: lt ->
       (match hi with
        | [] -> []
        | h :: ht -> (clip x l h) :: (clip_row t lt ht)))

(** val clip_matrix : matrix -> ebound list -> ebound list -> matrix **)

let clip_matrix m lo hi =
  map (fun r -> clip_row r lo hi) m

(** val oob : q -> ebound -> ebound -> bool **)

let oob x lo hi =
  (||) (match lo with
        | Some l -> negb (qle_bool l x)
        | None -> false)
    (match hi with
     | Some h -> negb (qle_bool x h)
     | None -> false)

(** val row_oob : row -> ebound list -> ebound list -> bool **)

let rec row_oob r lo hi =
  match r with
  | [] -> false
  | x :: t ->
    (match lo with
     | [] -> false
     | l :: lt ->
       (match hi with
        | [] -> false
        | h :: ht -> (||) (oob x l h) (row_oob t lt ht)))

type ecfg = { e_batch : nat; e_dim : nat; e_x0 : row; e_init : matrix option;
              e_lo : ebound list; e_hi : ebound list }

(** val sample_elites : matrix -> nat -> (nat -> nat) -> matrix result **)

let sample_elites elites n ints =
  match elites with
  | [] -> Err IndexError
  | _ :: _ -> Ok (tabulate n (fun k -> nth (ints k) elites []))

(** val parents_of : ecfg -> matrix -> nat -> (nat -> nat) -> matrix **)

let parents_of c elites n ints =
  match sample_elites elites n ints with
  | Ok ps -> ps
  | Err _ -> repeat c.e_x0 n

(** val draw_matrix : nat -> nat -> (nat -> nat -> q) -> matrix **)

let draw_matrix b d z0 =
  tabulate b (fun i -> tabulate d (z0 i))

(** val gaussian_op :
    ebound list -> ebound list -> matrix -> matrix -> matrix **)

let gaussian_op lo hi parents noise =
  clip_matrix (map2 vadd parents noise) lo hi

(** val isoline_row : row -> row -> row -> q -> row **)

let isoline_row e p1 iso g =
  vadd (vadd e iso) (vscale g (vsub p1 e))

(** val isoline_rows : matrix -> matrix -> matrix -> q list -> matrix **)

let rec isoline_rows p0 p1 iso line =
  match p0 with
  | [] -> []
  | e :: t0 ->
    (match p1 with
     | [] -> []
     | q0 :: t1 ->
       (match iso with
        | [] -> []
        | n :: tn ->
          (match line with
           | [] -> []
           | g :: tg -> (isoline_row e q0 n g) :: (isoline_rows t0 t1 tn tg))))

(** val isoline_op :
    ebound list -> ebound list -> matrix -> matrix -> matrix -> q list ->
    matrix **)

let isoline_op lo hi p0 p1 iso line =
  clip_matrix (isoline_rows p0 p1 iso line) lo hi

(** val gaussian_ask :
    ecfg -> matrix -> (nat -> nat) -> (nat -> nat -> q) -> matrix **)

let gaussian_ask c elites ints z0 =
  match elites with
  | [] ->
    (match c.e_init with
     | Some ini -> clip_matrix ini c.e_lo c.e_hi
     | None ->
       gaussian_op c.e_lo c.e_hi (parents_of c elites c.e_batch ints)
         (draw_matrix c.e_batch c.e_dim z0))
  | _ :: _ ->
    gaussian_op c.e_lo c.e_hi (parents_of c elites c.e_batch ints)
      (draw_matrix c.e_batch c.e_dim z0)

(** val isoline_ask :
    ecfg -> matrix -> (nat -> nat) -> (nat -> nat -> q) -> (nat -> q) ->
    matrix **)

let isoline_ask c elites ints iso line =
  match elites with
  | [] ->
    (match c.e_init with
     | Some ini -> clip_matrix ini c.e_lo c.e_hi
     | None ->
       let ps = parents_of c elites (mul (S (S O)) c.e_batch) ints in
       isoline_op c.e_lo c.e_hi (firstn c.e_batch ps) (skipn c.e_batch ps)
         (draw_matrix c.e_batch c.e_dim iso) (tabulate c.e_batch line))
  | _ :: _ ->
    let ps = parents_of c elites (mul (S (S O)) c.e_batch) ints in
    isoline_op c.e_lo c.e_hi (firstn c.e_batch ps) (skipn c.e_batch ps)
      (draw_matrix c.e_batch c.e_dim iso) (tabulate c.e_batch line)

type operator =
| OpGaussian
| OpIsoLine

(** val parent_type : operator -> nat **)

let parent_type = function
| OpGaussian -> S O
| OpIsoLine -> S (S O)

(** val ga_ask :
    ecfg -> operator -> matrix -> (nat -> nat) -> (nat -> nat -> q) -> (nat
    -> q) -> matrix **)

let ga_ask c o elites ints z0 line =
  match elites with
  | [] ->
    (match c.e_init with
     | Some ini -> clip_matrix ini c.e_lo c.e_hi
     | None ->
       if Nat.eqb (parent_type o) (S (S O))
       then let ps = parents_of c elites (mul (S (S O)) c.e_batch) ints in
            isoline_op c.e_lo c.e_hi (firstn c.e_batch ps)
              (skipn c.e_batch ps) (draw_matrix c.e_batch c.e_dim z0)
              (tabulate c.e_batch line)
       else gaussian_op c.e_lo c.e_hi (parents_of c elites c.e_batch ints)
              (draw_matrix c.e_batch c.e_dim z0))
  | _ :: _ ->
    if Nat.eqb (parent_type o) (S (S O))
    then let ps = parents_of c elites (mul (S (S O)) c.e_batch) ints in
         isoline_op c.e_lo c.e_hi (firstn c.e_batch ps) (skipn c.e_batch ps)
           (draw_matrix c.e_batch c.e_dim z0) (tabulate c.e_batch line)
    else gaussian_op c.e_lo c.e_hi (parents_of c elites c.e_batch ints)
           (draw_matrix c.e_batch c.e_dim z0)

(** val dqd_line_rows : matrix -> matrix -> matrix -> q list -> matrix **)

let rec dqd_line_rows ps others noise line =
  match ps with
  | [] -> []
  | p :: tp ->
    (match others with
     | [] -> []
     | o :: to0 ->
       (match noise with
        | [] -> []
        | n :: tn ->
          (match line with
           | [] -> []
           | g :: tg ->
             (vadd (vadd p (vscale g (vsub o p))) n) :: (dqd_line_rows tp to0
                                                          tn tg))))

(** val go_ask_dqd :
    ecfg -> bool -> matrix -> (nat -> nat) -> (nat -> nat -> q) -> (nat -> q)
    -> matrix **)

let go_ask_dqd c isolinedd elites ints z0 line =
  match elites with
  | [] ->
    (match c.e_init with
     | Some _ -> []
     | None ->
       let b = c.e_batch in
       let parents = parents_of c elites b ints in
       let noise = draw_matrix b c.e_dim z0 in
       if isolinedd
       then let others = parents_of c elites b (fun k -> ints (add b k)) in
            clip_matrix
              (dqd_line_rows parents others noise (tabulate b line)) c.e_lo
              c.e_hi
       else clip_matrix (map2 vadd parents noise) c.e_lo c.e_hi)
  | _ :: _ ->
    let b = c.e_batch in
    let parents = parents_of c elites b ints in
    let noise = draw_matrix b c.e_dim z0 in
    if isolinedd
    then let others = parents_of c elites b (fun k -> ints (add b k)) in
         clip_matrix (dqd_line_rows parents others noise (tabulate b line))
           c.e_lo c.e_hi
    else clip_matrix (map2 vadd parents noise) c.e_lo c.e_hi

(** val lincomb : row -> q list -> matrix -> row **)

let rec lincomb base coeffs jac =
  match coeffs with
  | [] -> base
  | g :: tc ->
    (match jac with
     | [] -> base
     | r :: tj -> lincomb (vadd base (vscale g r)) tc tj)

(** val zero_row : nat -> row **)

let zero_row d =
  repeat { qnum = Z0; qden = XH } d

(** val go_coeffs : nat -> nat -> (nat -> nat -> q) -> matrix **)

let go_coeffs b m1 z0 =
  tabulate b (fun i ->
    tabulate m1 (fun j -> if Nat.eqb j O then qabs (z0 i j) else z0 i j))

(** val go_ask :
    ecfg -> bool -> matrix -> matrix -> matrix list option -> q -> nat ->
    (nat -> nat -> q) -> matrix result **)

let go_ask c mg elites parents jac sigma_g m1 z0 =
  match elites with
  | [] ->
    (match c.e_init with
     | Some ini -> Ok (clip_matrix ini c.e_lo c.e_hi)
     | None ->
       (match jac with
        | Some j ->
          let sols =
            if mg
            then map2 (fun pj cf ->
                   vadd (lincomb (zero_row c.e_dim) cf (snd pj)) (fst pj))
                   (combine parents j) (go_coeffs (length j) m1 z0)
            else map2 (fun p ji -> vadd p (vscale sigma_g (hd [] ji)))
                   parents j
          in
          Ok (clip_matrix sols c.e_lo c.e_hi)
        | None -> Err RuntimeError))
  | _ :: _ ->
    (match jac with
     | Some j ->
       let sols =
         if mg
         then map2 (fun pj cf ->
                vadd (lincomb (zero_row c.e_dim) cf (snd pj)) (fst pj))
                (combine parents j) (go_coeffs (length j) m1 z0)
         else map2 (fun p ji -> vadd p (vscale sigma_g (hd [] ji))) parents j
       in
       Ok (clip_matrix sols c.e_lo c.e_hi)
     | None -> Err RuntimeError)

(** val gae_ask : row -> matrix -> matrix -> matrix **)

let gae_ask theta jac coeffs =
  map (fun cf -> vadd theta (lincomb (zero_row (length theta)) cf jac)) coeffs

type rs_result =
| RsDone of matrix * nat list * nat
| RsNeed of nat
| RsFuel

(** val write_slots :
    (row * nat) list -> nat list -> (row * nat) list -> (row * nat) list **)

let rec write_slots sols idx cand =
  match idx with
  | [] -> sols
  | i :: ti ->
    (match cand with
     | [] -> sols
     | x :: tc -> write_slots (upd sols i x) ti tc)

(** val still_oob :
    ebound list -> ebound list -> nat list -> matrix -> nat list **)

let rec still_oob lo hi idx cand =
  match idx with
  | [] -> []
  | i :: ti ->
    (match cand with
     | [] -> []
     | x :: tc ->
       if row_oob x lo hi
       then i :: (still_oob lo hi ti tc)
       else still_oob lo hi ti tc)

(** val resample :
    nat -> ebound list -> ebound list -> matrix -> nat -> (row * nat) list ->
    nat list -> rs_result **)

let rec resample fuel lo hi stream pos sols remaining = match remaining with
| [] -> RsDone ((map fst sols), (map snd sols), pos)
| _ :: _ ->
  (match fuel with
   | O -> RsFuel
   | S f ->
     let k = length remaining in
     if Nat.ltb (length stream) k
     then RsNeed k
     else let cand = firstn k stream in
          resample f lo hi (skipn k stream) (add pos k)
            (write_slots sols remaining (combine cand (seq pos k)))
            (still_oob lo hi remaining cand))

(** val es_ask :
    nat -> ebound list -> ebound list -> nat -> matrix -> rs_result **)

let es_ask fuel lo hi batch stream =
  match batch with
  | O -> RsDone ([], [], O)
  | S _ -> resample fuel lo hi stream O (repeat ([], O) batch) (seq O batch)

type dt =
| F32
| F64

(** val promote : dt -> dt -> dt **)

let promote a b =
  match a with
  | F32 -> b
  | F64 -> F64

(** val astype : dt -> dt -> dt **)

let astype target _ =
  target

type es_kind =
| CmaEs
| SepCmaEs
| LmMaEs
| OpenAiEs
| PyCmaEs

type akind =
| KGaussian of bool
| KIsoLine of bool
| KGA of operator * bool
| KES of es_kind
| KGoDqd of bool * bool
| KGoAsk of bool * bool
| KGaeDqd
| KGaeAsk of es_kind

(** val bounds_dt : bool -> dt -> dt -> dt **)

let bounds_dt fixed sd md =
  if fixed then sd else md

(** val cast_out : bool -> dt -> dt -> dt **)

let cast_out fixed sd x =
  if fixed then astype sd x else x

(** val es_out_dtype : es_kind -> dt -> dt **)

let es_out_dtype e sd =
  match e with
  | PyCmaEs -> astype sd F64
  | _ -> sd

(** val out_dtype : bool -> akind -> dt -> dt -> dt -> dt **)

let out_dtype fixed k sd md jd =
  let bd = bounds_dt fixed sd md in
  let noise = astype sd F64 in
  let gauss = promote (promote sd noise) bd in
  let iso =
    promote (promote (promote sd noise) (promote noise (promote sd sd))) bd
  in
  let init0 = promote sd bd in
  (match k with
   | KGaussian init_path -> if init_path then init0 else gauss
   | KIsoLine init_path -> if init_path then init0 else iso
   | KGA (o, init_path) ->
     (match o with
      | OpGaussian -> if init_path then init0 else gauss
      | OpIsoLine -> if init_path then init0 else iso)
   | KES e -> es_out_dtype e sd
   | KGoDqd (isolinedd, init_path) ->
     if isolinedd
     then if init_path then if fixed then sd else F64 else iso
     else if init_path then if fixed then sd else F64 else gauss
   | KGoAsk (mg, init_path) ->
     if mg
     then if init_path
          then if fixed then init0 else sd
          else cast_out fixed sd (promote (promote jd F64) gauss)
     else if init_path
          then if fixed then init0 else sd
          else cast_out fixed sd (promote gauss (promote jd sd))
   | KGaeDqd -> sd
   | KGaeAsk e ->
     cast_out fixed sd (promote sd (promote jd (es_out_dtype e sd))))

type ask_call =
| AGaussian of ecfg * matrix * (nat -> nat) * (nat -> nat -> q)
| AIsoLine of ecfg * matrix * (nat -> nat) * (nat -> nat -> q) * (nat -> q)
| AGA of ecfg * operator * matrix * (nat -> nat) * (nat -> nat -> q)
   * (nat -> q)
| AGoDqd of ecfg * bool * matrix * (nat -> nat) * (nat -> nat -> q)
   * (nat -> q)
| AGoAsk of ecfg * bool * matrix * matrix * matrix list option * q * 
   nat * (nat -> nat -> q)

(** val run_ask : ask_call -> matrix result **)

let run_ask = function
| AGaussian (c, e, ints, z0) -> Ok (gaussian_ask c e ints z0)
| AIsoLine (c, e, ints, iso, line) -> Ok (isoline_ask c e ints iso line)
| AGA (c, o, e, ints, z0, line) -> Ok (ga_ask c o e ints z0 line)
| AGoDqd (c, l, e, ints, z0, line) -> Ok (go_ask_dqd c l e ints z0 line)
| AGoAsk (c, mg, e, ps, jac, sg, m1, z0) -> go_ask c mg e ps jac sg m1 z0

(** val err_code8 : err -> z **)

let err_code8 = function
| ValueError -> Zpos XH
| IndexError -> Zpos (XO XH)
| RuntimeError -> Zpos (XI XH)
| KeyError -> Zpos (XO (XO XH))
| TypeError -> Zpos (XI (XO XH))
| StopIteration -> Zpos (XO (XI XH))
| OtherError -> Zpos (XI (XI XH))

(** val drow : sx -> row option **)

let drow =
  dlist dq

(** val dmatrix : sx -> matrix option **)

let dmatrix =
  dlist drow

(** val dbound : sx -> ebound option **)

let dbound =
  dopt dq

(** val dbentry : sx -> bentry option **)

let dbentry =
  dopt (dlist (dopt dq))

(** val erow : row -> sx **)

let erow r =
  elist eq_ r

(** val ematrix : matrix -> sx **)

let ematrix m =
  elist erow m

(** val ebounds : ebound list -> sx **)

let ebounds l =
  elist (eopt eq_) l

(** val fn1 : q list -> nat -> q **)

let fn1 l i =
  nth i l { qnum = Z0; qden = XH }

(** val fn2 : matrix -> nat -> nat -> q **)

let fn2 m i j =
  nth j (nth i m []) { qnum = Z0; qden = XH }

(** val fnn : nat list -> nat -> nat **)

let fnn l i =
  nth i l O

(** val dcfg : sx -> ecfg option **)

let dcfg = function
| SZ _ -> None
| SL l ->
  (match l with
   | [] -> None
   | b :: l0 ->
     (match l0 with
      | [] -> None
      | d :: l1 ->
        (match l1 with
         | [] -> None
         | x0 :: l2 ->
           (match l2 with
            | [] -> None
            | ini :: l3 ->
              (match l3 with
               | [] -> None
               | lo :: l4 ->
                 (match l4 with
                  | [] -> None
                  | hi :: l5 ->
                    (match l5 with
                     | [] ->
                       (match dnat b with
                        | Some b' ->
                          (match dnat d with
                           | Some d' ->
                             (match drow x0 with
                              | Some x ->
                                (match dopt dmatrix ini with
                                 | Some i ->
                                   (match dlist dbound lo with
                                    | Some l6 ->
                                      (match dlist dbound hi with
                                       | Some h ->
                                         Some { e_batch = b'; e_dim = d';
                                           e_x0 = x; e_init = i; e_lo = l6;
                                           e_hi = h }
                                       | None -> None)
                                    | None -> None)
                                 | None -> None)
                              | None -> None)
                           | None -> None)
                        | None -> None)
                     | _ :: _ -> None)))))))

(** val des : sx -> es_kind option **)

let des = function
| SZ z0 ->
  (match z0 with
   | Z0 -> Some CmaEs
   | Zpos p ->
     (match p with
      | XI p0 -> (match p0 with
                  | XH -> Some OpenAiEs
                  | _ -> None)
      | XO p0 ->
        (match p0 with
         | XI _ -> None
         | XO p1 -> (match p1 with
                     | XH -> Some PyCmaEs
                     | _ -> None)
         | XH -> Some LmMaEs)
      | XH -> Some SepCmaEs)
   | Zneg _ -> None)
| SL _ -> None

(** val dop : sx -> operator option **)

let dop = function
| SZ z0 ->
  (match z0 with
   | Z0 -> Some OpGaussian
   | Zpos p -> (match p with
                | XH -> Some OpIsoLine
                | _ -> None)
   | Zneg _ -> None)
| SL _ -> None

(** val ddt : sx -> dt option **)

let ddt = function
| SZ z0 ->
  (match z0 with
   | Z0 -> Some F32
   | Zpos p -> (match p with
                | XH -> Some F64
                | _ -> None)
   | Zneg _ -> None)
| SL _ -> None

(** val edt : dt -> sx **)

let edt d =
  SZ (match d with
      | F32 -> Z0
      | F64 -> Zpos XH)

(** val dakind : sx -> akind option **)

let dakind = function
| SZ _ -> None
| SL l0 ->
  (match l0 with
   | [] -> None
   | s0 :: l1 ->
     (match s0 with
      | SZ z0 ->
        (match z0 with
         | Z0 ->
           (match l1 with
            | [] -> None
            | i :: l ->
              (match l with
               | [] ->
                 (match dbool i with
                  | Some i' -> Some (KGaussian i')
                  | None -> None)
               | _ :: _ -> None))
         | Zpos p ->
           (match p with
            | XI p0 ->
              (match p0 with
               | XI p1 ->
                 (match p1 with
                  | XH ->
                    (match l1 with
                     | [] -> None
                     | e :: l ->
                       (match l with
                        | [] ->
                          (match des e with
                           | Some e' -> Some (KGaeAsk e')
                           | None -> None)
                        | _ :: _ -> None))
                  | _ -> None)
               | XO p1 ->
                 (match p1 with
                  | XH ->
                    (match l1 with
                     | [] -> None
                     | m :: l ->
                       (match l with
                        | [] -> None
                        | i :: l2 ->
                          (match l2 with
                           | [] ->
                             (match dbool m with
                              | Some m' ->
                                (match dbool i with
                                 | Some i' -> Some (KGoAsk (m', i'))
                                 | None -> None)
                              | None -> None)
                           | _ :: _ -> None)))
                  | _ -> None)
               | XH ->
                 (match l1 with
                  | [] -> None
                  | e :: l ->
                    (match l with
                     | [] ->
                       (match des e with
                        | Some e' -> Some (KES e')
                        | None -> None)
                     | _ :: _ -> None)))
            | XO p0 ->
              (match p0 with
               | XI p1 ->
                 (match p1 with
                  | XH -> (match l1 with
                           | [] -> Some KGaeDqd
                           | _ :: _ -> None)
                  | _ -> None)
               | XO p1 ->
                 (match p1 with
                  | XH ->
                    (match l1 with
                     | [] -> None
                     | l :: l2 ->
                       (match l2 with
                        | [] -> None
                        | i :: l3 ->
                          (match l3 with
                           | [] ->
                             (match dbool l with
                              | Some l' ->
                                (match dbool i with
                                 | Some i' -> Some (KGoDqd (l', i'))
                                 | None -> None)
                              | None -> None)
                           | _ :: _ -> None)))
                  | _ -> None)
               | XH ->
                 (match l1 with
                  | [] -> None
                  | o :: l ->
                    (match l with
                     | [] -> None
                     | i :: l2 ->
                       (match l2 with
                        | [] ->
                          (match dop o with
                           | Some o' ->
                             (match dbool i with
                              | Some i' -> Some (KGA (o', i'))
                              | None -> None)
                           | None -> None)
                        | _ :: _ -> None))))
            | XH ->
              (match l1 with
               | [] -> None
               | i :: l ->
                 (match l with
                  | [] ->
                    (match dbool i with
                     | Some i' -> Some (KIsoLine i')
                     | None -> None)
                  | _ :: _ -> None)))
         | Zneg _ -> None)
      | SL _ -> None))

(** val dcall : sx -> ask_call option **)

let dcall = function
| SZ _ -> None
| SL l0 ->
  (match l0 with
   | [] -> None
   | s0 :: l1 ->
     (match s0 with
      | SZ z0 ->
        (match z0 with
         | Z0 ->
           (match l1 with
            | [] -> None
            | c :: l ->
              (match l with
               | [] -> None
               | e :: l2 ->
                 (match l2 with
                  | [] -> None
                  | ints :: l3 ->
                    (match l3 with
                     | [] -> None
                     | z1 :: l4 ->
                       (match l4 with
                        | [] ->
                          (match dcfg c with
                           | Some c' ->
                             (match dmatrix e with
                              | Some e' ->
                                (match dlist dnat ints with
                                 | Some i' ->
                                   (match dmatrix z1 with
                                    | Some z' ->
                                      Some (AGaussian (c', e', (fnn i'),
                                        (fn2 z')))
                                    | None -> None)
                                 | None -> None)
                              | None -> None)
                           | None -> None)
                        | _ :: _ -> None)))))
         | Zpos p ->
           (match p with
            | XI p0 ->
              (match p0 with
               | XH ->
                 (match l1 with
                  | [] -> None
                  | c :: l2 ->
                    (match l2 with
                     | [] -> None
                     | l :: l3 ->
                       (match l3 with
                        | [] -> None
                        | e :: l4 ->
                          (match l4 with
                           | [] -> None
                           | ints :: l5 ->
                             (match l5 with
                              | [] -> None
                              | z1 :: l6 ->
                                (match l6 with
                                 | [] -> None
                                 | line :: l7 ->
                                   (match l7 with
                                    | [] ->
                                      (match dcfg c with
                                       | Some c' ->
                                         (match dbool l with
                                          | Some b' ->
                                            (match dmatrix e with
                                             | Some e' ->
                                               (match dlist dnat ints with
                                                | Some i' ->
                                                  (match dmatrix z1 with
                                                   | Some z' ->
                                                     (match drow line with
                                                      | Some l' ->
                                                        Some (AGoDqd (c', b',
                                                          e', (fnn i'),
                                                          (fn2 z'), (fn1 l')))
                                                      | None -> None)
                                                   | None -> None)
                                                | None -> None)
                                             | None -> None)
                                          | None -> None)
                                       | None -> None)
                                    | _ :: _ -> None)))))))
               | _ -> None)
            | XO p0 ->
              (match p0 with
               | XI _ -> None
               | XO p1 ->
                 (match p1 with
                  | XH ->
                    (match l1 with
                     | [] -> None
                     | c :: l ->
                       (match l with
                        | [] -> None
                        | mg :: l2 ->
                          (match l2 with
                           | [] -> None
                           | e :: l3 ->
                             (match l3 with
                              | [] -> None
                              | ps :: l4 ->
                                (match l4 with
                                 | [] -> None
                                 | jac :: l5 ->
                                   (match l5 with
                                    | [] -> None
                                    | sg :: l6 ->
                                      (match l6 with
                                       | [] -> None
                                       | m1 :: l7 ->
                                         (match l7 with
                                          | [] -> None
                                          | z1 :: l8 ->
                                            (match l8 with
                                             | [] ->
                                               (match dcfg c with
                                                | Some c' ->
                                                  (match dbool mg with
                                                   | Some g' ->
                                                     (match dmatrix e with
                                                      | Some e' ->
                                                        (match dmatrix ps with
                                                         | Some p' ->
                                                           (match dopt
                                                                    (dlist
                                                                    dmatrix)
                                                                    jac with
                                                            | Some j' ->
                                                              (match 
                                                               dq sg with
                                                               | Some s' ->
                                                                 (match 
                                                                  dnat m1 with
                                                                  | Some m' ->
                                                                    (match 
                                                                    dmatrix z1 with
                                                                    | Some z' ->
                                                                    Some
                                                                    (AGoAsk
                                                                    (c', g',
                                                                    e', p',
                                                                    j', s',
                                                                    m',
                                                                    (fn2 z')))
                                                                    | None ->
                                                                    None)
                                                                  | None ->
                                                                    None)
                                                               | None -> None)
                                                            | None -> None)
                                                         | None -> None)
                                                      | None -> None)
                                                   | None -> None)
                                                | None -> None)
                                             | _ :: _ -> None)))))))))
                  | _ -> None)
               | XH ->
                 (match l1 with
                  | [] -> None
                  | c :: l ->
                    (match l with
                     | [] -> None
                     | o :: l2 ->
                       (match l2 with
                        | [] -> None
                        | e :: l3 ->
                          (match l3 with
                           | [] -> None
                           | ints :: l4 ->
                             (match l4 with
                              | [] -> None
                              | z1 :: l5 ->
                                (match l5 with
                                 | [] -> None
                                 | line :: l6 ->
                                   (match l6 with
                                    | [] ->
                                      (match dcfg c with
                                       | Some c' ->
                                         (match dop o with
                                          | Some o' ->
                                            (match dmatrix e with
                                             | Some e' ->
                                               (match dlist dnat ints with
                                                | Some i' ->
                                                  (match dmatrix z1 with
                                                   | Some z' ->
                                                     (match drow line with
                                                      | Some l' ->
                                                        Some (AGA (c', o',
                                                          e', (fnn i'),
                                                          (fn2 z'), (fn1 l')))
                                                      | None -> None)
                                                   | None -> None)
                                                | None -> None)
                                             | None -> None)
                                          | None -> None)
                                       | None -> None)
                                    | _ :: _ -> None))))))))
            | XH ->
              (match l1 with
               | [] -> None
               | c :: l ->
                 (match l with
                  | [] -> None
                  | e :: l2 ->
                    (match l2 with
                     | [] -> None
                     | ints :: l3 ->
                       (match l3 with
                        | [] -> None
                        | iso :: l4 ->
                          (match l4 with
                           | [] -> None
                           | line :: l5 ->
                             (match l5 with
                              | [] ->
                                (match dcfg c with
                                 | Some c' ->
                                   (match dmatrix e with
                                    | Some e' ->
                                      (match dlist dnat ints with
                                       | Some i' ->
                                         (match dmatrix iso with
                                          | Some z' ->
                                            (match drow line with
                                             | Some l' ->
                                               Some (AIsoLine (c', e',
                                                 (fnn i'), (fn2 z'),
                                                 (fn1 l')))
                                             | None -> None)
                                          | None -> None)
                                       | None -> None)
                                    | None -> None)
                                 | None -> None)
                              | _ :: _ -> None)))))))
         | Zneg _ -> None)
      | SL _ -> None))

(** val run_C08 : sx -> sx **)

let run_C08 = function
| SZ _ -> sx_fail
| SL l ->
  (match l with
   | [] -> sx_fail
   | s :: l0 ->
     (match s with
      | SZ z0 ->
        (match z0 with
         | Z0 ->
           (match l0 with
            | [] -> sx_fail
            | b :: l1 ->
              (match l1 with
               | [] -> sx_fail
               | d :: l2 ->
                 (match l2 with
                  | [] ->
                    (match dopt (dlist dbentry) b with
                     | Some b' ->
                       (match dnat d with
                        | Some d' ->
                          (match process_bounds b' d' with
                           | Ok a ->
                             let (lo, hi) = a in
                             SL ((SZ
                             Z0) :: ((ebounds lo) :: ((ebounds hi) :: [])))
                           | Err e -> SL ((SZ (err_code8 e)) :: []))
                        | None -> sx_fail)
                     | None -> sx_fail)
                  | _ :: _ -> sx_fail)))
         | Zpos p ->
           (match p with
            | XI p0 ->
              (match p0 with
               | XH ->
                 (match l0 with
                  | [] -> sx_fail
                  | theta :: l1 ->
                    (match l1 with
                     | [] -> sx_fail
                     | jac :: l2 ->
                       (match l2 with
                        | [] -> sx_fail
                        | coeffs :: l3 ->
                          (match l3 with
                           | [] ->
                             (match drow theta with
                              | Some t ->
                                (match dmatrix jac with
                                 | Some j ->
                                   (match dmatrix coeffs with
                                    | Some c -> ematrix (gae_ask t j c)
                                    | None -> sx_fail)
                                 | None -> sx_fail)
                              | None -> sx_fail)
                           | _ :: _ -> sx_fail))))
               | _ -> sx_fail)
            | XO p0 ->
              (match p0 with
               | XI _ -> sx_fail
               | XO p1 ->
                 (match p1 with
                  | XH ->
                    (match l0 with
                     | [] -> sx_fail
                     | fixed :: l1 ->
                       (match l1 with
                        | [] -> sx_fail
                        | k :: l2 ->
                          (match l2 with
                           | [] -> sx_fail
                           | sd :: l3 ->
                             (match l3 with
                              | [] -> sx_fail
                              | md :: l4 ->
                                (match l4 with
                                 | [] -> sx_fail
                                 | jd :: l5 ->
                                   (match l5 with
                                    | [] ->
                                      (match dbool fixed with
                                       | Some f ->
                                         (match dakind k with
                                          | Some k' ->
                                            (match ddt sd with
                                             | Some s0 ->
                                               (match ddt md with
                                                | Some m ->
                                                  (match ddt jd with
                                                   | Some j ->
                                                     edt
                                                       (out_dtype f k' s0 m j)
                                                   | None -> sx_fail)
                                                | None -> sx_fail)
                                             | None -> sx_fail)
                                          | None -> sx_fail)
                                       | None -> sx_fail)
                                    | _ :: _ -> sx_fail))))))
                  | _ -> sx_fail)
               | XH ->
                 (match l0 with
                  | [] -> sx_fail
                  | fuel :: l1 ->
                    (match l1 with
                     | [] -> sx_fail
                     | lo :: l2 ->
                       (match l2 with
                        | [] -> sx_fail
                        | hi :: l3 ->
                          (match l3 with
                           | [] -> sx_fail
                           | b :: l4 ->
                             (match l4 with
                              | [] -> sx_fail
                              | stream :: l5 ->
                                (match l5 with
                                 | [] ->
                                   (match dnat fuel with
                                    | Some f ->
                                      (match dlist dbound lo with
                                       | Some l6 ->
                                         (match dlist dbound hi with
                                          | Some h ->
                                            (match dnat b with
                                             | Some b' ->
                                               (match dmatrix stream with
                                                | Some s0 ->
                                                  (match es_ask f l6 h b' s0 with
                                                   | RsDone (rows0, picks,
                                                             used) ->
                                                     SL ((SZ
                                                       Z0) :: ((ematrix rows0) :: (
                                                       (elist enat picks) :: (
                                                       (enat used) :: []))))
                                                   | RsNeed k ->
                                                     SL ((SZ (Zpos
                                                       XH)) :: ((enat k) :: []))
                                                   | RsFuel ->
                                                     SL ((SZ (Zpos (XO
                                                       XH))) :: []))
                                                | None -> sx_fail)
                                             | None -> sx_fail)
                                          | None -> sx_fail)
                                       | None -> sx_fail)
                                    | None -> sx_fail)
                                 | _ :: _ -> sx_fail)))))))
            | XH ->
              (match l0 with
               | [] -> sx_fail
               | call :: l1 ->
                 (match l1 with
                  | [] ->
                    (match dcall call with
                     | Some a ->
                       (match run_ask a with
                        | Ok m -> SL ((SZ Z0) :: ((ematrix m) :: []))
                        | Err e -> SL ((SZ (err_code8 e)) :: []))
                     | None -> sx_fail)
                  | _ :: _ -> sx_fail)))
         | Zneg _ -> sx_fail)
      | SL _ -> sx_fail))

(** val err_code : err -> z **)

let err_code = function
| ValueError -> Zpos XH
| IndexError -> Zpos (XO XH)
| RuntimeError -> Zpos (XI XH)
| KeyError -> Zpos (XO (XO XH))
| TypeError -> Zpos (XI (XO XH))
| StopIteration -> Zpos (XO (XI XH))
| OtherError -> Zpos (XI (XI XH))

(** val eres : ('a1 -> sx) -> 'a1 result -> sx **)

let eres f = function
| Ok a -> SL ((SZ Z0) :: ((f a) :: []))
| Err e -> SL ((SZ (err_code e)) :: [])

(** val erow0 : z option -> sx **)

let erow0 r =
  eopt ez r

type st = { s_store : z store; s_iters : iter list }

(** val const_transform : nat list -> z list -> z transform **)

let const_transform i' x' _ _ _ =
  (i', x')

(** val dtransform : sx -> z transform option **)

let dtransform = function
| SZ _ -> None
| SL l ->
  (match l with
   | [] -> None
   | a :: l0 ->
     (match l0 with
      | [] -> None
      | b :: l1 ->
        (match l1 with
         | [] ->
           (match dlist dnat a with
            | Some i' ->
              (match dlist dz b with
               | Some x' -> Some (const_transform i' x')
               | None -> None)
            | None -> None)
         | _ :: _ -> None)))

(** val run_op : st -> sx -> st * sx **)

let run_op s o =
  let keep = fun out -> (s, out) in
  (match o with
   | SZ _ -> keep sx_fail
   | SL l ->
     (match l with
      | [] -> keep sx_fail
      | s0 :: l0 ->
        (match s0 with
         | SZ z0 ->
           (match z0 with
            | Z0 ->
              (match l0 with
               | [] -> keep sx_fail
               | a :: l1 ->
                 (match l1 with
                  | [] -> keep sx_fail
                  | b :: l2 ->
                    (match l2 with
                     | [] -> keep sx_fail
                     | k :: l3 ->
                       (match l3 with
                        | [] -> keep sx_fail
                        | ts :: l4 ->
                          (match l4 with
                           | [] ->
                             (match dlist dnat a with
                              | Some idxs ->
                                (match dlist dz b with
                                 | Some xs ->
                                   (match dbool k with
                                    | Some kk ->
                                      (match dlist dtransform ts with
                                       | Some tl ->
                                         let (s', r) =
                                           add0 s.s_store idxs xs tl kk
                                         in
                                         ({ s_store = s'; s_iters =
                                         s.s_iters },
                                         (eres (fun _ -> SL []) r))
                                       | None -> keep sx_fail)
                                    | None -> keep sx_fail)
                                 | None -> keep sx_fail)
                              | None -> keep sx_fail)
                           | _ :: _ -> keep sx_fail)))))
            | Zpos p ->
              (match p with
               | XI p0 ->
                 (match p0 with
                  | XI p1 ->
                    (match p1 with
                     | XH ->
                       (match l0 with
                        | [] ->
                          ({ s_store = (from_raw (as_raw s.s_store));
                            s_iters = s.s_iters }, (SL ((SZ Z0) :: [])))
                        | _ :: _ -> keep sx_fail)
                     | _ -> keep sx_fail)
                  | XO p1 ->
                    (match p1 with
                     | XH ->
                       (match l0 with
                        | [] ->
                          ({ s_store = s.s_store; s_iters =
                            (app s.s_iters ((iter_new s.s_store) :: [])) },
                            (enat (length s.s_iters)))
                        | _ :: _ -> keep sx_fail)
                     | _ -> keep sx_fail)
                  | XH ->
                    (match l0 with
                     | [] -> keep sx_fail
                     | a :: l1 ->
                       (match l1 with
                        | [] ->
                          (match dlist dnat a with
                           | Some idxs ->
                             keep
                               (eres
                                 (elist (fun p1 -> SL
                                   ((ebool (fst p1)) :: ((erow0 (snd p1)) :: []))))
                                 (retrieve s.s_store idxs))
                           | None -> keep sx_fail)
                        | _ :: _ -> keep sx_fail)))
               | XO p0 ->
                 (match p0 with
                  | XI p1 ->
                    (match p1 with
                     | XH ->
                       (match l0 with
                        | [] -> keep sx_fail
                        | k :: l1 ->
                          (match l1 with
                           | [] ->
                             (match dnat k with
                              | Some kk ->
                                (match nth_error s.s_iters kk with
                                 | Some it ->
                                   let (it', out) = iter_next s.s_store it in
                                   ({ s_store = s.s_store; s_iters =
                                   (upd s.s_iters kk it') },
                                   (match out with
                                    | Yield (i, r) ->
                                      SL ((SZ
                                        Z0) :: ((enat i) :: ((erow0 r) :: [])))
                                    | Stop ->
                                      SL ((SZ (Zpos (XO (XI XH)))) :: [])
                                    | Modified ->
                                      SL ((SZ (Zpos (XI XH))) :: [])))
                                 | None -> keep sx_fail)
                              | None -> keep sx_fail)
                           | _ :: _ -> keep sx_fail))
                     | _ -> keep sx_fail)
                  | XO p1 ->
                    (match p1 with
                     | XI _ -> keep sx_fail
                     | XO p2 ->
                       (match p2 with
                        | XH ->
                          (match l0 with
                           | [] ->
                             let t = s.s_store in
                             keep (SL
                               ((enat t.cap) :: ((enat (len t)) :: ((elist
                                                                    enat
                                                                    t.olist) :: (
                               (elist ebool t.occ) :: ((enat t.nadd) :: (
                               (enat t.nclear) :: [])))))))
                           | _ :: _ -> keep sx_fail)
                        | _ -> keep sx_fail)
                     | XH ->
                       (match l0 with
                        | [] ->
                          keep
                            (elist (fun p2 -> SL
                              ((enat (fst p2)) :: ((erow0 (snd p2)) :: [])))
                              (data s.s_store))
                        | _ :: _ -> keep sx_fail))
                  | XH ->
                    (match l0 with
                     | [] -> keep sx_fail
                     | c :: l1 ->
                       (match l1 with
                        | [] ->
                          (match dnat c with
                           | Some cc ->
                             let (s', r) = resize s.s_store cc in
                             ({ s_store = s'; s_iters = s.s_iters },
                             (eres (fun _ -> SL []) r))
                           | None -> keep sx_fail)
                        | _ :: _ -> keep sx_fail)))
               | XH ->
                 (match l0 with
                  | [] ->
                    ({ s_store = (clear s.s_store); s_iters = s.s_iters },
                      (SL ((SZ Z0) :: [])))
                  | _ :: _ -> keep sx_fail))
            | Zneg _ -> keep sx_fail)
         | SL _ -> keep sx_fail)))

(** val run_ops : st -> sx list -> sx list **)

let rec run_ops s = function
| [] -> []
| o :: t -> let (s', out) = run_op s o in out :: (run_ops s' t)

(** val run_C13 : sx -> sx **)

let run_C13 = function
| SZ _ -> sx_fail
| SL l ->
  (match l with
   | [] -> sx_fail
   | c :: l0 ->
     (match l0 with
      | [] -> sx_fail
      | s :: l1 ->
        (match s with
         | SZ _ -> sx_fail
         | SL ops ->
           (match l1 with
            | [] ->
              (match dnat c with
               | Some cc ->
                 SL (run_ops { s_store = (init cc); s_iters = [] } ops)
               | None -> sx_fail)
            | _ :: _ -> sx_fail))))
