
(** val negb : bool -> bool **)

let negb = function
| true -> false
| false -> true

type nat =
| O
| S of nat

(** val fst : ('a1 * 'a2) -> 'a1 **)

let fst = function
| (x, _) -> x

(** val snd : ('a1 * 'a2) -> 'a2 **)

let snd = function
| (_, y) -> y

(** val length : 'a1 list -> nat **)

let rec length = function
| [] -> O
| _ :: l' -> S (length l')

(** val app : 'a1 list -> 'a1 list -> 'a1 list **)

let rec app l m =
  match l with
  | [] -> m
  | a :: l1 -> a :: (app l1 m)

type comparison =
| Eq
| Lt
| Gt

(** val compOpp : comparison -> comparison **)

let compOpp = function
| Eq -> Eq
| Lt -> Gt
| Gt -> Lt

module Coq__1 = struct
 (** val add : nat -> nat -> nat **)
 let rec add n m =
   match n with
   | O -> m
   | S p -> S (add p m)
end
include Coq__1

(** val sub : nat -> nat -> nat **)

let rec sub n m =
  match n with
  | O -> n
  | S k -> (match m with
            | O -> n
            | S l -> sub k l)

module Nat =
 struct
  (** val eqb : nat -> nat -> bool **)

  let rec eqb n m =
    match n with
    | O -> (match m with
            | O -> true
            | S _ -> false)
    | S n' -> (match m with
               | O -> false
               | S m' -> eqb n' m')

  (** val leb : nat -> nat -> bool **)

  let rec leb n m =
    match n with
    | O -> true
    | S n' -> (match m with
               | O -> false
               | S m' -> leb n' m')

  (** val ltb : nat -> nat -> bool **)

  let ltb n m =
    leb (S n) m
 end

(** val nth : nat -> 'a1 list -> 'a1 -> 'a1 **)

let rec nth n l default =
  match n with
  | O -> (match l with
          | [] -> default
          | x :: _ -> x)
  | S m -> (match l with
            | [] -> default
            | _ :: t -> nth m t default)

(** val nth_error : 'a1 list -> nat -> 'a1 option **)

let rec nth_error l = function
| O -> (match l with
        | [] -> None
        | x :: _ -> Some x)
| S n0 -> (match l with
           | [] -> None
           | _ :: l0 -> nth_error l0 n0)

(** val map : ('a1 -> 'a2) -> 'a1 list -> 'a2 list **)

let rec map f = function
| [] -> []
| a :: t -> (f a) :: (map f t)

(** val fold_left : ('a1 -> 'a2 -> 'a1) -> 'a2 list -> 'a1 -> 'a1 **)

let rec fold_left f l a0 =
  match l with
  | [] -> a0
  | b :: t -> fold_left f t (f a0 b)

(** val fold_right : ('a2 -> 'a1 -> 'a1) -> 'a1 -> 'a2 list -> 'a1 **)

let rec fold_right f a0 = function
| [] -> a0
| b :: t -> f b (fold_right f a0 t)

(** val forallb : ('a1 -> bool) -> 'a1 list -> bool **)

let rec forallb f = function
| [] -> true
| a :: l0 -> (&&) (f a) (forallb f l0)

(** val filter : ('a1 -> bool) -> 'a1 list -> 'a1 list **)

let rec filter f = function
| [] -> []
| x :: l0 -> if f x then x :: (filter f l0) else filter f l0

(** val combine : 'a1 list -> 'a2 list -> ('a1 * 'a2) list **)

let rec combine l l' =
  match l with
  | [] -> []
  | x :: tl ->
    (match l' with
     | [] -> []
     | y :: tl' -> (x, y) :: (combine tl tl'))

(** val firstn : nat -> 'a1 list -> 'a1 list **)

let rec firstn n l =
  match n with
  | O -> []
  | S n0 -> (match l with
             | [] -> []
             | a :: l0 -> a :: (firstn n0 l0))

(** val repeat : 'a1 -> nat -> 'a1 list **)

let rec repeat x = function
| O -> []
| S k -> x :: (repeat x k)

type positive =
| XI of positive
| XO of positive
| XH

type z =
| Z0
| Zpos of positive
| Zneg of positive

module Pos =
 struct
  (** val succ : positive -> positive **)

  let rec succ = function
  | XI p -> XO (succ p)
  | XO p -> XI p
  | XH -> XO XH

  (** val add : positive -> positive -> positive **)

  let rec add x y =
    match x with
    | XI p ->
      (match y with
       | XI q -> XO (add_carry p q)
       | XO q -> XI (add p q)
       | XH -> XO (succ p))
    | XO p ->
      (match y with
       | XI q -> XI (add p q)
       | XO q -> XO (add p q)
       | XH -> XI p)
    | XH -> (match y with
             | XI q -> XO (succ q)
             | XO q -> XI q
             | XH -> XO XH)

  (** val add_carry : positive -> positive -> positive **)

  and add_carry x y =
    match x with
    | XI p ->
      (match y with
       | XI q -> XI (add_carry p q)
       | XO q -> XO (add_carry p q)
       | XH -> XI (succ p))
    | XO p ->
      (match y with
       | XI q -> XO (add_carry p q)
       | XO q -> XI (add p q)
       | XH -> XO (succ p))
    | XH ->
      (match y with
       | XI q -> XI (succ q)
       | XO q -> XO (succ q)
       | XH -> XI XH)

  (** val pred_double : positive -> positive **)

  let rec pred_double = function
  | XI p -> XI (XO p)
  | XO p -> XI (pred_double p)
  | XH -> XH

  (** val mul : positive -> positive -> positive **)

  let rec mul x y =
    match x with
    | XI p -> add y (XO (mul p y))
    | XO p -> XO (mul p y)
    | XH -> y

  (** val compare_cont : comparison -> positive -> positive -> comparison **)

  let rec compare_cont r x y =
    match x with
    | XI p ->
      (match y with
       | XI q -> compare_cont r p q
       | XO q -> compare_cont Gt p q
       | XH -> Gt)
    | XO p ->
      (match y with
       | XI q -> compare_cont Lt p q
       | XO q -> compare_cont r p q
       | XH -> Gt)
    | XH -> (match y with
             | XH -> r
             | _ -> Lt)

  (** val compare : positive -> positive -> comparison **)

  let compare =
    compare_cont Eq

  (** val iter_op : ('a1 -> 'a1 -> 'a1) -> positive -> 'a1 -> 'a1 **)

  let rec iter_op op p a =
    match p with
    | XI p0 -> op a (iter_op op p0 (op a a))
    | XO p0 -> iter_op op p0 (op a a)
    | XH -> a

  (** val to_nat : positive -> nat **)

  let to_nat x =
    iter_op Coq__1.add x (S O)

  (** val of_succ_nat : nat -> positive **)

  let rec of_succ_nat = function
  | O -> XH
  | S x -> succ (of_succ_nat x)
 end

module Z =
 struct
  (** val double : z -> z **)

  let double = function
  | Z0 -> Z0
  | Zpos p -> Zpos (XO p)
  | Zneg p -> Zneg (XO p)

  (** val succ_double : z -> z **)

  let succ_double = function
  | Z0 -> Zpos XH
  | Zpos p -> Zpos (XI p)
  | Zneg p -> Zneg (Pos.pred_double p)

  (** val pred_double : z -> z **)

  let pred_double = function
  | Z0 -> Zneg XH
  | Zpos p -> Zpos (Pos.pred_double p)
  | Zneg p -> Zneg (XI p)

  (** val pos_sub : positive -> positive -> z **)

  let rec pos_sub x y =
    match x with
    | XI p ->
      (match y with
       | XI q -> double (pos_sub p q)
       | XO q -> succ_double (pos_sub p q)
       | XH -> Zpos (XO p))
    | XO p ->
      (match y with
       | XI q -> pred_double (pos_sub p q)
       | XO q -> double (pos_sub p q)
       | XH -> Zpos (Pos.pred_double p))
    | XH ->
      (match y with
       | XI q -> Zneg (XO q)
       | XO q -> Zneg (Pos.pred_double q)
       | XH -> Z0)

  (** val add : z -> z -> z **)

  let add x y =
    match x with
    | Z0 -> y
    | Zpos x' ->
      (match y with
       | Z0 -> x
       | Zpos y' -> Zpos (Pos.add x' y')
       | Zneg y' -> pos_sub x' y')
    | Zneg x' ->
      (match y with
       | Z0 -> x
       | Zpos y' -> pos_sub y' x'
       | Zneg y' -> Zneg (Pos.add x' y'))

  (** val opp : z -> z **)

  let opp = function
  | Z0 -> Z0
  | Zpos x0 -> Zneg x0
  | Zneg x0 -> Zpos x0

  (** val mul : z -> z -> z **)

  let mul x y =
    match x with
    | Z0 -> Z0
    | Zpos x' ->
      (match y with
       | Z0 -> Z0
       | Zpos y' -> Zpos (Pos.mul x' y')
       | Zneg y' -> Zneg (Pos.mul x' y'))
    | Zneg x' ->
      (match y with
       | Z0 -> Z0
       | Zpos y' -> Zneg (Pos.mul x' y')
       | Zneg y' -> Zpos (Pos.mul x' y'))

  (** val compare : z -> z -> comparison **)

  let compare x y =
    match x with
    | Z0 -> (match y with
             | Z0 -> Eq
             | Zpos _ -> Lt
             | Zneg _ -> Gt)
    | Zpos x' -> (match y with
                  | Zpos y' -> Pos.compare x' y'
                  | _ -> Gt)
    | Zneg x' ->
      (match y with
       | Zneg y' -> compOpp (Pos.compare x' y')
       | _ -> Lt)

  (** val ltb : z -> z -> bool **)

  let ltb x y =
    match compare x y with
    | Lt -> true
    | _ -> false

  (** val to_nat : z -> nat **)

  let to_nat = function
  | Zpos p -> Pos.to_nat p
  | _ -> O

  (** val of_nat : nat -> z **)

  let of_nat = function
  | O -> Z0
  | S n0 -> Zpos (Pos.of_succ_nat n0)
 end

type sx =
| SZ of z
| SL of sx list

(** val sx_fail : sx **)

let sx_fail =
  SL ((SZ (Zneg (XI (XI (XI (XO (XO (XI (XI (XI (XI XH))))))))))) :: [])

(** val dz : sx -> z option **)

let dz = function
| SZ z0 -> Some z0
| SL _ -> None

(** val dnat : sx -> nat option **)

let dnat = function
| SZ z0 -> if Z.ltb z0 Z0 then None else Some (Z.to_nat z0)
| SL _ -> None

(** val dbool : sx -> bool option **)

let dbool = function
| SZ z0 ->
  (match z0 with
   | Z0 -> Some false
   | Zpos p -> (match p with
                | XH -> Some true
                | _ -> None)
   | Zneg _ -> None)
| SL _ -> None

(** val opt_all : 'a1 option list -> 'a1 list option **)

let rec opt_all = function
| [] -> Some []
| o :: t ->
  (match o with
   | Some x -> (match opt_all t with
                | Some r -> Some (x :: r)
                | None -> None)
   | None -> None)

(** val dlist : (sx -> 'a1 option) -> sx -> 'a1 list option **)

let dlist f = function
| SZ _ -> None
| SL l -> opt_all (map f l)

(** val ez : z -> sx **)

let ez z0 =
  SZ z0

(** val enat : nat -> sx **)

let enat n =
  SZ (Z.of_nat n)

(** val ebool : bool -> sx **)

let ebool b =
  SZ (if b then Zpos XH else Z0)

(** val elist : ('a1 -> sx) -> 'a1 list -> sx **)

let elist f l =
  SL (map f l)

(** val eopt : ('a1 -> sx) -> 'a1 option -> sx **)

let eopt f = function
| Some x -> SL ((f x) :: [])
| None -> SL []

(** val upd : 'a1 list -> nat -> 'a1 -> 'a1 list **)

let rec upd l i x =
  match l with
  | [] -> []
  | h :: t -> (match i with
               | O -> x :: t
               | S j -> h :: (upd t j x))

(** val insert_uniq : nat -> nat list -> nat list **)

let rec insert_uniq i l = match l with
| [] -> i :: []
| j :: t ->
  if Nat.ltb i j
  then i :: l
  else if Nat.eqb i j then l else j :: (insert_uniq i t)

(** val sort_uniq : nat list -> nat list **)

let sort_uniq l =
  fold_right insert_uniq [] l

type err =
| ValueError
| IndexError
| RuntimeError
| KeyError
| TypeError
| StopIteration
| OtherError

type 'a result =
| Ok of 'a
| Err of err

type 'r store = { cap : nat; occ : bool list; olist : nat list;
                  rows : 'r option list; nadd : nat; nclear : nat }

(** val init : nat -> 'a1 store **)

let init c =
  { cap = c; occ = (repeat false c); olist = []; rows = (repeat None c);
    nadd = O; nclear = O }

(** val get_occ : 'a1 store -> nat -> bool **)

let get_occ s i =
  nth i s.occ false

(** val get_row : 'a1 store -> nat -> 'a1 option **)

let get_row s i =
  nth i s.rows None

(** val len : 'a1 store -> nat **)

let len s =
  length s.olist

(** val in_range : 'a1 store -> nat list -> bool **)

let in_range s idxs =
  forallb (fun i -> Nat.ltb i s.cap) idxs

(** val retrieve :
    'a1 store -> nat list -> (bool * 'a1 option) list result **)

let retrieve s idxs =
  if in_range s idxs
  then Ok (map (fun i -> ((get_occ s i), (get_row s i))) idxs)
  else Err IndexError

(** val data : 'a1 store -> (nat * 'a1 option) list **)

let data s =
  map (fun i -> (i, (get_row s i))) s.olist

(** val new_indices : 'a1 store -> nat list -> nat list **)

let new_indices s idxs =
  filter (fun i -> negb (get_occ s i)) (sort_uniq idxs)

(** val write_rows :
    'a1 option list -> nat list -> 'a1 list -> 'a1 option list **)

let write_rows rs idxs xs =
  fold_left (fun r ix -> upd r (fst ix) (Some (snd ix))) (combine idxs xs) rs

(** val mark : bool list -> nat list -> bool list **)

let mark o new0 =
  fold_left (fun o0 i -> upd o0 i true) new0 o

(** val bump_add : 'a1 store -> 'a1 store **)

let bump_add s =
  { cap = s.cap; occ = s.occ; olist = s.olist; rows = s.rows; nadd = (S
    s.nadd); nclear = s.nclear }

(** val add_raw :
    'a1 store -> nat list -> 'a1 list -> bool -> 'a1 store * unit result **)

let add_raw s idxs xs keys_ok =
  if Nat.eqb (length idxs) O
  then (s, (Ok ()))
  else if negb (Nat.eqb (length idxs) (length xs))
       then (s, (Err ValueError))
       else if negb keys_ok
            then (s, (Err ValueError))
            else if negb (in_range s idxs)
                 then (s, (Err IndexError))
                 else let new0 = new_indices s idxs in
                      ({ cap = s.cap; occ = (mark s.occ new0); olist =
                      (app s.olist new0); rows = (write_rows s.rows idxs xs);
                      nadd = s.nadd; nclear = s.nclear }, (Ok ()))

type 'r transform =
  nat list -> 'r list -> (bool * 'r option) list -> nat list * 'r list

(** val run_transforms :
    'a1 store -> 'a1 transform list -> nat list -> 'a1 list -> (nat
    list * 'a1 list) result **)

let rec run_transforms s ts idxs xs =
  match ts with
  | [] -> Ok (idxs, xs)
  | t :: ts' ->
    (match retrieve s idxs with
     | Ok view -> let (i', x') = t idxs xs view in run_transforms s ts' i' x'
     | Err e -> Err e)

(** val add0 :
    'a1 store -> nat list -> 'a1 list -> 'a1 transform list -> bool -> 'a1
    store * unit result **)

let add0 s idxs xs ts keys_ok =
  let s1 = bump_add s in
  (match run_transforms s1 ts idxs xs with
   | Ok a -> let (i', x') = a in add_raw s1 i' x' keys_ok
   | Err e -> (s1, (Err e)))

(** val clear : 'a1 store -> 'a1 store **)

let clear s =
  { cap = s.cap; occ = (repeat false s.cap); olist = []; rows = s.rows;
    nadd = s.nadd; nclear = (S s.nclear) }

(** val resize : 'a1 store -> nat -> 'a1 store * unit result **)

let resize s c =
  if Nat.leb c s.cap
  then (s, (Err ValueError))
  else ({ cap = c; occ = (app s.occ (repeat false (sub c s.cap))); olist =
         s.olist; rows = (app s.rows (repeat None (sub c s.cap))); nadd =
         s.nadd; nclear = s.nclear }, (Ok ()))

type 'r raw = { r_cap : nat; r_occ : bool list; r_nocc : nat;
                r_olist : nat list; r_rows : 'r option list; r_nadd : 
                nat; r_nclear : nat }

(** val as_raw : 'a1 store -> 'a1 raw **)

let as_raw s =
  { r_cap = s.cap; r_occ = s.occ; r_nocc = (length s.olist); r_olist =
    s.olist; r_rows = s.rows; r_nadd = s.nadd; r_nclear = s.nclear }

(** val from_raw : 'a1 raw -> 'a1 store **)

let from_raw r =
  { cap = r.r_cap; occ = r.r_occ; olist = (firstn r.r_nocc r.r_olist); rows =
    r.r_rows; nadd = r.r_nadd; nclear = r.r_nclear }

type iter = { it_pos : nat; it_add : nat; it_clear : nat }

(** val iter_new : 'a1 store -> iter **)

let iter_new s =
  { it_pos = O; it_add = s.nadd; it_clear = s.nclear }

type 'r iter_out =
| Yield of nat * 'r option
| Stop
| Modified

(** val iter_next : 'a1 store -> iter -> iter * 'a1 iter_out **)

let iter_next s it =
  if negb ((&&) (Nat.eqb it.it_add s.nadd) (Nat.eqb it.it_clear s.nclear))
  then (it, Modified)
  else if Nat.leb (len s) it.it_pos
       then (it, Stop)
       else let i = nth it.it_pos s.olist O in
            ({ it_pos = (S it.it_pos); it_add = it.it_add; it_clear =
            it.it_clear }, (Yield (i, (get_row s i))))

(** val err_code : err -> z **)

let err_code = function
| ValueError -> Zpos XH
| IndexError -> Zpos (XO XH)
| RuntimeError -> Zpos (XI XH)
| KeyError -> Zpos (XO (XO XH))
| TypeError -> Zpos (XI (XO XH))
| StopIteration -> Zpos (XO (XI XH))
| OtherError -> Zpos (XI (XI XH))

(** val eres : ('a1 -> sx) -> 'a1 result -> sx **)

let eres f = function
| Ok a -> SL ((SZ Z0) :: ((f a) :: []))
| Err e -> SL ((SZ (err_code e)) :: [])

(** val erow : z option -> sx **)

let erow r =
  eopt ez r

type st = { s_store : z store; s_iters : iter list }

(** val const_transform : nat list -> z list -> z transform **)

let const_transform i' x' _ _ _ =
  (i', x')

(** val dtransform : sx -> z transform option **)

let dtransform = function
| SZ _ -> None
| SL l ->
  (match l with
   | [] -> None
   | a :: l0 ->
     (match l0 with
      | [] -> None
      | b :: l1 ->
        (match l1 with
         | [] ->
           (match dlist dnat a with
            | Some i' ->
              (match dlist dz b with
               | Some x' -> Some (const_transform i' x')
               | None -> None)
            | None -> None)
         | _ :: _ -> None)))

(** val run_op : st -> sx -> st * sx **)

let run_op s o =
  let keep = fun out -> (s, out) in
  (match o with
   | SZ _ -> keep sx_fail
   | SL l ->
     (match l with
      | [] -> keep sx_fail
      | s0 :: l0 ->
        (match s0 with
         | SZ z0 ->
           (match z0 with
            | Z0 ->
              (match l0 with
               | [] -> keep sx_fail
               | a :: l1 ->
                 (match l1 with
                  | [] -> keep sx_fail
                  | b :: l2 ->
                    (match l2 with
                     | [] -> keep sx_fail
                     | k :: l3 ->
                       (match l3 with
                        | [] -> keep sx_fail
                        | ts :: l4 ->
                          (match l4 with
                           | [] ->
                             (match dlist dnat a with
                              | Some idxs ->
                                (match dlist dz b with
                                 | Some xs ->
                                   (match dbool k with
                                    | Some kk ->
                                      (match dlist dtransform ts with
                                       | Some tl ->
                                         let (s', r) =
                                           add0 s.s_store idxs xs tl kk
                                         in
                                         ({ s_store = s'; s_iters =
                                         s.s_iters },
                                         (eres (fun _ -> SL []) r))
                                       | None -> keep sx_fail)
                                    | None -> keep sx_fail)
                                 | None -> keep sx_fail)
                              | None -> keep sx_fail)
                           | _ :: _ -> keep sx_fail)))))
            | Zpos p ->
              (match p with
               | XI p0 ->
                 (match p0 with
                  | XI p1 ->
                    (match p1 with
                     | XH ->
                       (match l0 with
                        | [] ->
                          ({ s_store = (from_raw (as_raw s.s_store));
                            s_iters = s.s_iters }, (SL ((SZ Z0) :: [])))
                        | _ :: _ -> keep sx_fail)
                     | _ -> keep sx_fail)
                  | XO p1 ->
                    (match p1 with
                     | XH ->
                       (match l0 with
                        | [] ->
                          ({ s_store = s.s_store; s_iters =
                            (app s.s_iters ((iter_new s.s_store) :: [])) },
                            (enat (length s.s_iters)))
                        | _ :: _ -> keep sx_fail)
                     | _ -> keep sx_fail)
                  | XH ->
                    (match l0 with
                     | [] -> keep sx_fail
                     | a :: l1 ->
                       (match l1 with
                        | [] ->
                          (match dlist dnat a with
                           | Some idxs ->
                             keep
                               (eres
                                 (elist (fun p1 -> SL
                                   ((ebool (fst p1)) :: ((erow (snd p1)) :: []))))
                                 (retrieve s.s_store idxs))
                           | None -> keep sx_fail)
                        | _ :: _ -> keep sx_fail)))
               | XO p0 ->
                 (match p0 with
                  | XI p1 ->
                    (match p1 with
                     | XH ->
                       (match l0 with
                        | [] -> keep sx_fail
                        | k :: l1 ->
                          (match l1 with
                           | [] ->
                             (match dnat k with
                              | Some kk ->
                                (match nth_error s.s_iters kk with
                                 | Some it ->
                                   let (it', out) = iter_next s.s_store it in
                                   ({ s_store = s.s_store; s_iters =
                                   (upd s.s_iters kk it') },
                                   (match out with
                                    | Yield (i, r) ->
                                      SL ((SZ
                                        Z0) :: ((enat i) :: ((erow r) :: [])))
                                    | Stop ->
                                      SL ((SZ (Zpos (XO (XI XH)))) :: [])
                                    | Modified ->
                                      SL ((SZ (Zpos (XI XH))) :: [])))
                                 | None -> keep sx_fail)
                              | None -> keep sx_fail)
                           | _ :: _ -> keep sx_fail))
                     | _ -> keep sx_fail)
                  | XO p1 ->
                    (match p1 with
                     | XI _ -> keep sx_fail
                     | XO p2 ->
                       (match p2 with
                        | XH ->
                          (match l0 with
                           | [] ->
                             let t = s.s_store in
                             keep (SL
                               ((enat t.cap) :: ((enat (len t)) :: ((elist
                                                                    enat
                                                                    t.olist) :: (
                               (elist ebool t.occ) :: ((enat t.nadd) :: (
                               (enat t.nclear) :: [])))))))
                           | _ :: _ -> keep sx_fail)
                        | _ -> keep sx_fail)
                     | XH ->
                       (match l0 with
                        | [] ->
                          keep
                            (elist (fun p2 -> SL
                              ((enat (fst p2)) :: ((erow (snd p2)) :: [])))
                              (data s.s_store))
                        | _ :: _ -> keep sx_fail))
                  | XH ->
                    (match l0 with
                     | [] -> keep sx_fail
                     | c :: l1 ->
                       (match l1 with
                        | [] ->
                          (match dnat c with
                           | Some cc ->
                             let (s', r) = resize s.s_store cc in
                             ({ s_store = s'; s_iters = s.s_iters },
                             (eres (fun _ -> SL []) r))
                           | None -> keep sx_fail)
                        | _ :: _ -> keep sx_fail)))
               | XH ->
                 (match l0 with
                  | [] ->
                    ({ s_store = (clear s.s_store); s_iters = s.s_iters },
                      (SL ((SZ Z0) :: [])))
                  | _ :: _ -> keep sx_fail))
            | Zneg _ -> keep sx_fail)
         | SL _ -> keep sx_fail)))

(** val run_ops : st -> sx list -> sx list **)

let rec run_ops s = function
| [] -> []
| o :: t -> let (s', out) = run_op s o in out :: (run_ops s' t)

(** val run_C13 : sx -> sx **)

let run_C13 = function
| SZ _ -> sx_fail
| SL l ->
  (match l with
   | [] -> sx_fail
   | c :: l0 ->
     (match l0 with
      | [] -> sx_fail
      | s :: l1 ->
        (match s with
         | SZ _ -> sx_fail
         | SL ops ->
           (match l1 with
            | [] ->
              (match dnat c with
               | Some cc ->
                 SL (run_ops { s_store = (init cc); s_iters = [] } ops)
               | None -> sx_fail)
            | _ :: _ -> sx_fail))))
