
(** val negb : bool -> bool **)

let negb = function
| true -> false
| false -> true

type nat =
| O
| S of nat

(** val fst : ('a1 * 'a2) -> 'a1 **)

let fst = function
| (x, _) -> x

(** val snd : ('a1 * 'a2) -> 'a2 **)

let snd = function
| (_, y) -> y

(** val length : 'a1 list -> nat **)

let rec length = function
| [] -> O
| _ :: l' -> S (length l')

(** val app : 'a1 list -> 'a1 list -> 'a1 list **)

let rec app l m =
  match l with
  | [] -> m
  | a :: l1 -> a :: (app l1 m)

type comparison =
| Eq
| Lt
| Gt

(** val compOpp : comparison -> comparison **)

let compOpp = function
| Eq -> Eq
| Lt -> Gt
| Gt -> Lt

module Coq__1 = struct
 (** val add : nat -> nat -> nat **)
 let rec add n m =
   match n with
   | O -> m
   | S p -> S (add p m)
end
include Coq__1

(** val sub : nat -> nat -> nat **)

let rec sub n m =
  match n with
  | O -> n
  | S k -> (match m with
            | O -> n
            | S l -> sub k l)

module Nat =
 struct
  (** val eqb : nat -> nat -> bool **)

  let rec eqb n m =
    match n with
    | O -> (match m with
            | O -> true
            | S _ -> false)
    | S n' -> (match m with
               | O -> false
               | S m' -> eqb n' m')

  (** val leb : nat -> nat -> bool **)

  let rec leb n m =
    match n with
    | O -> true
    | S n' -> (match m with
               | O -> false
               | S m' -> leb n' m')

  (** val ltb : nat -> nat -> bool **)

  let ltb n m =
    leb (S n) m

  (** val divmod : nat -> nat -> nat -> nat -> nat * nat **)

  let rec divmod x y q0 u =
    match x with
    | O -> (q0, u)
    | S x' ->
      (match u with
       | O -> divmod x' y (S q0) y
       | S u' -> divmod x' y q0 u')

  (** val div : nat -> nat -> nat **)

  let div x y = match y with
  | O -> y
  | S y' -> fst (divmod x y' O y')
 end

(** val nth : nat -> 'a1 list -> 'a1 -> 'a1 **)

let rec nth n l default =
  match n with
  | O -> (match l with
          | [] -> default
          | x :: _ -> x)
  | S m -> (match l with
            | [] -> default
            | _ :: t -> nth m t default)

(** val nth_error : 'a1 list -> nat -> 'a1 option **)

let rec nth_error l = function
| O -> (match l with
        | [] -> None
        | x :: _ -> Some x)
| S n0 -> (match l with
           | [] -> None
           | _ :: l0 -> nth_error l0 n0)

(** val rev : 'a1 list -> 'a1 list **)

let rec rev = function
| [] -> []
| x :: l' -> app (rev l') (x :: [])

(** val map : ('a1 -> 'a2) -> 'a1 list -> 'a2 list **)

let rec map f = function
| [] -> []
| a :: t -> (f a) :: (map f t)

(** val fold_left : ('a1 -> 'a2 -> 'a1) -> 'a2 list -> 'a1 -> 'a1 **)

let rec fold_left f l a0 =
  match l with
  | [] -> a0
  | b :: t -> fold_left f t (f a0 b)

(** val fold_right : ('a2 -> 'a1 -> 'a1) -> 'a1 -> 'a2 list -> 'a1 **)

let rec fold_right f a0 = function
| [] -> a0
| b :: t -> f b (fold_right f a0 t)

(** val forallb : ('a1 -> bool) -> 'a1 list -> bool **)

let rec forallb f = function
| [] -> true
| a :: l0 -> (&&) (f a) (forallb f l0)

(** val filter : ('a1 -> bool) -> 'a1 list -> 'a1 list **)

let rec filter f = function
| [] -> []
| x :: l0 -> if f x then x :: (filter f l0) else filter f l0

(** val combine : 'a1 list -> 'a2 list -> ('a1 * 'a2) list **)

let rec combine l l' =
  match l with
  | [] -> []
  | x :: tl ->
    (match l' with
     | [] -> []
     | y :: tl' -> (x, y) :: (combine tl tl'))

(** val firstn : nat -> 'a1 list -> 'a1 list **)

let rec firstn n l =
  match n with
  | O -> []
  | S n0 -> (match l with
             | [] -> []
             | a :: l0 -> a :: (firstn n0 l0))

(** val skipn : nat -> 'a1 list -> 'a1 list **)

let rec skipn n l =
  match n with
  | O -> l
  | S n0 -> (match l with
             | [] -> []
             | _ :: l0 -> skipn n0 l0)

(** val seq : nat -> nat -> nat list **)

let rec seq start = function
| O -> []
| S len1 -> start :: (seq (S start) len1)

(** val repeat : 'a1 -> nat -> 'a1 list **)

let rec repeat x = function
| O -> []
| S k -> x :: (repeat x k)

type positive =
| XI of positive
| XO of positive
| XH

type z =
| Z0
| Zpos of positive
| Zneg of positive

module Pos =
 struct
  type mask =
  | IsNul
  | IsPos of positive
  | IsNeg
 end

module Coq_Pos =
 struct
  (** val succ : positive -> positive **)

  let rec succ = function
  | XI p -> XO (succ p)
  | XO p -> XI p
  | XH -> XO XH

  (** val add : positive -> positive -> positive **)

  let rec add x y =
    match x with
    | XI p ->
      (match y with
       | XI q0 -> XO (add_carry p q0)
       | XO q0 -> XI (add p q0)
       | XH -> XO (succ p))
    | XO p ->
      (match y with
       | XI q0 -> XI (add p q0)
       | XO q0 -> XO (add p q0)
       | XH -> XI p)
    | XH -> (match y with
             | XI q0 -> XO (succ q0)
             | XO q0 -> XI q0
             | XH -> XO XH)

  (** val add_carry : positive -> positive -> positive **)

  and add_carry x y =
    match x with
    | XI p ->
      (match y with
       | XI q0 -> XI (add_carry p q0)
       | XO q0 -> XO (add_carry p q0)
       | XH -> XI (succ p))
    | XO p ->
      (match y with
       | XI q0 -> XO (add_carry p q0)
       | XO q0 -> XI (add p q0)
       | XH -> XO (succ p))
    | XH ->
      (match y with
       | XI q0 -> XI (succ q0)
       | XO q0 -> XO (succ q0)
       | XH -> XI XH)

  (** val pred_double : positive -> positive **)

  let rec pred_double = function
  | XI p -> XI (XO p)
  | XO p -> XI (pred_double p)
  | XH -> XH

  type mask = Pos.mask =
  | IsNul
  | IsPos of positive
  | IsNeg

  (** val succ_double_mask : mask -> mask **)

  let succ_double_mask = function
  | IsNul -> IsPos XH
  | IsPos p -> IsPos (XI p)
  | IsNeg -> IsNeg

  (** val double_mask : mask -> mask **)

  let double_mask = function
  | IsPos p -> IsPos (XO p)
  | x0 -> x0

  (** val double_pred_mask : positive -> mask **)

  let double_pred_mask = function
  | XI p -> IsPos (XO (XO p))
  | XO p -> IsPos (XO (pred_double p))
  | XH -> IsNul

  (** val sub_mask : positive -> positive -> mask **)

  let rec sub_mask x y =
    match x with
    | XI p ->
      (match y with
       | XI q0 -> double_mask (sub_mask p q0)
       | XO q0 -> succ_double_mask (sub_mask p q0)
       | XH -> IsPos (XO p))
    | XO p ->
      (match y with
       | XI q0 -> succ_double_mask (sub_mask_carry p q0)
       | XO q0 -> double_mask (sub_mask p q0)
       | XH -> IsPos (pred_double p))
    | XH -> (match y with
             | XH -> IsNul
             | _ -> IsNeg)

  (** val sub_mask_carry : positive -> positive -> mask **)

  and sub_mask_carry x y =
    match x with
    | XI p ->
      (match y with
       | XI q0 -> succ_double_mask (sub_mask_carry p q0)
       | XO q0 -> double_mask (sub_mask p q0)
       | XH -> IsPos (pred_double p))
    | XO p ->
      (match y with
       | XI q0 -> double_mask (sub_mask_carry p q0)
       | XO q0 -> succ_double_mask (sub_mask_carry p q0)
       | XH -> double_pred_mask p)
    | XH -> IsNeg

  (** val sub : positive -> positive -> positive **)

  let sub x y =
    match sub_mask x y with
    | IsPos z0 -> z0
    | _ -> XH

  (** val mul : positive -> positive -> positive **)

  let rec mul x y =
    match x with
    | XI p -> add y (XO (mul p y))
    | XO p -> XO (mul p y)
    | XH -> y

  (** val size_nat : positive -> nat **)

  let rec size_nat = function
  | XI p0 -> S (size_nat p0)
  | XO p0 -> S (size_nat p0)
  | XH -> S O

  (** val compare_cont : comparison -> positive -> positive -> comparison **)

  let rec compare_cont r x y =
    match x with
    | XI p ->
      (match y with
       | XI q0 -> compare_cont r p q0
       | XO q0 -> compare_cont Gt p q0
       | XH -> Gt)
    | XO p ->
      (match y with
       | XI q0 -> compare_cont Lt p q0
       | XO q0 -> compare_cont r p q0
       | XH -> Gt)
    | XH -> (match y with
             | XH -> r
             | _ -> Lt)

  (** val compare : positive -> positive -> comparison **)

  let compare =
    compare_cont Eq

  (** val ggcdn :
      nat -> positive -> positive -> positive * (positive * positive) **)

  let rec ggcdn n a b =
    match n with
    | O -> (XH, (a, b))
    | S n0 ->
      (match a with
       | XI a' ->
         (match b with
          | XI b' ->
            (match compare a' b' with
             | Eq -> (a, (XH, XH))
             | Lt ->
               let (g, p) = ggcdn n0 (sub b' a') a in
               let (ba, aa) = p in (g, (aa, (add aa (XO ba))))
             | Gt ->
               let (g, p) = ggcdn n0 (sub a' b') b in
               let (ab, bb) = p in (g, ((add bb (XO ab)), bb)))
          | XO b0 ->
            let (g, p) = ggcdn n0 a b0 in
            let (aa, bb) = p in (g, (aa, (XO bb)))
          | XH -> (XH, (a, XH)))
       | XO a0 ->
         (match b with
          | XI _ ->
            let (g, p) = ggcdn n0 a0 b in
            let (aa, bb) = p in (g, ((XO aa), bb))
          | XO b0 -> let (g, p) = ggcdn n0 a0 b0 in ((XO g), p)
          | XH -> (XH, (a, XH)))
       | XH -> (XH, (XH, b)))

  (** val ggcd : positive -> positive -> positive * (positive * positive) **)

  let ggcd a b =
    ggcdn (Coq__1.add (size_nat a) (size_nat b)) a b

  (** val iter_op : ('a1 -> 'a1 -> 'a1) -> positive -> 'a1 -> 'a1 **)

  let rec iter_op op p a =
    match p with
    | XI p0 -> op a (iter_op op p0 (op a a))
    | XO p0 -> iter_op op p0 (op a a)
    | XH -> a

  (** val to_nat : positive -> nat **)

  let to_nat x =
    iter_op Coq__1.add x (S O)

  (** val of_succ_nat : nat -> positive **)

  let rec of_succ_nat = function
  | O -> XH
  | S x -> succ (of_succ_nat x)
 end

module Z =
 struct
  (** val double : z -> z **)

  let double = function
  | Z0 -> Z0
  | Zpos p -> Zpos (XO p)
  | Zneg p -> Zneg (XO p)

  (** val succ_double : z -> z **)

  let succ_double = function
  | Z0 -> Zpos XH
  | Zpos p -> Zpos (XI p)
  | Zneg p -> Zneg (Coq_Pos.pred_double p)

  (** val pred_double : z -> z **)

  let pred_double = function
  | Z0 -> Zneg XH
  | Zpos p -> Zpos (Coq_Pos.pred_double p)
  | Zneg p -> Zneg (XI p)

  (** val pos_sub : positive -> positive -> z **)

  let rec pos_sub x y =
    match x with
    | XI p ->
      (match y with
       | XI q0 -> double (pos_sub p q0)
       | XO q0 -> succ_double (pos_sub p q0)
       | XH -> Zpos (XO p))
    | XO p ->
      (match y with
       | XI q0 -> pred_double (pos_sub p q0)
       | XO q0 -> double (pos_sub p q0)
       | XH -> Zpos (Coq_Pos.pred_double p))
    | XH ->
      (match y with
       | XI q0 -> Zneg (XO q0)
       | XO q0 -> Zneg (Coq_Pos.pred_double q0)
       | XH -> Z0)

  (** val add : z -> z -> z **)

  let add x y =
    match x with
    | Z0 -> y
    | Zpos x' ->
      (match y with
       | Z0 -> x
       | Zpos y' -> Zpos (Coq_Pos.add x' y')
       | Zneg y' -> pos_sub x' y')
    | Zneg x' ->
      (match y with
       | Z0 -> x
       | Zpos y' -> pos_sub y' x'
       | Zneg y' -> Zneg (Coq_Pos.add x' y'))

  (** val opp : z -> z **)

  let opp = function
  | Z0 -> Z0
  | Zpos x0 -> Zneg x0
  | Zneg x0 -> Zpos x0

  (** val mul : z -> z -> z **)

  let mul x y =
    match x with
    | Z0 -> Z0
    | Zpos x' ->
      (match y with
       | Z0 -> Z0
       | Zpos y' -> Zpos (Coq_Pos.mul x' y')
       | Zneg y' -> Zneg (Coq_Pos.mul x' y'))
    | Zneg x' ->
      (match y with
       | Z0 -> Z0
       | Zpos y' -> Zneg (Coq_Pos.mul x' y')
       | Zneg y' -> Zpos (Coq_Pos.mul x' y'))

  (** val compare : z -> z -> comparison **)

  let compare x y =
    match x with
    | Z0 -> (match y with
             | Z0 -> Eq
             | Zpos _ -> Lt
             | Zneg _ -> Gt)
    | Zpos x' -> (match y with
                  | Zpos y' -> Coq_Pos.compare x' y'
                  | _ -> Gt)
    | Zneg x' ->
      (match y with
       | Zneg y' -> compOpp (Coq_Pos.compare x' y')
       | _ -> Lt)

  (** val sgn : z -> z **)

  let sgn = function
  | Z0 -> Z0
  | Zpos _ -> Zpos XH
  | Zneg _ -> Zneg XH

  (** val ltb : z -> z -> bool **)

  let ltb x y =
    match compare x y with
    | Lt -> true
    | _ -> false

  (** val abs : z -> z **)

  let abs = function
  | Zneg p -> Zpos p
  | x -> x

  (** val to_nat : z -> nat **)

  let to_nat = function
  | Zpos p -> Coq_Pos.to_nat p
  | _ -> O

  (** val of_nat : nat -> z **)

  let of_nat = function
  | O -> Z0
  | S n0 -> Zpos (Coq_Pos.of_succ_nat n0)

  (** val to_pos : z -> positive **)

  let to_pos = function
  | Zpos p -> p
  | _ -> XH

  (** val ggcd : z -> z -> z * (z * z) **)

  let ggcd a b =
    match a with
    | Z0 -> ((abs b), (Z0, (sgn b)))
    | Zpos a0 ->
      (match b with
       | Z0 -> ((abs a), ((sgn a), Z0))
       | Zpos b0 ->
         let (g, p) = Coq_Pos.ggcd a0 b0 in
         let (aa, bb) = p in ((Zpos g), ((Zpos aa), (Zpos bb)))
       | Zneg b0 ->
         let (g, p) = Coq_Pos.ggcd a0 b0 in
         let (aa, bb) = p in ((Zpos g), ((Zpos aa), (Zneg bb))))
    | Zneg a0 ->
      (match b with
       | Z0 -> ((abs a), ((sgn a), Z0))
       | Zpos b0 ->
         let (g, p) = Coq_Pos.ggcd a0 b0 in
         let (aa, bb) = p in ((Zpos g), ((Zneg aa), (Zpos bb)))
       | Zneg b0 ->
         let (g, p) = Coq_Pos.ggcd a0 b0 in
         let (aa, bb) = p in ((Zpos g), ((Zneg aa), (Zneg bb))))
 end

type q = { qnum : z; qden : positive }

(** val inject_Z : z -> q **)

let inject_Z x =
  { qnum = x; qden = XH }

(** val qplus : q -> q -> q **)

let qplus x y =
  { qnum = (Z.add (Z.mul x.qnum (Zpos y.qden)) (Z.mul y.qnum (Zpos x.qden)));
    qden = (Coq_Pos.mul x.qden y.qden) }

(** val qmult : q -> q -> q **)

let qmult x y =
  { qnum = (Z.mul x.qnum y.qnum); qden = (Coq_Pos.mul x.qden y.qden) }

(** val qopp : q -> q **)

let qopp x =
  { qnum = (Z.opp x.qnum); qden = x.qden }

(** val qminus : q -> q -> q **)

let qminus x y =
  qplus x (qopp y)

(** val qinv : q -> q **)

let qinv x =
  match x.qnum with
  | Z0 -> { qnum = Z0; qden = XH }
  | Zpos p -> { qnum = (Zpos x.qden); qden = p }
  | Zneg p -> { qnum = (Zneg x.qden); qden = p }

(** val qdiv : q -> q -> q **)

let qdiv x y =
  qmult x (qinv y)

(** val qred : q -> q **)

let qred q0 =
  let { qnum = q1; qden = q2 } = q0 in
  let (r1, r2) = snd (Z.ggcd q1 (Zpos q2)) in
  { qnum = r1; qden = (Z.to_pos r2) }

type sx =
| SZ of z
| SL of sx list

(** val sx_fail : sx **)

let sx_fail =
  SL ((SZ (Zneg (XI (XI (XI (XO (XO (XI (XI (XI (XI XH))))))))))) :: [])

(** val dz : sx -> z option **)

let dz = function
| SZ z0 -> Some z0
| SL _ -> None

(** val dnat : sx -> nat option **)

let dnat = function
| SZ z0 -> if Z.ltb z0 Z0 then None else Some (Z.to_nat z0)
| SL _ -> None

(** val dbool : sx -> bool option **)

let dbool = function
| SZ z0 ->
  (match z0 with
   | Z0 -> Some false
   | Zpos p -> (match p with
                | XH -> Some true
                | _ -> None)
   | Zneg _ -> None)
| SL _ -> None

(** val opt_all : 'a1 option list -> 'a1 list option **)

let rec opt_all = function
| [] -> Some []
| o :: t ->
  (match o with
   | Some x -> (match opt_all t with
                | Some r -> Some (x :: r)
                | None -> None)
   | None -> None)

(** val dlist : (sx -> 'a1 option) -> sx -> 'a1 list option **)

let dlist f = function
| SZ _ -> None
| SL l -> opt_all (map f l)

(** val dq : sx -> q option **)

let dq = function
| SZ _ -> None
| SL l ->
  (match l with
   | [] -> None
   | s0 :: l0 ->
     (match s0 with
      | SZ n ->
        (match l0 with
         | [] -> None
         | s1 :: l1 ->
           (match s1 with
            | SZ d ->
              (match l1 with
               | [] ->
                 if Z.ltb Z0 d
                 then Some { qnum = n; qden = (Z.to_pos d) }
                 else None
               | _ :: _ -> None)
            | SL _ -> None))
      | SL _ -> None))

(** val ez : z -> sx **)

let ez z0 =
  SZ z0

(** val enat : nat -> sx **)

let enat n =
  SZ (Z.of_nat n)

(** val ebool : bool -> sx **)

let ebool b =
  SZ (if b then Zpos XH else Z0)

(** val elist : ('a1 -> sx) -> 'a1 list -> sx **)

let elist f l =
  SL (map f l)

(** val eq_ : q -> sx **)

let eq_ q0 =
  let r = qred q0 in SL ((SZ r.qnum) :: ((SZ (Zpos r.qden)) :: []))

(** val eopt : ('a1 -> sx) -> 'a1 option -> sx **)

let eopt f = function
| Some x -> SL ((f x) :: [])
| None -> SL []

(** val upd : 'a1 list -> nat -> 'a1 -> 'a1 list **)

let rec upd l i x =
  match l with
  | [] -> []
  | h :: t -> (match i with
               | O -> x :: t
               | S j -> h :: (upd t j x))

(** val insert_uniq : nat -> nat list -> nat list **)

let rec insert_uniq i l = match l with
| [] -> i :: []
| j :: t ->
  if Nat.ltb i j
  then i :: l
  else if Nat.eqb i j then l else j :: (insert_uniq i t)

(** val sort_uniq : nat list -> nat list **)

let sort_uniq l =
  fold_right insert_uniq [] l

type err =
| ValueError
| IndexError
| RuntimeError
| KeyError
| TypeError
| StopIteration
| OtherError

type 'a result =
| Ok of 'a
| Err of err

type 'r store = { cap : nat; occ : bool list; olist : nat list;
                  rows : 'r option list; nadd : nat; nclear : nat }

(** val init : nat -> 'a1 store **)

let init c =
  { cap = c; occ = (repeat false c); olist = []; rows = (repeat None c);
    nadd = O; nclear = O }

(** val get_occ : 'a1 store -> nat -> bool **)

let get_occ s i =
  nth i s.occ false

(** val get_row : 'a1 store -> nat -> 'a1 option **)

let get_row s i =
  nth i s.rows None

(** val len : 'a1 store -> nat **)

let len s =
  length s.olist

(** val in_range : 'a1 store -> nat list -> bool **)

let in_range s idxs =
  forallb (fun i -> Nat.ltb i s.cap) idxs

(** val retrieve :
    'a1 store -> nat list -> (bool * 'a1 option) list result **)

let retrieve s idxs =
  if in_range s idxs
  then Ok (map (fun i -> ((get_occ s i), (get_row s i))) idxs)
  else Err IndexError

(** val data : 'a1 store -> (nat * 'a1 option) list **)

let data s =
  map (fun i -> (i, (get_row s i))) s.olist

(** val new_indices : 'a1 store -> nat list -> nat list **)

let new_indices s idxs =
  filter (fun i -> negb (get_occ s i)) (sort_uniq idxs)

(** val write_rows :
    'a1 option list -> nat list -> 'a1 list -> 'a1 option list **)

let write_rows rs idxs xs =
  fold_left (fun r ix -> upd r (fst ix) (Some (snd ix))) (combine idxs xs) rs

(** val mark : bool list -> nat list -> bool list **)

let mark o new0 =
  fold_left (fun o0 i -> upd o0 i true) new0 o

(** val bump_add : 'a1 store -> 'a1 store **)

let bump_add s =
  { cap = s.cap; occ = s.occ; olist = s.olist; rows = s.rows; nadd = (S
    s.nadd); nclear = s.nclear }

(** val add_raw :
    'a1 store -> nat list -> 'a1 list -> bool -> 'a1 store * unit result **)

let add_raw s idxs xs keys_ok =
  if Nat.eqb (length idxs) O
  then (s, (Ok ()))
  else if negb (Nat.eqb (length idxs) (length xs))
       then (s, (Err ValueError))
       else if negb keys_ok
            then (s, (Err ValueError))
            else if negb (in_range s idxs)
                 then (s, (Err IndexError))
                 else let new0 = new_indices s idxs in
                      ({ cap = s.cap; occ = (mark s.occ new0); olist =
                      (app s.olist new0); rows = (write_rows s.rows idxs xs);
                      nadd = s.nadd; nclear = s.nclear }, (Ok ()))

type 'r transform =
  nat list -> 'r list -> (bool * 'r option) list -> nat list * 'r list

(** val run_transforms :
    'a1 store -> 'a1 transform list -> nat list -> 'a1 list -> (nat
    list * 'a1 list) result **)

let rec run_transforms s ts idxs xs =
  match ts with
  | [] -> Ok (idxs, xs)
  | t :: ts' ->
    (match retrieve s idxs with
     | Ok view -> let (i', x') = t idxs xs view in run_transforms s ts' i' x'
     | Err e -> Err e)

(** val add0 :
    'a1 store -> nat list -> 'a1 list -> 'a1 transform list -> bool -> 'a1
    store * unit result **)

let add0 s idxs xs ts keys_ok =
  let s1 = bump_add s in
  (match run_transforms s1 ts idxs xs with
   | Ok a -> let (i', x') = a in add_raw s1 i' x' keys_ok
   | Err e -> (s1, (Err e)))

(** val clear : 'a1 store -> 'a1 store **)

let clear s =
  { cap = s.cap; occ = (repeat false s.cap); olist = []; rows = s.rows;
    nadd = s.nadd; nclear = (S s.nclear) }

(** val resize : 'a1 store -> nat -> 'a1 store * unit result **)

let resize s c =
  if Nat.leb c s.cap
  then (s, (Err ValueError))
  else ({ cap = c; occ = (app s.occ (repeat false (sub c s.cap))); olist =
         s.olist; rows = (app s.rows (repeat None (sub c s.cap))); nadd =
         s.nadd; nclear = s.nclear }, (Ok ()))

type 'r raw = { r_cap : nat; r_occ : bool list; r_nocc : nat;
                r_olist : nat list; r_rows : 'r option list; r_nadd : 
                nat; r_nclear : nat }

(** val as_raw : 'a1 store -> 'a1 raw **)

let as_raw s =
  { r_cap = s.cap; r_occ = s.occ; r_nocc = (length s.olist); r_olist =
    s.olist; r_rows = s.rows; r_nadd = s.nadd; r_nclear = s.nclear }

(** val from_raw : 'a1 raw -> 'a1 store **)

let from_raw r =
  { cap = r.r_cap; occ = r.r_occ; olist = (firstn r.r_nocc r.r_olist); rows =
    r.r_rows; nadd = r.r_nadd; nclear = r.r_nclear }

type iter = { it_pos : nat; it_add : nat; it_clear : nat }

(** val iter_new : 'a1 store -> iter **)

let iter_new s =
  { it_pos = O; it_add = s.nadd; it_clear = s.nclear }

type 'r iter_out =
| Yield of nat * 'r option
| Stop
| Modified

(** val iter_next : 'a1 store -> iter -> iter * 'a1 iter_out **)

let iter_next s it =
  if negb ((&&) (Nat.eqb it.it_add s.nadd) (Nat.eqb it.it_clear s.nclear))
  then (it, Modified)
  else if Nat.leb (len s) it.it_pos
       then (it, Stop)
       else let i = nth it.it_pos s.olist O in
            ({ it_pos = (S it.it_pos); it_add = it.it_add; it_clear =
            it.it_clear }, (Yield (i, (get_row s i))))

(** val err_code : err -> z **)

let err_code = function
| ValueError -> Zpos XH
| IndexError -> Zpos (XO XH)
| RuntimeError -> Zpos (XI XH)
| KeyError -> Zpos (XO (XO XH))
| TypeError -> Zpos (XI (XO XH))
| StopIteration -> Zpos (XO (XI XH))
| OtherError -> Zpos (XI (XI XH))

(** val eres : ('a1 -> sx) -> 'a1 result -> sx **)

let eres f = function
| Ok a -> SL ((SZ Z0) :: ((f a) :: []))
| Err e -> SL ((SZ (err_code e)) :: [])

(** val erow : z option -> sx **)

let erow r =
  eopt ez r

type st = { s_store : z store; s_iters : iter list }

(** val const_transform : nat list -> z list -> z transform **)

let const_transform i' x' _ _ _ =
  (i', x')

(** val dtransform : sx -> z transform option **)

let dtransform = function
| SZ _ -> None
| SL l ->
  (match l with
   | [] -> None
   | a :: l0 ->
     (match l0 with
      | [] -> None
      | b :: l1 ->
        (match l1 with
         | [] ->
           (match dlist dnat a with
            | Some i' ->
              (match dlist dz b with
               | Some x' -> Some (const_transform i' x')
               | None -> None)
            | None -> None)
         | _ :: _ -> None)))

(** val run_op : st -> sx -> st * sx **)

let run_op s o =
  let keep = fun out -> (s, out) in
  (match o with
   | SZ _ -> keep sx_fail
   | SL l ->
     (match l with
      | [] -> keep sx_fail
      | s0 :: l0 ->
        (match s0 with
         | SZ z0 ->
           (match z0 with
            | Z0 ->
              (match l0 with
               | [] -> keep sx_fail
               | a :: l1 ->
                 (match l1 with
                  | [] -> keep sx_fail
                  | b :: l2 ->
                    (match l2 with
                     | [] -> keep sx_fail
                     | k :: l3 ->
                       (match l3 with
                        | [] -> keep sx_fail
                        | ts :: l4 ->
                          (match l4 with
                           | [] ->
                             (match dlist dnat a with
                              | Some idxs ->
                                (match dlist dz b with
                                 | Some xs ->
                                   (match dbool k with
                                    | Some kk ->
                                      (match dlist dtransform ts with
                                       | Some tl ->
                                         let (s', r) =
                                           add0 s.s_store idxs xs tl kk
                                         in
                                         ({ s_store = s'; s_iters =
                                         s.s_iters },
                                         (eres (fun _ -> SL []) r))
                                       | None -> keep sx_fail)
                                    | None -> keep sx_fail)
                                 | None -> keep sx_fail)
                              | None -> keep sx_fail)
                           | _ :: _ -> keep sx_fail)))))
            | Zpos p ->
              (match p with
               | XI p0 ->
                 (match p0 with
                  | XI p1 ->
                    (match p1 with
                     | XH ->
                       (match l0 with
                        | [] ->
                          ({ s_store = (from_raw (as_raw s.s_store));
                            s_iters = s.s_iters }, (SL ((SZ Z0) :: [])))
                        | _ :: _ -> keep sx_fail)
                     | _ -> keep sx_fail)
                  | XO p1 ->
                    (match p1 with
                     | XH ->
                       (match l0 with
                        | [] ->
                          ({ s_store = s.s_store; s_iters =
                            (app s.s_iters ((iter_new s.s_store) :: [])) },
                            (enat (length s.s_iters)))
                        | _ :: _ -> keep sx_fail)
                     | _ -> keep sx_fail)
                  | XH ->
                    (match l0 with
                     | [] -> keep sx_fail
                     | a :: l1 ->
                       (match l1 with
                        | [] ->
                          (match dlist dnat a with
                           | Some idxs ->
                             keep
                               (eres
                                 (elist (fun p1 -> SL
                                   ((ebool (fst p1)) :: ((erow (snd p1)) :: []))))
                                 (retrieve s.s_store idxs))
                           | None -> keep sx_fail)
                        | _ :: _ -> keep sx_fail)))
               | XO p0 ->
                 (match p0 with
                  | XI p1 ->
                    (match p1 with
                     | XH ->
                       (match l0 with
                        | [] -> keep sx_fail
                        | k :: l1 ->
                          (match l1 with
                           | [] ->
                             (match dnat k with
                              | Some kk ->
                                (match nth_error s.s_iters kk with
                                 | Some it ->
                                   let (it', out) = iter_next s.s_store it in
                                   ({ s_store = s.s_store; s_iters =
                                   (upd s.s_iters kk it') },
                                   (match out with
                                    | Yield (i, r) ->
                                      SL ((SZ
                                        Z0) :: ((enat i) :: ((erow r) :: [])))
                                    | Stop ->
                                      SL ((SZ (Zpos (XO (XI XH)))) :: [])
                                    | Modified ->
                                      SL ((SZ (Zpos (XI XH))) :: [])))
                                 | None -> keep sx_fail)
                              | None -> keep sx_fail)
                           | _ :: _ -> keep sx_fail))
                     | _ -> keep sx_fail)
                  | XO p1 ->
                    (match p1 with
                     | XI _ -> keep sx_fail
                     | XO p2 ->
                       (match p2 with
                        | XH ->
                          (match l0 with
                           | [] ->
                             let t = s.s_store in
                             keep (SL
                               ((enat t.cap) :: ((enat (len t)) :: ((elist
                                                                    enat
                                                                    t.olist) :: (
                               (elist ebool t.occ) :: ((enat t.nadd) :: (
                               (enat t.nclear) :: [])))))))
                           | _ :: _ -> keep sx_fail)
                        | _ -> keep sx_fail)
                     | XH ->
                       (match l0 with
                        | [] ->
                          keep
                            (elist (fun p2 -> SL
                              ((enat (fst p2)) :: ((erow (snd p2)) :: [])))
                              (data s.s_store))
                        | _ :: _ -> keep sx_fail))
                  | XH ->
                    (match l0 with
                     | [] -> keep sx_fail
                     | c :: l1 ->
                       (match l1 with
                        | [] ->
                          (match dnat c with
                           | Some cc ->
                             let (s', r) = resize s.s_store cc in
                             ({ s_store = s'; s_iters = s.s_iters },
                             (eres (fun _ -> SL []) r))
                           | None -> keep sx_fail)
                        | _ :: _ -> keep sx_fail)))
               | XH ->
                 (match l0 with
                  | [] ->
                    ({ s_store = (clear s.s_store); s_iters = s.s_iters },
                      (SL ((SZ Z0) :: [])))
                  | _ :: _ -> keep sx_fail))
            | Zneg _ -> keep sx_fail)
         | SL _ -> keep sx_fail)))

(** val run_ops : st -> sx list -> sx list **)

let rec run_ops s = function
| [] -> []
| o :: t -> let (s', out) = run_op s o in out :: (run_ops s' t)

(** val run_C13 : sx -> sx **)

let run_C13 = function
| SZ _ -> sx_fail
| SL l ->
  (match l with
   | [] -> sx_fail
   | c :: l0 ->
     (match l0 with
      | [] -> sx_fail
      | s :: l1 ->
        (match s with
         | SZ _ -> sx_fail
         | SL ops ->
           (match l1 with
            | [] ->
              (match dnat c with
               | Some cc ->
                 SL (run_ops { s_store = (init cc); s_iters = [] } ops)
               | None -> sx_fail)
            | _ :: _ -> sx_fail))))

(** val scatter :
    'a1 option list -> nat list -> 'a1 list -> 'a1 option list **)

let rec scatter arr idxs vals =
  match idxs with
  | [] -> arr
  | i :: it ->
    (match vals with
     | [] -> arr
     | v :: vt -> scatter (upd arr i (Some v)) it vt)

(** val select : nat list -> bool list -> nat list **)

let rec select idxs mask0 =
  match idxs with
  | [] -> []
  | i :: it ->
    (match mask0 with
     | [] -> []
     | b :: bt -> if b then i :: (select it bt) else select it bt)

type ('d, 'sol) ask_result =
| Done of 'sol option list * 'd option list * nat * nat
| NeedMore of nat
| OutOfFuel

(** val ask_loop :
    ('a1 -> 'a2) -> ('a2 -> bool) -> nat -> nat list -> 'a1 list -> 'a2
    option list -> 'a1 option list -> nat -> nat -> ('a1, 'a2) ask_result **)

let rec ask_loop f oob fuel remaining stream sols noise rounds consumed =
  match remaining with
  | [] -> Done (sols, noise, rounds, consumed)
  | _ :: _ ->
    (match fuel with
     | O -> OutOfFuel
     | S fuel' ->
       let k = length remaining in
       if Nat.ltb (length stream) k
       then NeedMore (sub k (length stream))
       else let z0 = firstn k stream in
            let noise' = scatter noise remaining z0 in
            let new0 = map f z0 in
            let sols' = scatter sols remaining new0 in
            let remaining' = select remaining (map oob new0) in
            ask_loop f oob fuel' remaining' (skipn k stream) sols' noise' (S
              rounds) (add consumed k))

(** val ask :
    ('a1 -> 'a2) -> ('a2 -> bool) -> nat -> 'a1 list -> ('a1, 'a2) ask_result **)

let ask f oob batch stream =
  ask_loop f oob (S (length stream)) (seq O batch) stream (repeat None batch)
    (repeat None batch) O O

(** val ask_mirror :
    ('a1 -> 'a2) -> ('a1 -> 'a1) -> nat -> 'a1 list -> ('a1, 'a2) ask_result **)

let ask_mirror f neg batch stream =
  let h = Nat.div batch (S (S O)) in
  if Nat.ltb (length stream) h
  then NeedMore (sub h (length stream))
  else let half = firstn h stream in
       let noise = app half (map neg half) in
       Done ((map (fun d -> Some (f d)) noise),
       (map (fun x -> Some x) noise), (S O), h)

(** val vadd : q list -> q list -> q list **)

let vadd a b =
  map (fun p -> qplus (fst p) (snd p)) (combine a b)

(** val vscale : q -> q list -> q list **)

let vscale c a =
  map (qmult c) a

(** val gather : 'a1 -> 'a1 list -> nat list -> 'a1 list **)

let gather d arr idxs =
  map (fun i -> nth i arr d) idxs

(** val select_parents : 'a1 -> 'a1 list -> nat list -> nat -> 'a1 list **)

let select_parents d sols ranking num_parents =
  firstn num_parents (gather d sols ranking)

(** val wmean : nat -> q list -> q list list -> q list **)

let wmean dim weights parents =
  fold_left vadd
    (map (fun p -> vscale (fst p) (snd p)) (combine weights parents))
    (repeat { qnum = Z0; qden = XH } dim)

type counter_kind =
| Evals
| Gens

type dstate = { d_mean : q list; d_count : nat }

(** val tell_mean :
    counter_kind -> (nat -> q list) -> dstate -> q list list -> nat list ->
    nat -> dstate **)

let tell_mean kind weights s sols ranking num_parents =
  let count' =
    match kind with
    | Evals -> add s.d_count (length ranking)
    | Gens -> add s.d_count (S O)
  in
  if Nat.eqb num_parents O
  then { d_mean = s.d_mean; d_count = count' }
  else { d_mean =
         (wmean (length s.d_mean) (weights num_parents)
           (select_parents [] sols ranking num_parents)); d_count = count' }

(** val openai_ranks : nat -> nat list -> nat option list **)

let openai_ranks batch ranking =
  scatter (repeat None batch) (rev ranking) (seq O batch)

(** val qnat : nat -> q **)

let qnat n =
  inject_Z (Z.of_nat n)

(** val centred : nat -> nat option -> q **)

let centred batch = function
| Some k ->
  qminus (qdiv (qnat k) (qnat (sub batch (S O)))) { qnum = (Zpos XH); qden =
    (XO XH) }
| None -> { qnum = Z0; qden = XH }

(** val vsum : nat -> q list list -> q list **)

let vsum dim rows0 =
  fold_left vadd rows0 (repeat { qnum = Z0; qden = XH } dim)

(** val openai_gradient :
    bool -> nat -> nat -> q -> q list list -> nat list -> q list **)

let openai_gradient mirror batch dim sigma0 noise ranking =
  let cr = map (centred batch) (openai_ranks batch ranking) in
  if mirror
  then let h = Nat.div batch (S (S O)) in
       let diff =
         map (fun p -> qminus (fst p) (snd p))
           (combine (firstn h cr) (skipn h cr))
       in
       vscale (qinv (qmult (qnat h) sigma0))
         (vsum dim
           (map (fun p -> vscale (snd p) (fst p))
             (combine (firstn h noise) diff)))
  else vscale (qinv (qmult (qnat batch) sigma0))
         (vsum dim (map (fun p -> vscale (snd p) (fst p)) (combine noise cr)))

(** val eresult :
    ('a2 -> sx) -> ('a1 -> sx) -> ('a1, 'a2) ask_result -> sx **)

let eresult es ed = function
| Done (sols, noise, rounds, consumed) ->
  SL ((SZ
    Z0) :: ((enat rounds) :: ((enat consumed) :: ((elist (eopt es) sols) :: (
    (elist (eopt ed) noise) :: [])))))
| NeedMore k -> SL ((SZ (Zpos XH)) :: ((enat k) :: []))
| OutOfFuel -> SL ((SZ (Zpos (XO XH))) :: [])

(** val run_C18 : sx -> sx **)

let run_C18 = function
| SZ _ -> sx_fail
| SL l ->
  (match l with
   | [] -> sx_fail
   | s :: l0 ->
     (match s with
      | SZ z0 ->
        (match z0 with
         | Z0 ->
           (match l0 with
            | [] -> sx_fail
            | b :: l1 ->
              (match l1 with
               | [] -> sx_fail
               | fl :: l2 ->
                 (match l2 with
                  | [] ->
                    (match dnat b with
                     | Some batch ->
                       (match dlist dbool fl with
                        | Some flags ->
                          eresult enat enat
                            (ask (fun d -> d) (fun s0 -> nth s0 flags false)
                              batch (seq O (length flags)))
                        | None -> sx_fail)
                     | None -> sx_fail)
                  | _ :: _ -> sx_fail)))
         | Zpos p ->
           (match p with
            | XI p0 ->
              (match p0 with
               | XH ->
                 (match l0 with
                  | [] -> sx_fail
                  | mi :: l1 ->
                    (match l1 with
                     | [] -> sx_fail
                     | b :: l2 ->
                       (match l2 with
                        | [] -> sx_fail
                        | d :: l3 ->
                          (match l3 with
                           | [] -> sx_fail
                           | s0 :: l4 ->
                             (match l4 with
                              | [] -> sx_fail
                              | nz :: l5 ->
                                (match l5 with
                                 | [] -> sx_fail
                                 | rk :: l6 ->
                                   (match l6 with
                                    | [] ->
                                      (match dbool mi with
                                       | Some mirror ->
                                         (match dnat b with
                                          | Some batch ->
                                            (match dnat d with
                                             | Some dim ->
                                               (match dq s0 with
                                                | Some sigma0 ->
                                                  (match dlist (dlist dq) nz with
                                                   | Some noise ->
                                                     (match dlist dnat rk with
                                                      | Some ranking ->
                                                        SL
                                                          ((elist eq_
                                                             (openai_gradient
                                                               mirror batch
                                                               dim sigma0
                                                               noise ranking)) :: (
                                                          (elist (eopt enat)
                                                            (openai_ranks
                                                              batch ranking)) :: []))
                                                      | None -> sx_fail)
                                                   | None -> sx_fail)
                                                | None -> sx_fail)
                                             | None -> sx_fail)
                                          | None -> sx_fail)
                                       | None -> sx_fail)
                                    | _ :: _ -> sx_fail)))))))
               | _ -> sx_fail)
            | XO p0 ->
              (match p0 with
               | XH ->
                 (match l0 with
                  | [] -> sx_fail
                  | k :: l1 ->
                    (match l1 with
                     | [] -> sx_fail
                     | m :: l2 ->
                       (match l2 with
                        | [] -> sx_fail
                        | c :: l3 ->
                          (match l3 with
                           | [] -> sx_fail
                           | ss :: l4 ->
                             (match l4 with
                              | [] -> sx_fail
                              | rk :: l5 ->
                                (match l5 with
                                 | [] -> sx_fail
                                 | np :: l6 ->
                                   (match l6 with
                                    | [] -> sx_fail
                                    | ws :: l7 ->
                                      (match l7 with
                                       | [] ->
                                         (match dnat k with
                                          | Some kind ->
                                            (match dlist dq m with
                                             | Some mean ->
                                               (match dnat c with
                                                | Some count ->
                                                  (match dlist (dlist dq) ss with
                                                   | Some sols ->
                                                     (match dlist dnat rk with
                                                      | Some ranking ->
                                                        (match dnat np with
                                                         | Some nump ->
                                                           (match dlist dq ws with
                                                            | Some weights ->
                                                              let s' =
                                                                tell_mean
                                                                  (if 
                                                                    Nat.eqb
                                                                    kind O
                                                                   then Evals
                                                                   else Gens)
                                                                  (fun _ ->
                                                                  weights)
                                                                  { d_mean =
                                                                  mean;
                                                                  d_count =
                                                                  count }
                                                                  sols
                                                                  ranking nump
                                                              in
                                                              SL
                                                              ((elist eq_
                                                                 s'.d_mean) :: (
                                                              (enat
                                                                s'.d_count) :: (
                                                              (elist enat
                                                                (select_parents
                                                                  O
                                                                  (seq O
                                                                    (length
                                                                    sols))
                                                                  ranking
                                                                  nump)) :: [])))
                                                            | None -> sx_fail)
                                                         | None -> sx_fail)
                                                      | None -> sx_fail)
                                                   | None -> sx_fail)
                                                | None -> sx_fail)
                                             | None -> sx_fail)
                                          | None -> sx_fail)
                                       | _ :: _ -> sx_fail))))))))
               | _ -> sx_fail)
            | XH ->
              (match l0 with
               | [] -> sx_fail
               | b :: l1 ->
                 (match l1 with
                  | [] -> sx_fail
                  | a :: l2 ->
                    (match l2 with
                     | [] ->
                       (match dnat b with
                        | Some batch ->
                          (match dnat a with
                           | Some avail ->
                             eresult ez ez
                               (ask_mirror (fun d -> d) Z.opp batch
                                 (map (fun k -> Z.of_nat (S k)) (seq O avail)))
                           | None -> sx_fail)
                        | None -> sx_fail)
                     | _ :: _ -> sx_fail))))
         | Zneg _ -> sx_fail)
      | SL _ -> sx_fail))
