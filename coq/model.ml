
(** val negb : bool -> bool **)

let negb = function
| true -> false
| false -> true

type nat =
| O
| S of nat

(** val fst : ('a1 * 'a2) -> 'a1 **)

let fst = function
| (x, _) -> x

(** val snd : ('a1 * 'a2) -> 'a2 **)

let snd = function
| (_, y) -> y

(** val length : 'a1 list -> nat **)

let rec length = function
| [] -> O
| _ :: l' -> S (length l')

(** val app : 'a1 list -> 'a1 list -> 'a1 list **)

let rec app l m =
  match l with
  | [] -> m
  | a :: l1 -> a :: (app l1 m)

type comparison =
| Eq
| Lt
| Gt

(** val compOpp : comparison -> comparison **)

let compOpp = function
| Eq -> Eq
| Lt -> Gt
| Gt -> Lt

module Coq__1 = struct
 (** val add : nat -> nat -> nat **)
 let rec add n m =
   match n with
   | O -> m
   | S p -> S (add p m)
end
include Coq__1

(** val sub : nat -> nat -> nat **)

let rec sub n m =
  match n with
  | O -> n
  | S k -> (match m with
            | O -> n
            | S l -> sub k l)

module Nat =
 struct
  (** val sub : nat -> nat -> nat **)

  let rec sub n m =
    match n with
    | O -> n
    | S k -> (match m with
              | O -> n
              | S l -> sub k l)

  (** val eqb : nat -> nat -> bool **)

  let rec eqb n m =
    match n with
    | O -> (match m with
            | O -> true
            | S _ -> false)
    | S n' -> (match m with
               | O -> false
               | S m' -> eqb n' m')

  (** val leb : nat -> nat -> bool **)

  let rec leb n m =
    match n with
    | O -> true
    | S n' -> (match m with
               | O -> false
               | S m' -> leb n' m')

  (** val ltb : nat -> nat -> bool **)

  let ltb n m =
    leb (S n) m

  (** val divmod : nat -> nat -> nat -> nat -> nat * nat **)

  let rec divmod x y q u =
    match x with
    | O -> (q, u)
    | S x' ->
      (match u with
       | O -> divmod x' y (S q) y
       | S u' -> divmod x' y q u')

  (** val div : nat -> nat -> nat **)

  let div x y = match y with
  | O -> y
  | S y' -> fst (divmod x y' O y')

  (** val modulo : nat -> nat -> nat **)

  let modulo x = function
  | O -> x
  | S y' -> sub y' (snd (divmod x y' O y'))
 end

(** val hd : 'a1 -> 'a1 list -> 'a1 **)

let hd default = function
| [] -> default
| x :: _ -> x

(** val nth : nat -> 'a1 list -> 'a1 -> 'a1 **)

let rec nth n l default =
  match n with
  | O -> (match l with
          | [] -> default
          | x :: _ -> x)
  | S m -> (match l with
            | [] -> default
            | _ :: t0 -> nth m t0 default)

(** val nth_error : 'a1 list -> nat -> 'a1 option **)

let rec nth_error l = function
| O -> (match l with
        | [] -> None
        | x :: _ -> Some x)
| S n0 -> (match l with
           | [] -> None
           | _ :: l0 -> nth_error l0 n0)

(** val last : 'a1 list -> 'a1 -> 'a1 **)

let rec last l d =
  match l with
  | [] -> d
  | a :: l0 -> (match l0 with
                | [] -> a
                | _ :: _ -> last l0 d)

(** val map : ('a1 -> 'a2) -> 'a1 list -> 'a2 list **)

let rec map f = function
| [] -> []
| a :: t0 -> (f a) :: (map f t0)

(** val flat_map : ('a1 -> 'a2 list) -> 'a1 list -> 'a2 list **)

let rec flat_map f = function
| [] -> []
| x :: t0 -> app (f x) (flat_map f t0)

(** val fold_left : ('a1 -> 'a2 -> 'a1) -> 'a2 list -> 'a1 -> 'a1 **)

let rec fold_left f l a0 =
  match l with
  | [] -> a0
  | b :: t0 -> fold_left f t0 (f a0 b)

(** val fold_right : ('a2 -> 'a1 -> 'a1) -> 'a1 -> 'a2 list -> 'a1 **)

let rec fold_right f a0 = function
| [] -> a0
| b :: t0 -> f b (fold_right f a0 t0)

(** val existsb : ('a1 -> bool) -> 'a1 list -> bool **)

let rec existsb f = function
| [] -> false
| a :: l0 -> (||) (f a) (existsb f l0)

(** val forallb : ('a1 -> bool) -> 'a1 list -> bool **)

let rec forallb f = function
| [] -> true
| a :: l0 -> (&&) (f a) (forallb f l0)

(** val filter : ('a1 -> bool) -> 'a1 list -> 'a1 list **)

let rec filter f = function
| [] -> []
| x :: l0 -> if f x then x :: (filter f l0) else filter f l0

(** val combine : 'a1 list -> 'a2 list -> ('a1 * 'a2) list **)

let rec combine l l' =
  match l with
  | [] -> []
  | x :: tl ->
    (match l' with
     | [] -> []
     | y :: tl' -> (x, y) :: (combine tl tl'))

(** val firstn : nat -> 'a1 list -> 'a1 list **)

let rec firstn n l =
  match n with
  | O -> []
  | S n0 -> (match l with
             | [] -> []
             | a :: l0 -> a :: (firstn n0 l0))

(** val seq : nat -> nat -> nat list **)

let rec seq start = function
| O -> []
| S len1 -> start :: (seq (S start) len1)

(** val repeat : 'a1 -> nat -> 'a1 list **)

let rec repeat x = function
| O -> []
| S k -> x :: (repeat x k)

type positive =
| XI of positive
| XO of positive
| XH

type z =
| Z0
| Zpos of positive
| Zneg of positive

module Pos =
 struct
  (** val succ : positive -> positive **)

  let rec succ = function
  | XI p -> XO (succ p)
  | XO p -> XI p
  | XH -> XO XH

  (** val add : positive -> positive -> positive **)

  let rec add x y =
    match x with
    | XI p ->
      (match y with
       | XI q -> XO (add_carry p q)
       | XO q -> XI (add p q)
       | XH -> XO (succ p))
    | XO p ->
      (match y with
       | XI q -> XI (add p q)
       | XO q -> XO (add p q)
       | XH -> XI p)
    | XH -> (match y with
             | XI q -> XO (succ q)
             | XO q -> XI q
             | XH -> XO XH)

  (** val add_carry : positive -> positive -> positive **)

  and add_carry x y =
    match x with
    | XI p ->
      (match y with
       | XI q -> XI (add_carry p q)
       | XO q -> XO (add_carry p q)
       | XH -> XI (succ p))
    | XO p ->
      (match y with
       | XI q -> XO (add_carry p q)
       | XO q -> XI (add p q)
       | XH -> XO (succ p))
    | XH ->
      (match y with
       | XI q -> XI (succ q)
       | XO q -> XO (succ q)
       | XH -> XI XH)

  (** val pred_double : positive -> positive **)

  let rec pred_double = function
  | XI p -> XI (XO p)
  | XO p -> XI (pred_double p)
  | XH -> XH

  (** val mul : positive -> positive -> positive **)

  let rec mul x y =
    match x with
    | XI p -> add y (XO (mul p y))
    | XO p -> XO (mul p y)
    | XH -> y

  (** val compare_cont : comparison -> positive -> positive -> comparison **)

  let rec compare_cont r x y =
    match x with
    | XI p ->
      (match y with
       | XI q -> compare_cont r p q
       | XO q -> compare_cont Gt p q
       | XH -> Gt)
    | XO p ->
      (match y with
       | XI q -> compare_cont Lt p q
       | XO q -> compare_cont r p q
       | XH -> Gt)
    | XH -> (match y with
             | XH -> r
             | _ -> Lt)

  (** val compare : positive -> positive -> comparison **)

  let compare =
    compare_cont Eq

  (** val eqb : positive -> positive -> bool **)

  let rec eqb p q =
    match p with
    | XI p0 -> (match q with
                | XI q0 -> eqb p0 q0
                | _ -> false)
    | XO p0 -> (match q with
                | XO q0 -> eqb p0 q0
                | _ -> false)
    | XH -> (match q with
             | XH -> true
             | _ -> false)

  (** val iter_op : ('a1 -> 'a1 -> 'a1) -> positive -> 'a1 -> 'a1 **)

  let rec iter_op op p a =
    match p with
    | XI p0 -> op a (iter_op op p0 (op a a))
    | XO p0 -> iter_op op p0 (op a a)
    | XH -> a

  (** val to_nat : positive -> nat **)

  let to_nat x =
    iter_op Coq__1.add x (S O)

  (** val of_succ_nat : nat -> positive **)

  let rec of_succ_nat = function
  | O -> XH
  | S x -> succ (of_succ_nat x)
 end

module Z =
 struct
  (** val double : z -> z **)

  let double = function
  | Z0 -> Z0
  | Zpos p -> Zpos (XO p)
  | Zneg p -> Zneg (XO p)

  (** val succ_double : z -> z **)

  let succ_double = function
  | Z0 -> Zpos XH
  | Zpos p -> Zpos (XI p)
  | Zneg p -> Zneg (Pos.pred_double p)

  (** val pred_double : z -> z **)

  let pred_double = function
  | Z0 -> Zneg XH
  | Zpos p -> Zpos (Pos.pred_double p)
  | Zneg p -> Zneg (XI p)

  (** val pos_sub : positive -> positive -> z **)

  let rec pos_sub x y =
    match x with
    | XI p ->
      (match y with
       | XI q -> double (pos_sub p q)
       | XO q -> succ_double (pos_sub p q)
       | XH -> Zpos (XO p))
    | XO p ->
      (match y with
       | XI q -> pred_double (pos_sub p q)
       | XO q -> double (pos_sub p q)
       | XH -> Zpos (Pos.pred_double p))
    | XH ->
      (match y with
       | XI q -> Zneg (XO q)
       | XO q -> Zneg (Pos.pred_double q)
       | XH -> Z0)

  (** val add : z -> z -> z **)

  let add x y =
    match x with
    | Z0 -> y
    | Zpos x' ->
      (match y with
       | Z0 -> x
       | Zpos y' -> Zpos (Pos.add x' y')
       | Zneg y' -> pos_sub x' y')
    | Zneg x' ->
      (match y with
       | Z0 -> x
       | Zpos y' -> pos_sub y' x'
       | Zneg y' -> Zneg (Pos.add x' y'))

  (** val opp : z -> z **)

  let opp = function
  | Z0 -> Z0
  | Zpos x0 -> Zneg x0
  | Zneg x0 -> Zpos x0

  (** val sub : z -> z -> z **)

  let sub m n =
    add m (opp n)

  (** val mul : z -> z -> z **)

  let mul x y =
    match x with
    | Z0 -> Z0
    | Zpos x' ->
      (match y with
       | Z0 -> Z0
       | Zpos y' -> Zpos (Pos.mul x' y')
       | Zneg y' -> Zneg (Pos.mul x' y'))
    | Zneg x' ->
      (match y with
       | Z0 -> Z0
       | Zpos y' -> Zneg (Pos.mul x' y')
       | Zneg y' -> Zpos (Pos.mul x' y'))

  (** val compare : z -> z -> comparison **)

  let compare x y =
    match x with
    | Z0 -> (match y with
             | Z0 -> Eq
             | Zpos _ -> Lt
             | Zneg _ -> Gt)
    | Zpos x' -> (match y with
                  | Zpos y' -> Pos.compare x' y'
                  | _ -> Gt)
    | Zneg x' ->
      (match y with
       | Zneg y' -> compOpp (Pos.compare x' y')
       | _ -> Lt)

  (** val leb : z -> z -> bool **)

  let leb x y =
    match compare x y with
    | Gt -> false
    | _ -> true

  (** val ltb : z -> z -> bool **)

  let ltb x y =
    match compare x y with
    | Lt -> true
    | _ -> false

  (** val eqb : z -> z -> bool **)

  let eqb x y =
    match x with
    | Z0 -> (match y with
             | Z0 -> true
             | _ -> false)
    | Zpos p -> (match y with
                 | Zpos q -> Pos.eqb p q
                 | _ -> false)
    | Zneg p -> (match y with
                 | Zneg q -> Pos.eqb p q
                 | _ -> false)

  (** val to_nat : z -> nat **)

  let to_nat = function
  | Zpos p -> Pos.to_nat p
  | _ -> O

  (** val of_nat : nat -> z **)

  let of_nat = function
  | O -> Z0
  | S n0 -> Zpos (Pos.of_succ_nat n0)

  (** val pos_div_eucl : positive -> z -> z * z **)

  let rec pos_div_eucl a b =
    match a with
    | XI a' ->
      let (q, r) = pos_div_eucl a' b in
      let r' = add (mul (Zpos (XO XH)) r) (Zpos XH) in
      if ltb r' b
      then ((mul (Zpos (XO XH)) q), r')
      else ((add (mul (Zpos (XO XH)) q) (Zpos XH)), (sub r' b))
    | XO a' ->
      let (q, r) = pos_div_eucl a' b in
      let r' = mul (Zpos (XO XH)) r in
      if ltb r' b
      then ((mul (Zpos (XO XH)) q), r')
      else ((add (mul (Zpos (XO XH)) q) (Zpos XH)), (sub r' b))
    | XH -> if leb (Zpos (XO XH)) b then (Z0, (Zpos XH)) else ((Zpos XH), Z0)

  (** val div_eucl : z -> z -> z * z **)

  let div_eucl a b =
    match a with
    | Z0 -> (Z0, Z0)
    | Zpos a' ->
      (match b with
       | Z0 -> (Z0, a)
       | Zpos _ -> pos_div_eucl a' b
       | Zneg b' ->
         let (q, r) = pos_div_eucl a' (Zpos b') in
         (match r with
          | Z0 -> ((opp q), Z0)
          | _ -> ((opp (add q (Zpos XH))), (add b r))))
    | Zneg a' ->
      (match b with
       | Z0 -> (Z0, a)
       | Zpos _ ->
         let (q, r) = pos_div_eucl a' b in
         (match r with
          | Z0 -> ((opp q), Z0)
          | _ -> ((opp (add q (Zpos XH))), (sub b r)))
       | Zneg b' -> let (q, r) = pos_div_eucl a' (Zpos b') in (q, (opp r)))

  (** val div : z -> z -> z **)

  let div a b =
    let (q, _) = div_eucl a b in q

  (** val modulo : z -> z -> z **)

  let modulo a b =
    let (_, r) = div_eucl a b in r
 end

type sx =
| SZ of z
| SL of sx list

(** val sx_fail : sx **)

let sx_fail =
  SL ((SZ (Zneg (XI (XI (XI (XO (XO (XI (XI (XI (XI XH))))))))))) :: [])

(** val dz : sx -> z option **)

let dz = function
| SZ z0 -> Some z0
| SL _ -> None

(** val dnat : sx -> nat option **)

let dnat = function
| SZ z0 -> if Z.ltb z0 Z0 then None else Some (Z.to_nat z0)
| SL _ -> None

(** val dbool : sx -> bool option **)

let dbool = function
| SZ z0 ->
  (match z0 with
   | Z0 -> Some false
   | Zpos p -> (match p with
                | XH -> Some true
                | _ -> None)
   | Zneg _ -> None)
| SL _ -> None

(** val opt_all : 'a1 option list -> 'a1 list option **)

let rec opt_all = function
| [] -> Some []
| o :: t0 ->
  (match o with
   | Some x -> (match opt_all t0 with
                | Some r -> Some (x :: r)
                | None -> None)
   | None -> None)

(** val dlist : (sx -> 'a1 option) -> sx -> 'a1 list option **)

let dlist f = function
| SZ _ -> None
| SL l -> opt_all (map f l)

(** val ez : z -> sx **)

let ez z0 =
  SZ z0

(** val enat : nat -> sx **)

let enat n =
  SZ (Z.of_nat n)

(** val ebool : bool -> sx **)

let ebool b =
  SZ (if b then Zpos XH else Z0)

(** val elist : ('a1 -> sx) -> 'a1 list -> sx **)

let elist f l =
  SL (map f l)

(** val eopt : ('a1 -> sx) -> 'a1 option -> sx **)

let eopt f = function
| Some x -> SL ((f x) :: [])
| None -> SL []

(** val upd : 'a1 list -> nat -> 'a1 -> 'a1 list **)

let rec upd l i x =
  match l with
  | [] -> []
  | h :: t0 -> (match i with
                | O -> x :: t0
                | S j -> h :: (upd t0 j x))

(** val memb : nat -> nat list -> bool **)

let rec memb i = function
| [] -> false
| j :: t0 -> if Nat.eqb i j then true else memb i t0

(** val insert_uniq : nat -> nat list -> nat list **)

let rec insert_uniq i l = match l with
| [] -> i :: []
| j :: t0 ->
  if Nat.ltb i j
  then i :: l
  else if Nat.eqb i j then l else j :: (insert_uniq i t0)

(** val sort_uniq : nat list -> nat list **)

let sort_uniq l =
  fold_right insert_uniq [] l

type err =
| ValueError
| IndexError
| RuntimeError
| KeyError
| TypeError
| StopIteration
| OtherError

type 'a result =
| Ok of 'a
| Err of err

type 'r store = { cap : nat; occ : bool list; olist : nat list;
                  rows : 'r option list; nadd : nat; nclear : nat }

(** val init : nat -> 'a1 store **)

let init c =
  { cap = c; occ = (repeat false c); olist = []; rows = (repeat None c);
    nadd = O; nclear = O }

(** val get_occ : 'a1 store -> nat -> bool **)

let get_occ s i =
  nth i s.occ false

(** val get_row : 'a1 store -> nat -> 'a1 option **)

let get_row s i =
  nth i s.rows None

(** val len : 'a1 store -> nat **)

let len s =
  length s.olist

(** val in_range : 'a1 store -> nat list -> bool **)

let in_range s idxs =
  forallb (fun i -> Nat.ltb i s.cap) idxs

(** val retrieve :
    'a1 store -> nat list -> (bool * 'a1 option) list result **)

let retrieve s idxs =
  if in_range s idxs
  then Ok (map (fun i -> ((get_occ s i), (get_row s i))) idxs)
  else Err IndexError

(** val data : 'a1 store -> (nat * 'a1 option) list **)

let data s =
  map (fun i -> (i, (get_row s i))) s.olist

(** val new_indices : 'a1 store -> nat list -> nat list **)

let new_indices s idxs =
  filter (fun i -> negb (get_occ s i)) (sort_uniq idxs)

(** val write_rows :
    'a1 option list -> nat list -> 'a1 list -> 'a1 option list **)

let write_rows rs idxs xs =
  fold_left (fun r ix -> upd r (fst ix) (Some (snd ix))) (combine idxs xs) rs

(** val mark : bool list -> nat list -> bool list **)

let mark o new0 =
  fold_left (fun o0 i -> upd o0 i true) new0 o

(** val bump_add : 'a1 store -> 'a1 store **)

let bump_add s =
  { cap = s.cap; occ = s.occ; olist = s.olist; rows = s.rows; nadd = (S
    s.nadd); nclear = s.nclear }

(** val add_raw :
    'a1 store -> nat list -> 'a1 list -> bool -> 'a1 store * unit result **)

let add_raw s idxs xs keys_ok =
  if Nat.eqb (length idxs) O
  then (s, (Ok ()))
  else if negb (Nat.eqb (length idxs) (length xs))
       then (s, (Err ValueError))
       else if negb keys_ok
            then (s, (Err ValueError))
            else if negb (in_range s idxs)
                 then (s, (Err IndexError))
                 else let new0 = new_indices s idxs in
                      ({ cap = s.cap; occ = (mark s.occ new0); olist =
                      (app s.olist new0); rows = (write_rows s.rows idxs xs);
                      nadd = s.nadd; nclear = s.nclear }, (Ok ()))

type 'r transform =
  nat list -> 'r list -> (bool * 'r option) list -> nat list * 'r list

(** val run_transforms :
    'a1 store -> 'a1 transform list -> nat list -> 'a1 list -> (nat
    list * 'a1 list) result **)

let rec run_transforms s ts idxs xs =
  match ts with
  | [] -> Ok (idxs, xs)
  | t0 :: ts' ->
    (match retrieve s idxs with
     | Ok view -> let (i', x') = t0 idxs xs view in run_transforms s ts' i' x'
     | Err e -> Err e)

(** val add0 :
    'a1 store -> nat list -> 'a1 list -> 'a1 transform list -> bool -> 'a1
    store * unit result **)

let add0 s idxs xs ts keys_ok =
  let s1 = bump_add s in
  (match run_transforms s1 ts idxs xs with
   | Ok a -> let (i', x') = a in add_raw s1 i' x' keys_ok
   | Err e -> (s1, (Err e)))

(** val clear : 'a1 store -> 'a1 store **)

let clear s =
  { cap = s.cap; occ = (repeat false s.cap); olist = []; rows = s.rows;
    nadd = s.nadd; nclear = (S s.nclear) }

(** val resize : 'a1 store -> nat -> 'a1 store * unit result **)

let resize s c =
  if Nat.leb c s.cap
  then (s, (Err ValueError))
  else ({ cap = c; occ = (app s.occ (repeat false (sub c s.cap))); olist =
         s.olist; rows = (app s.rows (repeat None (sub c s.cap))); nadd =
         s.nadd; nclear = s.nclear }, (Ok ()))

type 'r raw = { r_cap : nat; r_occ : bool list; r_nocc : nat;
                r_olist : nat list; r_rows : 'r option list; r_nadd : 
                nat; r_nclear : nat }

(** val as_raw : 'a1 store -> 'a1 raw **)

let as_raw s =
  { r_cap = s.cap; r_occ = s.occ; r_nocc = (length s.olist); r_olist =
    s.olist; r_rows = s.rows; r_nadd = s.nadd; r_nclear = s.nclear }

(** val from_raw : 'a1 raw -> 'a1 store **)

let from_raw r =
  { cap = r.r_cap; occ = r.r_occ; olist = (firstn r.r_nocc r.r_olist); rows =
    r.r_rows; nadd = r.r_nadd; nclear = r.r_nclear }

type iter = { it_pos : nat; it_add : nat; it_clear : nat }

(** val iter_new : 'a1 store -> iter **)

let iter_new s =
  { it_pos = O; it_add = s.nadd; it_clear = s.nclear }

type 'r iter_out =
| Yield of nat * 'r option
| Stop
| Modified

(** val iter_next : 'a1 store -> iter -> iter * 'a1 iter_out **)

let iter_next s it =
  if negb ((&&) (Nat.eqb it.it_add s.nadd) (Nat.eqb it.it_clear s.nclear))
  then (it, Modified)
  else if Nat.leb (len s) it.it_pos
       then (it, Stop)
       else let i = nth it.it_pos s.olist O in
            ({ it_pos = (S it.it_pos); it_add = it.it_add; it_clear =
            it.it_clear }, (Yield (i, (get_row s i))))

type layout =
| ExactNdarray
| ViewOf
| NonContiguous
| OtherDtype
| PyList

type aval = { vbuf : nat; vw : bool; vcontig : bool; vnd : bool; vtgt : bool }

(** val value_of_layout : nat -> layout -> aval **)

let value_of_layout b = function
| NonContiguous ->
  { vbuf = b; vw = true; vcontig = false; vnd = true; vtgt = true }
| OtherDtype ->
  { vbuf = b; vw = true; vcontig = true; vnd = true; vtgt = false }
| PyList -> { vbuf = b; vw = true; vcontig = true; vnd = false; vtgt = false }
| _ -> { vbuf = b; vw = true; vcontig = true; vnd = true; vtgt = true }

(** val fresh_val : nat -> aval **)

let fresh_val b =
  { vbuf = b; vw = true; vcontig = true; vnd = true; vtgt = true }

type var = nat

type instr =
| IAsarray of var * var * bool
| IMove of var * var
| IView of var * var * bool
| IReshape of var * var
| ICopy of var * var
| IOp of var * var list * nat
| IInplace of var * var list * nat
| IReadonly of var * var
| ISetSelf of nat * var
| IGetSelf of var * nat
| IReturn of var
| IExpose of var

type env = (nat * aval) list

(** val lookup : env -> nat -> aval option **)

let rec lookup e x =
  match e with
  | [] -> None
  | p :: t0 -> let (y, v) = p in if Nat.eqb x y then Some v else lookup t0 x

(** val bind : env -> nat -> aval -> env **)

let bind e x v =
  (x, v) :: e

(** val set_field : env -> nat -> aval -> env **)

let set_field e f v =
  (f, v) :: (filter (fun p -> negb (Nat.eqb (fst p) f)) e)

(** val lookups : env -> nat list -> aval list option **)

let rec lookups e = function
| [] -> Some []
| x :: t0 ->
  (match lookup e x with
   | Some v ->
     (match lookups e t0 with
      | Some r -> Some (v :: r)
      | None -> None)
   | None -> None)

type astate = { a_next : nat; a_env : env; a_self : env; a_mut : nat list;
                a_ret : aval list; a_exp : aval list; a_halt : bool }

(** val a_halted : astate -> astate **)

let a_halted a =
  { a_next = a.a_next; a_env = a.a_env; a_self = a.a_self; a_mut = a.a_mut;
    a_ret = a.a_ret; a_exp = a.a_exp; a_halt = true }

(** val a_bind : astate -> var -> aval -> astate **)

let a_bind a d v =
  { a_next = a.a_next; a_env = (bind a.a_env d v); a_self = a.a_self; a_mut =
    a.a_mut; a_ret = a.a_ret; a_exp = a.a_exp; a_halt = a.a_halt }

(** val a_alloc : astate -> var -> astate **)

let a_alloc a d =
  { a_next = (S a.a_next); a_env = (bind a.a_env d (fresh_val a.a_next));
    a_self = a.a_self; a_mut = a.a_mut; a_ret = a.a_ret; a_exp = a.a_exp;
    a_halt = a.a_halt }

(** val view_of : aval -> bool -> aval **)

let view_of v keeps =
  { vbuf = v.vbuf; vw = v.vw; vcontig = ((&&) v.vcontig keeps); vnd = true;
    vtgt = v.vtgt }

(** val readonly_of : aval -> aval **)

let readonly_of v =
  { vbuf = v.vbuf; vw = false; vcontig = v.vcontig; vnd = v.vnd; vtgt =
    v.vtgt }

(** val asarray_aliases : aval -> bool -> bool **)

let asarray_aliases v with_dtype =
  (&&) v.vnd ((||) (negb with_dtype) v.vtgt)

(** val astep : instr -> astate -> astate **)

let astep i a =
  if a.a_halt
  then a
  else (match i with
        | IAsarray (d, s, dt) ->
          (match lookup a.a_env s with
           | Some v ->
             if asarray_aliases v dt then a_bind a d v else a_alloc a d
           | None -> a_halted a)
        | IMove (d, s) ->
          (match lookup a.a_env s with
           | Some v -> a_bind a d v
           | None -> a_halted a)
        | IView (d, s, k) ->
          (match lookup a.a_env s with
           | Some v -> if v.vnd then a_bind a d (view_of v k) else a_halted a
           | None -> a_halted a)
        | IReshape (d, s) ->
          (match lookup a.a_env s with
           | Some v ->
             if (&&) v.vnd v.vcontig
             then a_bind a d (view_of v true)
             else a_alloc a d
           | None -> a_halted a)
        | ICopy (d, s) ->
          (match lookup a.a_env s with
           | Some _ -> a_alloc a d
           | None -> a_halted a)
        | IOp (d, srcs, _) ->
          (match lookups a.a_env srcs with
           | Some _ -> a_alloc a d
           | None -> a_halted a)
        | IInplace (d, srcs, _) ->
          (match lookup a.a_env d with
           | Some v ->
             (match lookups a.a_env srcs with
              | Some _ ->
                if v.vw
                then { a_next = a.a_next; a_env = a.a_env; a_self = a.a_self;
                       a_mut = (v.vbuf :: a.a_mut); a_ret = a.a_ret; a_exp =
                       a.a_exp; a_halt = a.a_halt }
                else a_halted a
              | None -> a_halted a)
           | None -> a_halted a)
        | IReadonly (d, s) ->
          (match lookup a.a_env s with
           | Some v -> a_bind a d (readonly_of v)
           | None -> a_halted a)
        | ISetSelf (f, s) ->
          (match lookup a.a_env s with
           | Some v ->
             { a_next = a.a_next; a_env = a.a_env; a_self =
               (set_field a.a_self f v); a_mut = a.a_mut; a_ret = a.a_ret;
               a_exp = a.a_exp; a_halt = a.a_halt }
           | None -> a_halted a)
        | IGetSelf (d, f) ->
          (match lookup a.a_self f with
           | Some v -> a_bind a d v
           | None -> a_halted a)
        | IReturn s ->
          (match lookup a.a_env s with
           | Some v ->
             { a_next = a.a_next; a_env = a.a_env; a_self = a.a_self; a_mut =
               a.a_mut; a_ret = (v :: a.a_ret); a_exp = a.a_exp; a_halt =
               a.a_halt }
           | None -> a_halted a)
        | IExpose s ->
          (match lookup a.a_env s with
           | Some v ->
             { a_next = a.a_next; a_env = a.a_env; a_self = a.a_self; a_mut =
               a.a_mut; a_ret = a.a_ret; a_exp = (v :: a.a_exp); a_halt =
               a.a_halt }
           | None -> a_halted a))

(** val arun : instr list -> astate -> astate **)

let arun p a =
  fold_left (fun a0 i -> astep i a0) p a

(** val n_store : nat **)

let n_store =
  S (S (S (S (S (S (S O))))))

(** val n_internal : nat **)

let n_internal =
  S (S (S (S (S (S (S (S (S (S (S (S (S (S (S O))))))))))))))

(** val is_store_buf : nat -> bool **)

let is_store_buf b =
  Nat.ltb b n_store

(** val caller_buf : nat -> nat **)

let caller_buf i =
  add n_internal i

(** val f_solution : nat **)

let f_solution =
  O

(** val f_objective : nat **)

let f_objective =
  S O

(** val f_measures : nat **)

let f_measures =
  S (S O)

(** val f_threshold : nat **)

let f_threshold =
  S (S (S O))

(** val f_extra : nat **)

let f_extra =
  S (S (S (S O)))

(** val f_occupied : nat **)

let f_occupied =
  S (S (S (S (S O))))

(** val f_olist : nat **)

let f_olist =
  S (S (S (S (S (S O)))))

(** val f_i0 : nat **)

let f_i0 =
  S (S (S (S (S (S (S (S (S (S O)))))))))

(** val f_i1 : nat **)

let f_i1 =
  S (S (S (S (S (S (S (S (S (S (S O))))))))))

(** val f_i2 : nat **)

let f_i2 =
  S (S (S (S (S (S (S (S (S (S (S (S O)))))))))))

(** val f_i3 : nat **)

let f_i3 =
  S (S (S (S (S (S (S (S (S (S (S (S (S O))))))))))))

(** val f_i4 : nat **)

let f_i4 =
  S (S (S (S (S (S (S (S (S (S (S (S (S (S O)))))))))))))

(** val f_i5 : nat **)

let f_i5 =
  S (S (S (S (S (S (S (S (S (S (S (S (S (S (S O))))))))))))))

(** val f_i6 : nat **)

let f_i6 =
  S (S (S (S (S (S (S (S (S (S (S (S (S (S (S (S O)))))))))))))))

(** val f_i7 : nat **)

let f_i7 =
  S (S (S (S (S (S (S (S (S (S (S (S (S (S (S (S (S O))))))))))))))))

(** val f_new0 : nat **)

let f_new0 =
  S (S (S (S (S (S (S (S (S (S (S (S (S (S (S (S (S (S (S (S (S (S (S (S (S
    (S (S (S (S (S O)))))))))))))))))))))))))))))

(** val f_new1 : nat **)

let f_new1 =
  S (S (S (S (S (S (S (S (S (S (S (S (S (S (S (S (S (S (S (S (S (S (S (S (S
    (S (S (S (S (S (S O))))))))))))))))))))))))))))))

(** val f_new2 : nat **)

let f_new2 =
  S (S (S (S (S (S (S (S (S (S (S (S (S (S (S (S (S (S (S (S (S (S (S (S (S
    (S (S (S (S (S (S (S O)))))))))))))))))))))))))))))))

(** val f_new3 : nat **)

let f_new3 =
  S (S (S (S (S (S (S (S (S (S (S (S (S (S (S (S (S (S (S (S (S (S (S (S (S
    (S (S (S (S (S (S (S (S O))))))))))))))))))))))))))))))))

(** val f_new4 : nat **)

let f_new4 =
  S (S (S (S (S (S (S (S (S (S (S (S (S (S (S (S (S (S (S (S (S (S (S (S (S
    (S (S (S (S (S (S (S (S (S O)))))))))))))))))))))))))))))))))

(** val f_new5 : nat **)

let f_new5 =
  S (S (S (S (S (S (S (S (S (S (S (S (S (S (S (S (S (S (S (S (S (S (S (S (S
    (S (S (S (S (S (S (S (S (S (S O))))))))))))))))))))))))))))))))))

(** val init_self : env **)

let init_self =
  app (map (fun b -> (b, (fresh_val b))) (seq O n_store))
    (map (fun b -> ((add (S (S (S O))) b), (fresh_val b)))
      (seq n_store (sub n_internal n_store)))

(** val init_args : nat -> layout list -> env **)

let rec init_args i = function
| [] -> []
| l :: t0 -> (i, (value_of_layout (caller_buf i) l)) :: (init_args (S i) t0)

(** val a_init : layout list -> astate **)

let a_init la =
  { a_next = (add n_internal (length la)); a_env = (init_args O la); a_self =
    init_self; a_mut = []; a_ret = []; a_exp = []; a_halt = false }

type ep =
| StoreAdd
| StoreRetrieve
| StoreData
| StoreIter
| StoreRaw
| StoreOccupied
| StoreFromRaw
| ArchiveAdd
| ArchiveAddSingle
| SlidingAdd
| SlidingAddSingle
| ProximityAdd
| ProximityAddSingle
| ArchiveRetrieve
| ArchiveRetrieveSingle
| SampleElites
| ArchiveData
| BestElite
| ArchiveIter
| IndexOf
| IndexOfSingle
| CVTCtorCentroids
| CVTCtorSamples
| GridCtor
| CqdScore
| ComputeNovelty
| GaussianCtor
| IsoLineCtor
| ESCtor
| GAECtor
| GOECtor
| GACtor
| BaseTell
| ESTell
| GAETell
| GAETellDqd
| GOETellDqd
| SchedTell
| SchedTellDqd
| BanditTell
| AdamCtor
| AdamReset
| AdamStep
| GAscCtor
| GAscReset
| GAscStep
| ParallelAxes
| HeatmapDf

(** val ep_of_nat : nat -> ep option **)

let ep_of_nat = function
| O -> Some StoreAdd
| S n0 ->
  (match n0 with
   | O -> Some StoreRetrieve
   | S n1 ->
     (match n1 with
      | O -> Some StoreData
      | S n2 ->
        (match n2 with
         | O -> Some StoreIter
         | S n3 ->
           (match n3 with
            | O -> Some StoreRaw
            | S n4 ->
              (match n4 with
               | O -> Some StoreOccupied
               | S n5 ->
                 (match n5 with
                  | O -> Some StoreFromRaw
                  | S n6 ->
                    (match n6 with
                     | O -> None
                     | S n7 ->
                       (match n7 with
                        | O -> None
                        | S n8 ->
                          (match n8 with
                           | O -> None
                           | S n9 ->
                             (match n9 with
                              | O -> Some ArchiveAdd
                              | S n10 ->
                                (match n10 with
                                 | O -> Some ArchiveAddSingle
                                 | S n11 ->
                                   (match n11 with
                                    | O -> Some SlidingAdd
                                    | S n12 ->
                                      (match n12 with
                                       | O -> Some SlidingAddSingle
                                       | S n13 ->
                                         (match n13 with
                                          | O -> Some ProximityAdd
                                          | S n14 ->
                                            (match n14 with
                                             | O -> Some ProximityAddSingle
                                             | S n15 ->
                                               (match n15 with
                                                | O -> Some ArchiveRetrieve
                                                | S n16 ->
                                                  (match n16 with
                                                   | O ->
                                                     Some
                                                       ArchiveRetrieveSingle
                                                   | S n17 ->
                                                     (match n17 with
                                                      | O -> Some SampleElites
                                                      | S n18 ->
                                                        (match n18 with
                                                         | O ->
                                                           Some ArchiveData
                                                         | S n19 ->
                                                           (match n19 with
                                                            | O ->
                                                              Some BestElite
                                                            | S n20 ->
                                                              (match n20 with
                                                               | O ->
                                                                 Some
                                                                   ArchiveIter
                                                               | S n21 ->
                                                                 (match n21 with
                                                                  | O ->
                                                                    Some
                                                                    IndexOf
                                                                  | S n22 ->
                                                                    (match n22 with
                                                                    | O ->
                                                                    Some
                                                                    IndexOfSingle
                                                                    | S n23 ->
                                                                    (match n23 with
                                                                    | O ->
                                                                    Some
                                                                    CVTCtorCentroids
                                                                    | S n24 ->
                                                                    (match n24 with
                                                                    | O ->
                                                                    Some
                                                                    CVTCtorSamples
                                                                    | S n25 ->
                                                                    (match n25 with
                                                                    | O ->
                                                                    Some
                                                                    GridCtor
                                                                    | S n26 ->
                                                                    (match n26 with
                                                                    | O ->
                                                                    Some
                                                                    CqdScore
                                                                    | S n27 ->
                                                                    (match n27 with
                                                                    | O ->
                                                                    Some
                                                                    ComputeNovelty
                                                                    | S n28 ->
                                                                    (match n28 with
                                                                    | O ->
                                                                    None
                                                                    | S n29 ->
                                                                    (match n29 with
                                                                    | O ->
                                                                    Some
                                                                    GaussianCtor
                                                                    | S n30 ->
                                                                    (match n30 with
                                                                    | O ->
                                                                    Some
                                                                    IsoLineCtor
                                                                    | S n31 ->
                                                                    (match n31 with
                                                                    | O ->
                                                                    Some
                                                                    ESCtor
                                                                    | S n32 ->
                                                                    (match n32 with
                                                                    | O ->
                                                                    Some
                                                                    GAECtor
                                                                    | S n33 ->
                                                                    (match n33 with
                                                                    | O ->
                                                                    Some
                                                                    GOECtor
                                                                    | S n34 ->
                                                                    (match n34 with
                                                                    | O ->
                                                                    Some
                                                                    GACtor
                                                                    | S n35 ->
                                                                    (match n35 with
                                                                    | O ->
                                                                    Some
                                                                    BaseTell
                                                                    | S n36 ->
                                                                    (match n36 with
                                                                    | O ->
                                                                    Some
                                                                    ESTell
                                                                    | S n37 ->
                                                                    (match n37 with
                                                                    | O ->
                                                                    Some
                                                                    GAETell
                                                                    | S n38 ->
                                                                    (match n38 with
                                                                    | O ->
                                                                    Some
                                                                    GAETellDqd
                                                                    | S n39 ->
                                                                    (match n39 with
                                                                    | O ->
                                                                    Some
                                                                    GOETellDqd
                                                                    | S n40 ->
                                                                    (match n40 with
                                                                    | O ->
                                                                    Some
                                                                    SchedTell
                                                                    | S n41 ->
                                                                    (match n41 with
                                                                    | O ->
                                                                    Some
                                                                    SchedTellDqd
                                                                    | S n42 ->
                                                                    (match n42 with
                                                                    | O ->
                                                                    Some
                                                                    BanditTell
                                                                    | S n43 ->
                                                                    (match n43 with
                                                                    | O ->
                                                                    Some
                                                                    AdamCtor
                                                                    | S n44 ->
                                                                    (match n44 with
                                                                    | O ->
                                                                    Some
                                                                    AdamReset
                                                                    | S n45 ->
                                                                    (match n45 with
                                                                    | O ->
                                                                    Some
                                                                    AdamStep
                                                                    | S n46 ->
                                                                    (match n46 with
                                                                    | O ->
                                                                    Some
                                                                    GAscCtor
                                                                    | S n47 ->
                                                                    (match n47 with
                                                                    | O ->
                                                                    Some
                                                                    GAscReset
                                                                    | S n48 ->
                                                                    (match n48 with
                                                                    | O ->
                                                                    Some
                                                                    GAscStep
                                                                    | S n49 ->
                                                                    (match n49 with
                                                                    | O ->
                                                                    Some
                                                                    ParallelAxes
                                                                    | S n50 ->
                                                                    (match n50 with
                                                                    | O ->
                                                                    Some
                                                                    HeatmapDf
                                                                    | S _ ->
                                                                    None)))))))))))))))))))))))))))))))))))))))))))))))))))

(** val arities : ep -> nat list **)

let arities = function
| StoreAdd -> (S (S (S (S O)))) :: []
| StoreData -> O :: []
| StoreIter -> O :: []
| StoreRaw -> O :: []
| StoreOccupied -> O :: []
| StoreFromRaw -> (S (S O)) :: []
| ArchiveAdd -> (S (S (S O))) :: ((S (S (S (S O)))) :: [])
| ArchiveAddSingle -> (S (S (S O))) :: ((S (S (S (S O)))) :: [])
| SlidingAdd -> (S (S (S O))) :: ((S (S (S (S O)))) :: [])
| SlidingAddSingle -> (S (S (S O))) :: ((S (S (S (S O)))) :: [])
| ProximityAdd -> (S (S (S O))) :: ((S (S (S (S O)))) :: [])
| ProximityAddSingle -> (S (S (S O))) :: ((S (S (S (S O)))) :: [])
| SampleElites -> O :: []
| ArchiveData -> O :: []
| BestElite -> O :: []
| ArchiveIter -> O :: []
| GridCtor -> (S (S O)) :: []
| CqdScore -> (S (S O)) :: []
| ComputeNovelty -> (S (S O)) :: []
| GaussianCtor -> (S (S (S O))) :: []
| IsoLineCtor -> (S (S O)) :: []
| ESCtor -> (S (S O)) :: []
| GOECtor -> (S (S (S O))) :: []
| GACtor -> (S (S (S O))) :: []
| BaseTell -> (S (S (S (S (S O))))) :: ((S (S (S (S (S (S O)))))) :: [])
| ESTell -> (S (S (S (S (S O))))) :: ((S (S (S (S (S (S O)))))) :: [])
| GAETell -> (S (S (S (S (S O))))) :: ((S (S (S (S (S (S O)))))) :: [])
| GAETellDqd ->
  (S (S (S (S (S (S O)))))) :: ((S (S (S (S (S (S (S O))))))) :: [])
| GOETellDqd ->
  (S (S (S (S (S (S O)))))) :: ((S (S (S (S (S (S (S O))))))) :: [])
| SchedTell -> (S (S O)) :: ((S (S (S O))) :: [])
| SchedTellDqd -> (S (S (S O))) :: ((S (S (S (S O)))) :: [])
| BanditTell -> (S (S O)) :: ((S (S (S O))) :: [])
| _ -> (S O) :: []

(** val n_variants : ep -> nat **)

let n_variants = function
| StoreAdd -> S (S O)
| StoreRetrieve -> S (S (S (S O)))
| StoreData -> S (S (S (S O)))
| ArchiveAdd -> S (S O)
| ArchiveAddSingle -> S (S O)
| SlidingAdd -> S (S O)
| SlidingAddSingle -> S (S O)
| ProximityAdd -> S (S O)
| ProximityAddSingle -> S (S O)
| ArchiveData -> S (S (S (S O)))
| BestElite -> S (S O)
| IndexOf -> S (S (S (S (S O))))
| IndexOfSingle -> S (S (S (S (S O))))
| ComputeNovelty -> S (S O)
| GaussianCtor -> S (S O)
| IsoLineCtor -> S (S O)
| GOECtor -> S (S O)
| GACtor -> S (S O)
| ESTell -> S (S O)
| GAETell -> S (S O)
| GAETellDqd -> S (S O)
| GOETellDqd -> S (S O)
| SchedTell -> S (S (S (S (S (S O)))))
| SchedTellDqd -> S (S (S (S (S (S O)))))
| BanditTell -> S (S (S (S (S (S O)))))
| ParallelAxes -> S (S O)
| _ -> S O

(** val t : nat -> var **)

let t k =
  add (S (S (S (S (S (S (S (S (S (S (S (S (S (S (S (S (S (S (S (S
    O)))))))))))))))))))) k

(** val validate_batch : var list -> instr list **)

let validate_batch regs =
  map (fun r -> IAsarray (r, r, false)) regs

(** val validate_single : var -> var -> var -> instr list **)

let validate_single sol obj meas =
  (IAsarray (sol, sol, false)) :: ((ICopy (obj, obj)) :: ((IAsarray (meas,
    meas, false)) :: []))

(** val store_fields : bool -> nat list **)

let store_fields has_extra =
  app (f_solution :: (f_objective :: (f_measures :: (f_threshold :: []))))
    (if has_extra then f_extra :: [] else [])

(** val store_retrieve : var -> nat -> bool -> instr list **)

let store_retrieve idx base has_extra =
  app ((IAsarray ((t base), idx, true)) :: ((IGetSelf ((t (add base (S O))),
    f_occupied)) :: ((IOp ((t (add base (S O))),
    ((t (add base (S O))) :: ((t base) :: [])), (S O))) :: [])))
    (app
      (flat_map (fun fl -> (IGetSelf ((t (add (add base (S (S O))) fl)),
        fl)) :: ((IOp ((t (add (add base (S (S O))) fl)),
        ((t (add (add base (S (S O))) fl)) :: ((t base) :: [])), (S
        O))) :: [])) (store_fields has_extra)) ((ICopy
      ((t (add base (S (S (S (S (S (S (S O))))))))), (t base))) :: []))

(** val store_write : var -> (nat * var) list -> instr list **)

let store_write idx data0 =
  app ((IGetSelf
    ((t (S (S (S (S (S (S (S (S (S (S (S (S (S (S (S (S (S (S (S (S (S (S (S
       (S (S (S (S (S (S (S (S (S (S (S (S (S (S (S (S (S (S (S (S (S (S (S
       (S (S (S (S (S (S (S (S (S (S (S (S (S (S (S (S (S (S (S (S (S (S (S
       (S (S (S (S (S (S (S (S (S (S (S (S (S (S (S (S (S (S (S (S (S
       O))))))))))))))))))))))))))))))))))))))))))))))))))))))))))))))))))))))))))))))))))))))))))),
    f_occupied)) :: ((IInplace
    ((t (S (S (S (S (S (S (S (S (S (S (S (S (S (S (S (S (S (S (S (S (S (S (S
       (S (S (S (S (S (S (S (S (S (S (S (S (S (S (S (S (S (S (S (S (S (S (S
       (S (S (S (S (S (S (S (S (S (S (S (S (S (S (S (S (S (S (S (S (S (S (S
       (S (S (S (S (S (S (S (S (S (S (S (S (S (S (S (S (S (S (S (S (S
       O))))))))))))))))))))))))))))))))))))))))))))))))))))))))))))))))))))))))))))))))))))))))))),
    (idx :: []), (S (S O)))) :: ((IGetSelf
    ((t (S (S (S (S (S (S (S (S (S (S (S (S (S (S (S (S (S (S (S (S (S (S (S
       (S (S (S (S (S (S (S (S (S (S (S (S (S (S (S (S (S (S (S (S (S (S (S
       (S (S (S (S (S (S (S (S (S (S (S (S (S (S (S (S (S (S (S (S (S (S (S
       (S (S (S (S (S (S (S (S (S (S (S (S (S (S (S (S (S (S (S (S (S (S
       O)))))))))))))))))))))))))))))))))))))))))))))))))))))))))))))))))))))))))))))))))))))))))))),
    f_olist)) :: ((IInplace
    ((t (S (S (S (S (S (S (S (S (S (S (S (S (S (S (S (S (S (S (S (S (S (S (S
       (S (S (S (S (S (S (S (S (S (S (S (S (S (S (S (S (S (S (S (S (S (S (S
       (S (S (S (S (S (S (S (S (S (S (S (S (S (S (S (S (S (S (S (S (S (S (S
       (S (S (S (S (S (S (S (S (S (S (S (S (S (S (S (S (S (S (S (S (S (S
       O)))))))))))))))))))))))))))))))))))))))))))))))))))))))))))))))))))))))))))))))))))))))))))),
    (idx :: []), (S (S O)))) :: []))))
    (flat_map (fun p -> (IGetSelf
      ((t (S (S (S (S (S (S (S (S (S (S (S (S (S (S (S (S (S (S (S (S (S (S
         (S (S (S (S (S (S (S (S (S (S (S (S (S (S (S (S (S (S (S (S (S (S (S
         (S (S (S (S (S (S (S (S (S (S (S (S (S (S (S (S (S (S (S (S (S (S (S
         (S (S (S (S (S (S (S (S (S (S (S (S (S (S (S (S (S (S (S (S (S (S (S
         (S
         O))))))))))))))))))))))))))))))))))))))))))))))))))))))))))))))))))))))))))))))))))))))))))))),
      (fst p))) :: ((IInplace
      ((t (S (S (S (S (S (S (S (S (S (S (S (S (S (S (S (S (S (S (S (S (S (S
         (S (S (S (S (S (S (S (S (S (S (S (S (S (S (S (S (S (S (S (S (S (S (S
         (S (S (S (S (S (S (S (S (S (S (S (S (S (S (S (S (S (S (S (S (S (S (S
         (S (S (S (S (S (S (S (S (S (S (S (S (S (S (S (S (S (S (S (S (S (S (S
         (S
         O))))))))))))))))))))))))))))))))))))))))))))))))))))))))))))))))))))))))))))))))))))))))))))),
      (idx :: ((snd p) :: [])), (S (S (S O))))) :: [])) data0)

(** val stats_update : var -> bool -> instr list **)

let stats_update best_idx has_extra =
  app
    (store_retrieve best_idx (S (S (S (S (S (S (S (S (S (S (S (S (S (S (S (S
      (S (S (S (S (S (S (S (S (S (S (S (S (S (S (S (S (S (S (S (S (S (S (S (S
      (S (S (S (S (S (S (S (S (S (S (S (S (S (S (S (S (S (S (S (S
      O)))))))))))))))))))))))))))))))))))))))))))))))))))))))))))) has_extra)
    (app ((IView
      ((t (S (S (S (S (S (S (S (S (S (S (S (S (S (S (S (S (S (S (S (S (S (S
         (S (S (S (S (S (S (S (S (S (S (S (S (S (S (S (S (S (S (S (S (S (S (S
         (S (S (S (S (S (S (S (S (S (S (S (S (S (S (S (S (S (S (S (S (S (S (S
         (S (S (S (S (S (S (S (S (S (S (S (S
         O))))))))))))))))))))))))))))))))))))))))))))))))))))))))))))))))))))))))))))))))),
      (t
        (add (S (S (S (S (S (S (S (S (S (S (S (S (S (S (S (S (S (S (S (S (S
          (S (S (S (S (S (S (S (S (S (S (S (S (S (S (S (S (S (S (S (S (S (S
          (S (S (S (S (S (S (S (S (S (S (S (S (S (S (S (S (S (S (S
          O))))))))))))))))))))))))))))))))))))))))))))))))))))))))))))))
          f_solution)), true)) :: ((ICopy
      ((t (S (S (S (S (S (S (S (S (S (S (S (S (S (S (S (S (S (S (S (S (S (S
         (S (S (S (S (S (S (S (S (S (S (S (S (S (S (S (S (S (S (S (S (S (S (S
         (S (S (S (S (S (S (S (S (S (S (S (S (S (S (S (S (S (S (S (S (S (S (S
         (S (S (S (S (S (S (S (S (S (S (S (S (S
         O)))))))))))))))))))))))))))))))))))))))))))))))))))))))))))))))))))))))))))))))))),
      (t
        (add (S (S (S (S (S (S (S (S (S (S (S (S (S (S (S (S (S (S (S (S (S
          (S (S (S (S (S (S (S (S (S (S (S (S (S (S (S (S (S (S (S (S (S (S
          (S (S (S (S (S (S (S (S (S (S (S (S (S (S (S (S (S (S (S
          O))))))))))))))))))))))))))))))))))))))))))))))))))))))))))))))
          f_objective)))) :: ((IView
      ((t (S (S (S (S (S (S (S (S (S (S (S (S (S (S (S (S (S (S (S (S (S (S
         (S (S (S (S (S (S (S (S (S (S (S (S (S (S (S (S (S (S (S (S (S (S (S
         (S (S (S (S (S (S (S (S (S (S (S (S (S (S (S (S (S (S (S (S (S (S (S
         (S (S (S (S (S (S (S (S (S (S (S (S (S (S
         O))))))))))))))))))))))))))))))))))))))))))))))))))))))))))))))))))))))))))))))))))),
      (t
        (add (S (S (S (S (S (S (S (S (S (S (S (S (S (S (S (S (S (S (S (S (S
          (S (S (S (S (S (S (S (S (S (S (S (S (S (S (S (S (S (S (S (S (S (S
          (S (S (S (S (S (S (S (S (S (S (S (S (S (S (S (S (S (S (S
          O))))))))))))))))))))))))))))))))))))))))))))))))))))))))))))))
          f_measures)), true)) :: ((ICopy
      ((t (S (S (S (S (S (S (S (S (S (S (S (S (S (S (S (S (S (S (S (S (S (S
         (S (S (S (S (S (S (S (S (S (S (S (S (S (S (S (S (S (S (S (S (S (S (S
         (S (S (S (S (S (S (S (S (S (S (S (S (S (S (S (S (S (S (S (S (S (S (S
         (S (S (S (S (S (S (S (S (S (S (S (S (S (S (S
         O)))))))))))))))))))))))))))))))))))))))))))))))))))))))))))))))))))))))))))))))))))),
      (t
        (add (S (S (S (S (S (S (S (S (S (S (S (S (S (S (S (S (S (S (S (S (S
          (S (S (S (S (S (S (S (S (S (S (S (S (S (S (S (S (S (S (S (S (S (S
          (S (S (S (S (S (S (S (S (S (S (S (S (S (S (S (S (S (S (S
          O))))))))))))))))))))))))))))))))))))))))))))))))))))))))))))))
          f_threshold)))) :: ((ICopy
      ((t (S (S (S (S (S (S (S (S (S (S (S (S (S (S (S (S (S (S (S (S (S (S
         (S (S (S (S (S (S (S (S (S (S (S (S (S (S (S (S (S (S (S (S (S (S (S
         (S (S (S (S (S (S (S (S (S (S (S (S (S (S (S (S (S (S (S (S (S (S (S
         (S (S (S (S (S (S (S (S (S (S (S (S (S (S (S (S
         O))))))))))))))))))))))))))))))))))))))))))))))))))))))))))))))))))))))))))))))))))))),
      (t (S (S (S (S (S (S (S (S (S (S (S (S (S (S (S (S (S (S (S (S (S (S (S
        (S (S (S (S (S (S (S (S (S (S (S (S (S (S (S (S (S (S (S (S (S (S (S
        (S (S (S (S (S (S (S (S (S (S (S (S (S (S (S (S (S (S (S (S (S
        O)))))))))))))))))))))))))))))))))))))))))))))))))))))))))))))))))))))) :: [])))))
      (app
        (if has_extra
         then (IView
                ((t (S (S (S (S (S (S (S (S (S (S (S (S (S (S (S (S (S (S (S
                   (S (S (S (S (S (S (S (S (S (S (S (S (S (S (S (S (S (S (S
                   (S (S (S (S (S (S (S (S (S (S (S (S (S (S (S (S (S (S (S
                   (S (S (S (S (S (S (S (S (S (S (S (S (S (S (S (S (S (S (S
                   (S (S (S (S (S (S (S (S (S
                   O)))))))))))))))))))))))))))))))))))))))))))))))))))))))))))))))))))))))))))))))))))))),
                (t
                  (add (S (S (S (S (S (S (S (S (S (S (S (S (S (S (S (S (S (S
                    (S (S (S (S (S (S (S (S (S (S (S (S (S (S (S (S (S (S (S
                    (S (S (S (S (S (S (S (S (S (S (S (S (S (S (S (S (S (S (S
                    (S (S (S (S (S (S
                    O))))))))))))))))))))))))))))))))))))))))))))))))))))))))))))))
                    f_extra)), true)) :: []
         else [])
        (app ((ISetSelf (f_new0,
          (t (S (S (S (S (S (S (S (S (S (S (S (S (S (S (S (S (S (S (S (S (S
            (S (S (S (S (S (S (S (S (S (S (S (S (S (S (S (S (S (S (S (S (S (S
            (S (S (S (S (S (S (S (S (S (S (S (S (S (S (S (S (S (S (S (S (S (S
            (S (S (S (S (S (S (S (S (S (S (S (S (S (S (S
            O))))))))))))))))))))))))))))))))))))))))))))))))))))))))))))))))))))))))))))))))))) :: ((ISetSelf
          (f_new1,
          (t (S (S (S (S (S (S (S (S (S (S (S (S (S (S (S (S (S (S (S (S (S
            (S (S (S (S (S (S (S (S (S (S (S (S (S (S (S (S (S (S (S (S (S (S
            (S (S (S (S (S (S (S (S (S (S (S (S (S (S (S (S (S (S (S (S (S (S
            (S (S (S (S (S (S (S (S (S (S (S (S (S (S (S (S
            O)))))))))))))))))))))))))))))))))))))))))))))))))))))))))))))))))))))))))))))))))))) :: ((ISetSelf
          (f_new2,
          (t (S (S (S (S (S (S (S (S (S (S (S (S (S (S (S (S (S (S (S (S (S
            (S (S (S (S (S (S (S (S (S (S (S (S (S (S (S (S (S (S (S (S (S (S
            (S (S (S (S (S (S (S (S (S (S (S (S (S (S (S (S (S (S (S (S (S (S
            (S (S (S (S (S (S (S (S (S (S (S (S (S (S (S (S (S
            O))))))))))))))))))))))))))))))))))))))))))))))))))))))))))))))))))))))))))))))))))))) :: ((ISetSelf
          (f_new3,
          (t (S (S (S (S (S (S (S (S (S (S (S (S (S (S (S (S (S (S (S (S (S
            (S (S (S (S (S (S (S (S (S (S (S (S (S (S (S (S (S (S (S (S (S (S
            (S (S (S (S (S (S (S (S (S (S (S (S (S (S (S (S (S (S (S (S (S (S
            (S (S (S (S (S (S (S (S (S (S (S (S (S (S (S (S (S (S
            O)))))))))))))))))))))))))))))))))))))))))))))))))))))))))))))))))))))))))))))))))))))) :: ((ISetSelf
          (f_new4,
          (t (S (S (S (S (S (S (S (S (S (S (S (S (S (S (S (S (S (S (S (S (S
            (S (S (S (S (S (S (S (S (S (S (S (S (S (S (S (S (S (S (S (S (S (S
            (S (S (S (S (S (S (S (S (S (S (S (S (S (S (S (S (S (S (S (S (S (S
            (S (S (S (S (S (S (S (S (S (S (S (S (S (S (S (S (S (S (S
            O))))))))))))))))))))))))))))))))))))))))))))))))))))))))))))))))))))))))))))))))))))))) :: [])))))
          (if has_extra
           then (ISetSelf (f_new5,
                  (t (S (S (S (S (S (S (S (S (S (S (S (S (S (S (S (S (S (S (S
                    (S (S (S (S (S (S (S (S (S (S (S (S (S (S (S (S (S (S (S
                    (S (S (S (S (S (S (S (S (S (S (S (S (S (S (S (S (S (S (S
                    (S (S (S (S (S (S (S (S (S (S (S (S (S (S (S (S (S (S (S
                    (S (S (S (S (S (S (S (S (S
                    O)))))))))))))))))))))))))))))))))))))))))))))))))))))))))))))))))))))))))))))))))))))))) :: []
           else []))))

(** val archive_transforms :
    var -> var -> var -> var option -> bool -> instr list **)

let archive_transforms sol obj meas ev inserted =
  let he = match ev with
           | Some _ -> true
           | None -> false in
  app (store_retrieve (t O) (S (S (S (S (S (S (S (S (S (S O)))))))))) he)
    (app ((IMove
      ((t (S (S (S (S (S (S (S (S (S (S (S (S (S (S (S (S (S (S (S (S (S (S
         (S (S (S (S (S (S (S (S O))))))))))))))))))))))))))))))),
      (t (add (S (S (S (S (S (S (S (S (S (S (S (S O)))))))))))) f_threshold)))) :: ((IInplace
      ((t (S (S (S (S (S (S (S (S (S (S (S (S (S (S (S (S (S (S (S (S (S (S
         (S (S (S (S (S (S (S (S O))))))))))))))))))))))))))))))),
      ((t (S (S (S (S (S (S (S (S (S (S (S O)))))))))))) :: []), (S (S (S (S
      O)))))) :: ((IOp
      ((t (S (S (S (S (S (S (S (S (S (S (S (S (S (S (S (S (S (S (S (S (S (S
         (S (S (S (S (S (S (S (S (S O)))))))))))))))))))))))))))))))),
      (obj :: ((t (S (S (S (S (S (S (S (S (S (S (S (S (S (S (S (S (S (S (S (S
                 (S (S (S (S (S (S (S (S (S (S
                 O))))))))))))))))))))))))))))))) :: [])), (S (S (S (S (S
      O))))))) :: ((IOp
      ((t (S (S (S (S (S (S (S (S (S (S (S (S (S (S (S (S (S (S (S (S (S (S
         (S (S (S (S (S (S (S (S (S (S O))))))))))))))))))))))))))))))))),
      ((t (S (S (S (S (S (S (S (S (S (S (S (S (S (S (S (S (S (S (S (S (S (S
         (S (S (S (S (S (S (S (S (S O)))))))))))))))))))))))))))))))) :: []),
      (S (S (S (S (S (S O)))))))) :: ((IInplace
      ((t (S (S (S (S (S (S (S (S (S (S (S (S (S (S (S (S (S (S (S (S (S (S
         (S (S (S (S (S (S (S (S (S (S O))))))))))))))))))))))))))))))))),
      ((t (S (S (S (S (S (S (S (S (S (S (S (S (S (S (S (S (S (S (S (S (S (S
         (S (S (S (S (S (S (S (S (S O)))))))))))))))))))))))))))))))) :: (
      (t (S (S (S (S (S (S (S (S (S (S (S O)))))))))))) :: [])), (S (S (S (S
      (S (S (S O))))))))) :: ((IInplace
      ((t (S (S (S (S (S (S (S (S (S (S (S (S (S (S (S (S (S (S (S (S (S (S
         (S (S (S (S (S (S (S (S O))))))))))))))))))))))))))))))),
      ((t (S (S (S (S (S (S (S (S (S (S (S (S (S (S (S (S (S (S (S (S (S (S
         (S (S (S (S (S (S (S (S (S O)))))))))))))))))))))))))))))))) :: (
      (t (S (S (S (S (S (S (S (S (S (S (S O)))))))))))) :: [])), (S (S (S (S
      (S (S (S (S O)))))))))) :: ((IOp
      ((t (S (S (S (S (S (S (S (S (S (S (S (S (S (S (S (S (S (S (S (S (S (S
         (S (S (S (S (S (S (S (S (S (S (S O)))))))))))))))))))))))))))))))))),
      (obj :: ((t (S (S (S (S (S (S (S (S (S (S (S (S (S (S (S (S (S (S (S (S
                 (S (S (S (S (S (S (S (S (S (S
                 O))))))))))))))))))))))))))))))) :: [])), (S (S (S (S (S (S
      (S (S (S O))))))))))) :: [])))))))
      (if inserted
       then app ((IOp ((t (S O)),
              ((t O) :: ((t (S (S (S (S (S (S (S (S (S (S (S (S (S (S (S (S
                           (S (S (S (S (S (S (S (S (S (S (S (S (S (S (S
                           O)))))))))))))))))))))))))))))))) :: [])), (S
              O))) :: ((IOp ((t (S (S O))),
              (sol :: ((t (S (S (S (S (S (S (S (S (S (S (S (S (S (S (S (S (S
                         (S (S (S (S (S (S (S (S (S (S (S (S (S (S
                         O)))))))))))))))))))))))))))))))) :: [])), (S
              O))) :: ((IOp ((t (S (S (S O)))),
              (obj :: ((t (S (S (S (S (S (S (S (S (S (S (S (S (S (S (S (S (S
                         (S (S (S (S (S (S (S (S (S (S (S (S (S (S
                         O)))))))))))))))))))))))))))))))) :: [])), (S
              O))) :: ((IOp ((t (S (S (S (S O))))),
              (meas :: ((t (S (S (S (S (S (S (S (S (S (S (S (S (S (S (S (S (S
                          (S (S (S (S (S (S (S (S (S (S (S (S (S (S
                          O)))))))))))))))))))))))))))))))) :: [])), (S
              O))) :: []))))
              (app
                (match ev with
                 | Some e ->
                   (IOp ((t (S (S (S (S (S O)))))),
                     (e :: ((t (S (S (S (S (S (S (S (S (S (S (S (S (S (S (S
                              (S (S (S (S (S (S (S (S (S (S (S (S (S (S (S (S
                              O)))))))))))))))))))))))))))))))) :: [])), (S
                     O))) :: []
                 | None -> [])
                (app ((IOp
                  ((t (S (S (S (S (S (S (S (S (S (S (S (S (S (S (S (S (S (S
                     (S (S (S (S (S (S (S (S (S (S (S (S (S (S (S (S
                     O))))))))))))))))))))))))))))))))))),
                  ((t (S (S (S (S (S (S (S (S (S (S (S (S (S (S (S (S (S (S
                     (S (S (S (S (S (S (S (S (S (S (S (S
                     O))))))))))))))))))))))))))))))) :: ((t (S (S (S (S (S
                                                            (S (S (S (S (S (S
                                                            (S (S (S (S (S (S
                                                            (S (S (S (S (S (S
                                                            (S (S (S (S (S (S
                                                            (S (S
                                                            O)))))))))))))))))))))))))))))))) :: [])),
                  (S O))) :: ((IMove
                  ((t (S (S (S (S (S (S (S (S (S (S (S (S (S (S (S (S (S (S
                     (S (S (S (S (S (S (S (S (S (S (S (S (S (S (S (S (S
                     O)))))))))))))))))))))))))))))))))))),
                  (t (S (S (S O)))))) :: ((IOp
                  ((t (S (S (S (S (S (S (S (S (S (S (S (S (S (S (S (S (S (S
                     (S (S (S (S (S (S (S (S (S (S (S (S (S (S (S (S (S (S
                     O))))))))))))))))))))))))))))))))))))),
                  ((t (S O)) :: ((t (S (S (S O)))) :: [])), (S (S (S (S (S (S
                  (S (S (S (S O)))))))))))) :: ((IOp ((t (S O)),
                  ((t (S O)) :: ((t (S (S (S (S (S (S (S (S (S (S (S (S (S (S
                                   (S (S (S (S (S (S (S (S (S (S (S (S (S (S
                                   (S (S (S (S (S (S (S (S
                                   O))))))))))))))))))))))))))))))))))))) :: [])),
                  (S O))) :: ((IOp ((t (S (S O))),
                  ((t (S (S O))) :: ((t (S (S (S (S (S (S (S (S (S (S (S (S
                                       (S (S (S (S (S (S (S (S (S (S (S (S (S
                                       (S (S (S (S (S (S (S (S (S (S (S
                                       O))))))))))))))))))))))))))))))))))))) :: [])),
                  (S O))) :: ((IOp ((t (S (S (S O)))),
                  ((t (S (S (S O)))) :: ((t (S (S (S (S (S (S (S (S (S (S (S
                                           (S (S (S (S (S (S (S (S (S (S (S
                                           (S (S (S (S (S (S (S (S (S (S (S
                                           (S (S (S
                                           O))))))))))))))))))))))))))))))))))))) :: [])),
                  (S O))) :: ((IOp ((t (S (S (S (S O))))),
                  ((t (S (S (S (S O))))) :: ((t (S (S (S (S (S (S (S (S (S (S
                                               (S (S (S (S (S (S (S (S (S (S
                                               (S (S (S (S (S (S (S (S (S (S
                                               (S (S (S (S (S (S
                                               O))))))))))))))))))))))))))))))))))))) :: [])),
                  (S O))) :: [])))))))
                  (app
                    (match ev with
                     | Some _ ->
                       (IOp ((t (S (S (S (S (S O)))))),
                         ((t (S (S (S (S (S O)))))) :: ((t (S (S (S (S (S (S
                                                          (S (S (S (S (S (S
                                                          (S (S (S (S (S (S
                                                          (S (S (S (S (S (S
                                                          (S (S (S (S (S (S
                                                          (S (S (S (S (S (S
                                                          O))))))))))))))))))))))))))))))))))))) :: [])),
                         (S O))) :: []
                     | None -> [])
                    (app ((IOp ((t (S (S (S (S (S (S O))))))),
                      ((t (S (S (S (S (S (S (S (S (S (S (S (S (S (S (S (S (S
                         (S (S (S (S (S (S (S (S (S (S (S (S (S (S (S (S (S
                         (S O)))))))))))))))))))))))))))))))))))) :: (
                      (t (S (S (S (S (S (S (S (S (S (S (S (S (S (S (S (S (S
                        (S (S (S (S (S (S (S (S (S (S (S (S (S (S (S (S (S (S
                        (S O))))))))))))))))))))))))))))))))))))) :: [])), (S
                      O))) :: [])
                      (app
                        (store_retrieve (t (S O)) (S (S (S (S (S (S (S (S (S
                          (S (S (S (S (S (S (S (S (S (S (S (S (S (S (S (S (S
                          (S (S (S (S (S (S (S (S (S (S (S (S (S (S
                          O)))))))))))))))))))))))))))))))))))))))) he)
                        (app ((IMove
                          ((t (S (S (S (S (S (S (S (S (S (S (S (S (S (S (S (S
                             (S (S (S (S (S (S (S (S (S (S (S (S (S (S (S (S
                             (S (S (S (S (S
                             O)))))))))))))))))))))))))))))))))))))),
                          (t
                            (add (S (S (S (S (S (S (S (S (S (S (S (S (S (S (S
                              (S (S (S (S (S (S (S (S (S (S (S (S (S (S (S (S
                              (S (S (S (S (S (S (S (S (S (S (S
                              O))))))))))))))))))))))))))))))))))))))))))
                              f_objective)))) :: ((IInplace
                          ((t (S (S (S (S (S (S (S (S (S (S (S (S (S (S (S (S
                             (S (S (S (S (S (S (S (S (S (S (S (S (S (S (S (S
                             (S (S (S (S (S
                             O)))))))))))))))))))))))))))))))))))))),
                          ((t (S (S (S (S (S (S (S (S (S (S (S (S (S (S (S (S
                             (S (S (S (S (S (S (S (S (S (S (S (S (S (S (S (S
                             (S (S (S (S (S (S (S (S (S
                             O)))))))))))))))))))))))))))))))))))))))))) :: []),
                          (S (S (S (S O)))))) :: ((IOp
                          ((t (S (S (S (S (S (S (S (S (S (S (S (S (S (S (S (S
                             (S (S (S (S (S (S (S (S (S (S (S (S (S (S (S (S
                             (S (S (S (S (S (S
                             O))))))))))))))))))))))))))))))))))))))),
                          ((t (S (S (S O)))) :: ((t (S (S (S (S (S (S (S (S
                                                   (S (S (S (S (S (S (S (S (S
                                                   (S (S (S (S (S (S (S (S (S
                                                   (S (S (S (S (S (S (S (S (S
                                                   (S (S
                                                   O)))))))))))))))))))))))))))))))))))))) :: [])),
                          (S (S (S (S (S (S (S (S (S (S (S
                          O))))))))))))) :: [])))
                          (app
                            (store_retrieve (t (S O)) (S (S (S (S (S (S (S (S
                              (S (S (S (S (S (S (S (S (S (S (S (S (S (S (S (S
                              (S (S (S (S (S (S (S (S (S (S (S (S (S (S (S (S
                              (S (S (S (S (S (S (S (S (S (S
                              O))))))))))))))))))))))))))))))))))))))))))))))))))
                              he) ((IOp
                            ((t (S (S (S (S (S (S (S (S (S (S (S (S (S (S (S
                               (S (S (S (S (S (S (S (S (S (S (S (S (S (S (S
                               (S (S (S (S (S (S (S (S (S
                               O)))))))))))))))))))))))))))))))))))))))),
                            ((t (S O)) :: ((t (S (S (S O)))) :: [])), (S (S
                            (S (S (S (S (S (S (S (S (S (S
                            O)))))))))))))) :: []))))))))
       else (IOp ((t (S O)), [], (S (S (S (S (S (S (S (S (S (S (S (S (S
              O))))))))))))))) :: []))

(** val has_extra_arg : ep -> nat -> bool **)

let has_extra_arg e nargs =
  (&&) (Nat.eqb nargs (last (arities e) O))
    (Nat.ltb (S O) (length (arities e)))

(** val sliding_buffer_entry :
    bool -> var -> var -> var -> var option -> instr list **)

let sliding_buffer_entry copy sol obj meas ev =
  app
    (if copy
     then (ICopy
            ((t (S (S (S (S (S (S (S (S (S (S (S (S (S (S (S (S (S (S (S (S
               (S (S (S (S (S (S (S (S (S (S (S (S (S (S (S (S (S (S (S (S (S
               (S (S (S (S (S (S (S (S (S (S (S (S (S (S (S (S (S (S (S (S (S
               (S (S (S (S (S (S (S (S
               O))))))))))))))))))))))))))))))))))))))))))))))))))))))))))))))))))))))),
            sol)) :: ((ICopy
            ((t (S (S (S (S (S (S (S (S (S (S (S (S (S (S (S (S (S (S (S (S
               (S (S (S (S (S (S (S (S (S (S (S (S (S (S (S (S (S (S (S (S (S
               (S (S (S (S (S (S (S (S (S (S (S (S (S (S (S (S (S (S (S (S (S
               (S (S (S (S (S (S (S (S (S
               O)))))))))))))))))))))))))))))))))))))))))))))))))))))))))))))))))))))))),
            meas)) :: [])
     else (IMove
            ((t (S (S (S (S (S (S (S (S (S (S (S (S (S (S (S (S (S (S (S (S
               (S (S (S (S (S (S (S (S (S (S (S (S (S (S (S (S (S (S (S (S (S
               (S (S (S (S (S (S (S (S (S (S (S (S (S (S (S (S (S (S (S (S (S
               (S (S (S (S (S (S (S (S
               O))))))))))))))))))))))))))))))))))))))))))))))))))))))))))))))))))))))),
            sol)) :: ((IMove
            ((t (S (S (S (S (S (S (S (S (S (S (S (S (S (S (S (S (S (S (S (S
               (S (S (S (S (S (S (S (S (S (S (S (S (S (S (S (S (S (S (S (S (S
               (S (S (S (S (S (S (S (S (S (S (S (S (S (S (S (S (S (S (S (S (S
               (S (S (S (S (S (S (S (S (S
               O)))))))))))))))))))))))))))))))))))))))))))))))))))))))))))))))))))))))),
            meas)) :: []))
    (app ((ISetSelf (f_new0,
      (t (S (S (S (S (S (S (S (S (S (S (S (S (S (S (S (S (S (S (S (S (S (S (S
        (S (S (S (S (S (S (S (S (S (S (S (S (S (S (S (S (S (S (S (S (S (S (S
        (S (S (S (S (S (S (S (S (S (S (S (S (S (S (S (S (S (S (S (S (S (S (S
        (S
        O))))))))))))))))))))))))))))))))))))))))))))))))))))))))))))))))))))))))) :: ((ISetSelf
      (f_new1, obj)) :: ((ISetSelf (f_new2,
      (t (S (S (S (S (S (S (S (S (S (S (S (S (S (S (S (S (S (S (S (S (S (S (S
        (S (S (S (S (S (S (S (S (S (S (S (S (S (S (S (S (S (S (S (S (S (S (S
        (S (S (S (S (S (S (S (S (S (S (S (S (S (S (S (S (S (S (S (S (S (S (S
        (S (S
        O)))))))))))))))))))))))))))))))))))))))))))))))))))))))))))))))))))))))))) :: [])))
      (match ev with
       | Some e ->
         app
           (if copy
            then (ICopy
                   ((t (S (S (S (S (S (S (S (S (S (S (S (S (S (S (S (S (S (S
                      (S (S (S (S (S (S (S (S (S (S (S (S (S (S (S (S (S (S
                      (S (S (S (S (S (S (S (S (S (S (S (S (S (S (S (S (S (S
                      (S (S (S (S (S (S (S (S (S (S (S (S (S (S (S (S (S (S
                      O))))))))))))))))))))))))))))))))))))))))))))))))))))))))))))))))))))))))),
                   e)) :: []
            else (IMove
                   ((t (S (S (S (S (S (S (S (S (S (S (S (S (S (S (S (S (S (S
                      (S (S (S (S (S (S (S (S (S (S (S (S (S (S (S (S (S (S
                      (S (S (S (S (S (S (S (S (S (S (S (S (S (S (S (S (S (S
                      (S (S (S (S (S (S (S (S (S (S (S (S (S (S (S (S (S (S
                      O))))))))))))))))))))))))))))))))))))))))))))))))))))))))))))))))))))))))),
                   e)) :: []) ((ISetSelf (f_new3,
           (t (S (S (S (S (S (S (S (S (S (S (S (S (S (S (S (S (S (S (S (S (S
             (S (S (S (S (S (S (S (S (S (S (S (S (S (S (S (S (S (S (S (S (S
             (S (S (S (S (S (S (S (S (S (S (S (S (S (S (S (S (S (S (S (S (S
             (S (S (S (S (S (S (S (S (S
             O))))))))))))))))))))))))))))))))))))))))))))))))))))))))))))))))))))))))))) :: [])
       | None -> []))

(** val archive_add_single_core :
    var -> var -> var -> var option -> bool -> instr list **)

let archive_add_single_core sol obj meas ev inserted =
  let he = match ev with
           | Some _ -> true
           | None -> false in
  app ((IView
    ((t (S (S (S (S (S (S (S (S (S (S (S (S (S (S (S (S (S (S (S (S (S (S (S
       (S (S (S (S (S (S (S (S (S (S (S (S (S (S (S (S (S (S (S (S (S (S (S
       (S (S (S (S (S (S (S (S (S (S (S (S (S (S (S (S (S (S (S (S (S (S (S
       (S (S (S (S (S (S (S (S (S (S (S (S (S (S (S (S (S (S (S (S (S (S (S
       (S (S (S (S (S (S (S (S
       O))))))))))))))))))))))))))))))))))))))))))))))))))))))))))))))))))))))))))))))))))))))))))))))))))))),
    sol, true)) :: ((IView
    ((t (S (S (S (S (S (S (S (S (S (S (S (S (S (S (S (S (S (S (S (S (S (S (S
       (S (S (S (S (S (S (S (S (S (S (S (S (S (S (S (S (S (S (S (S (S (S (S
       (S (S (S (S (S (S (S (S (S (S (S (S (S (S (S (S (S (S (S (S (S (S (S
       (S (S (S (S (S (S (S (S (S (S (S (S (S (S (S (S (S (S (S (S (S (S (S
       (S (S (S (S (S (S (S (S (S
       O)))))))))))))))))))))))))))))))))))))))))))))))))))))))))))))))))))))))))))))))))))))))))))))))))))))),
    obj, true)) :: ((IView
    ((t (S (S (S (S (S (S (S (S (S (S (S (S (S (S (S (S (S (S (S (S (S (S (S
       (S (S (S (S (S (S (S (S (S (S (S (S (S (S (S (S (S (S (S (S (S (S (S
       (S (S (S (S (S (S (S (S (S (S (S (S (S (S (S (S (S (S (S (S (S (S (S
       (S (S (S (S (S (S (S (S (S (S (S (S (S (S (S (S (S (S (S (S (S (S (S
       (S (S (S (S (S (S (S (S (S (S
       O))))))))))))))))))))))))))))))))))))))))))))))))))))))))))))))))))))))))))))))))))))))))))))))))))))))),
    meas, true)) :: [])))
    (app
      (match ev with
       | Some e ->
         (IAsarray
           ((t (S (S (S (S (S (S (S (S (S (S (S (S (S (S (S (S (S (S (S (S (S
              (S (S (S (S (S (S (S (S (S (S (S (S (S (S (S (S (S (S (S (S (S
              (S (S (S (S (S (S (S (S (S (S (S (S (S (S (S (S (S (S (S (S (S
              (S (S (S (S (S (S (S (S (S (S (S (S (S (S (S (S (S (S (S (S (S
              (S (S (S (S (S (S (S (S (S (S (S (S (S (S (S (S (S (S (S
              O)))))))))))))))))))))))))))))))))))))))))))))))))))))))))))))))))))))))))))))))))))))))))))))))))))))))),
           e, false)) :: ((IView
           ((t (S (S (S (S (S (S (S (S (S (S (S (S (S (S (S (S (S (S (S (S (S
              (S (S (S (S (S (S (S (S (S (S (S (S (S (S (S (S (S (S (S (S (S
              (S (S (S (S (S (S (S (S (S (S (S (S (S (S (S (S (S (S (S (S (S
              (S (S (S (S (S (S (S (S (S (S (S (S (S (S (S (S (S (S (S (S (S
              (S (S (S (S (S (S (S (S (S (S (S (S (S (S (S (S (S (S (S
              O)))))))))))))))))))))))))))))))))))))))))))))))))))))))))))))))))))))))))))))))))))))))))))))))))))))))),
           (t (S (S (S (S (S (S (S (S (S (S (S (S (S (S (S (S (S (S (S (S (S
             (S (S (S (S (S (S (S (S (S (S (S (S (S (S (S (S (S (S (S (S (S
             (S (S (S (S (S (S (S (S (S (S (S (S (S (S (S (S (S (S (S (S (S
             (S (S (S (S (S (S (S (S (S (S (S (S (S (S (S (S (S (S (S (S (S
             (S (S (S (S (S (S (S (S (S (S (S (S (S (S (S (S (S (S (S
             O)))))))))))))))))))))))))))))))))))))))))))))))))))))))))))))))))))))))))))))))))))))))))))))))))))))))),
           true)) :: [])
       | None -> [])
      (app ((IView
        ((t (S (S (S (S (S (S (S (S (S (S (S (S (S (S (S (S (S (S (S (S (S (S
           (S (S (S (S (S (S (S (S (S (S (S (S (S (S (S (S (S (S (S (S (S (S
           (S (S (S (S (S (S (S (S (S (S (S (S (S (S (S (S (S (S (S (S (S (S
           (S (S (S (S (S (S (S (S (S (S (S (S (S (S (S (S (S (S (S (S (S (S
           (S (S (S (S (S (S (S (S (S (S (S (S (S (S (S (S
           O))))))))))))))))))))))))))))))))))))))))))))))))))))))))))))))))))))))))))))))))))))))))))))))))))))))))),
        meas, true)) :: ((IOp ((t O),
        ((t (S (S (S (S (S (S (S (S (S (S (S (S (S (S (S (S (S (S (S (S (S (S
           (S (S (S (S (S (S (S (S (S (S (S (S (S (S (S (S (S (S (S (S (S (S
           (S (S (S (S (S (S (S (S (S (S (S (S (S (S (S (S (S (S (S (S (S (S
           (S (S (S (S (S (S (S (S (S (S (S (S (S (S (S (S (S (S (S (S (S (S
           (S (S (S (S (S (S (S (S (S (S (S (S (S (S (S (S
           O))))))))))))))))))))))))))))))))))))))))))))))))))))))))))))))))))))))))))))))))))))))))))))))))))))))))) :: []),
        (S (S (S (S (S (S (S (S (S (S (S (S (S (S O)))))))))))))))) :: []))
        (app
          (store_retrieve (t O) (S (S (S (S (S (S (S (S (S (S O)))))))))) he)
          (app ((ICopy
            ((t (S (S (S (S (S (S (S (S (S (S (S (S (S (S (S (S (S (S (S (S
               (S (S (S (S (S (S (S (S (S (S O))))))))))))))))))))))))))))))),
            (t
              (add (S (S (S (S (S (S (S (S (S (S (S (S O))))))))))))
                f_threshold)))) :: ((ICopy
            ((t (S (S (S (S (S (S (S (S (S (S (S (S (S (S (S (S (S (S (S (S
               (S (S (S (S (S (S (S (S (S (S (S
               O)))))))))))))))))))))))))))))))),
            (t (S (S (S (S (S (S (S (S (S (S (S (S (S (S (S (S (S (S (S (S (S
              (S (S (S (S (S (S (S (S (S (S (S (S (S (S (S (S (S (S (S (S (S
              (S (S (S (S (S (S (S (S (S (S (S (S (S (S (S (S (S (S (S (S (S
              (S (S (S (S (S (S (S (S (S (S (S (S (S (S (S (S (S (S (S (S (S
              (S (S (S (S (S (S (S (S (S (S (S (S (S (S (S (S (S
              O)))))))))))))))))))))))))))))))))))))))))))))))))))))))))))))))))))))))))))))))))))))))))))))))))))))))) :: ((IOp
            ((t (S (S (S (S (S (S (S (S (S (S (S (S (S (S (S (S (S (S (S (S
               (S (S (S (S (S (S (S (S (S (S (S (S
               O))))))))))))))))))))))))))))))))), [], (S (S (S (S (S (S
            O)))))))) :: ((IOp
            ((t (S (S (S (S (S (S (S (S (S (S (S (S (S (S (S (S (S (S (S (S
               (S (S (S (S (S (S (S (S (S (S (S (S (S
               O)))))))))))))))))))))))))))))))))),
            ((t (S (S (S (S (S (S (S (S (S (S (S (S (S (S (S (S (S (S (S (S
               (S (S (S (S (S (S (S (S (S (S (S
               O)))))))))))))))))))))))))))))))) :: ((t (S (S (S (S (S (S (S
                                                       (S (S (S (S (S (S (S
                                                       (S (S (S (S (S (S (S
                                                       (S (S (S (S (S (S (S
                                                       (S (S
                                                       O))))))))))))))))))))))))))))))) :: [])),
            (S (S (S (S (S (S (S (S (S O))))))))))) :: []))))
            (app
              (if inserted
               then app ((IOp
                      ((t (S (S (S (S (S (S (S (S (S (S (S (S (S (S (S (S (S
                         (S (S (S (S (S (S (S (S (S (S (S (S (S (S (S
                         O))))))))))))))))))))))))))))))))), [], (S (S (S (S
                      (S (S O)))))))) :: ((IOp
                      ((t (S (S (S (S (S (S O))))))),
                      ((t (S (S (S (S (S (S (S (S (S (S (S (S (S (S (S (S (S
                         (S (S (S (S (S (S (S (S (S (S (S (S (S
                         O))))))))))))))))))))))))))))))) :: ((t (S (S (S (S
                                                                (S (S (S (S
                                                                (S (S (S (S
                                                                (S (S (S (S
                                                                (S (S (S (S
                                                                (S (S (S (S
                                                                (S (S (S (S
                                                                (S (S (S
                                                                O)))))))))))))))))))))))))))))))) :: [])),
                      (S (S (S (S (S (S (S (S (S (S (S (S (S (S (S
                      O))))))))))))))))) :: []))
                      (app
                        (store_retrieve (t O) (S (S (S (S (S (S (S (S (S (S
                          (S (S (S (S (S (S (S (S (S (S (S (S (S (S (S (S (S
                          (S (S (S (S (S (S (S (S (S (S (S (S (S
                          O)))))))))))))))))))))))))))))))))))))))) he)
                        (app ((IMove
                          ((t (S (S (S (S (S (S (S (S (S (S (S (S (S (S (S (S
                             (S (S (S (S (S (S (S (S (S (S (S (S (S (S (S (S
                             (S (S (S (S (S
                             O)))))))))))))))))))))))))))))))))))))),
                          (t
                            (add (S (S (S (S (S (S (S (S (S (S (S (S (S (S (S
                              (S (S (S (S (S (S (S (S (S (S (S (S (S (S (S (S
                              (S (S (S (S (S (S (S (S (S (S (S
                              O))))))))))))))))))))))))))))))))))))))))))
                              f_objective)))) :: ((IInplace
                          ((t (S (S (S (S (S (S (S (S (S (S (S (S (S (S (S (S
                             (S (S (S (S (S (S (S (S (S (S (S (S (S (S (S (S
                             (S (S (S (S (S
                             O)))))))))))))))))))))))))))))))))))))),
                          ((t (S (S (S (S (S (S (S (S (S (S (S (S (S (S (S (S
                             (S (S (S (S (S (S (S (S (S (S (S (S (S (S (S (S
                             (S (S (S (S (S (S (S (S (S
                             O)))))))))))))))))))))))))))))))))))))))))) :: []),
                          (S (S (S (S O)))))) :: ((IOp
                          ((t (S (S (S (S (S (S (S (S (S (S (S (S (S (S (S (S
                             (S (S (S (S (S (S (S (S (S (S (S (S (S (S (S (S
                             (S (S (S (S (S (S
                             O))))))))))))))))))))))))))))))))))))))),
                          ((t (S (S (S (S (S (S (S (S (S (S (S (S (S (S (S (S
                             (S (S (S (S (S (S (S (S (S (S (S (S (S (S (S
                             O)))))))))))))))))))))))))))))))) :: ((t (S (S
                                                                    (S (S (S
                                                                    (S (S (S
                                                                    (S (S (S
                                                                    (S (S (S
                                                                    (S (S (S
                                                                    (S (S (S
                                                                    (S (S (S
                                                                    (S (S (S
                                                                    (S (S (S
                                                                    (S (S (S
                                                                    (S (S (S
                                                                    (S (S
                                                                    O)))))))))))))))))))))))))))))))))))))) :: [])),
                          (S (S (S (S (S (S (S (S (S (S (S
                          O))))))))))))) :: [])))
                          (app
                            (store_retrieve (t O) (S (S (S (S (S (S (S (S (S
                              (S (S (S (S (S (S (S (S (S (S (S (S (S (S (S (S
                              (S (S (S (S (S (S (S (S (S (S (S (S (S (S (S (S
                              (S (S (S (S (S (S (S (S (S
                              O))))))))))))))))))))))))))))))))))))))))))))))))))
                              he)
                            (app ((IOp
                              ((t (S (S (S (S (S (S (S (S (S (S (S (S (S (S
                                 (S (S (S (S (S (S (S (S (S (S (S (S (S (S (S
                                 (S (S (S (S (S (S (S (S (S (S
                                 O)))))))))))))))))))))))))))))))))))))))),
                              ((t O) :: ((t (S (S (S (S (S (S (S (S (S (S (S
                                           (S (S (S (S (S (S (S (S (S (S (S
                                           (S (S (S (S (S (S (S (S (S
                                           O)))))))))))))))))))))))))))))))) :: [])),
                              (S (S (S (S (S (S (S (S (S (S (S (S
                              O)))))))))))))) :: [])
                              (app
                                (store_write (t O)
                                  (app ((f_solution,
                                    (t (S (S (S (S (S (S (S (S (S (S (S (S (S
                                      (S (S (S (S (S (S (S (S (S (S (S (S (S
                                      (S (S (S (S (S (S (S (S (S (S (S (S (S
                                      (S (S (S (S (S (S (S (S (S (S (S (S (S
                                      (S (S (S (S (S (S (S (S (S (S (S (S (S
                                      (S (S (S (S (S (S (S (S (S (S (S (S (S
                                      (S (S (S (S (S (S (S (S (S (S (S (S (S
                                      (S (S (S (S (S (S (S (S (S
                                      O)))))))))))))))))))))))))))))))))))))))))))))))))))))))))))))))))))))))))))))))))))))))))))))))))))))) :: ((f_objective,
                                    (t (S (S (S (S (S (S (S (S (S (S (S (S (S
                                      (S (S (S (S (S (S (S (S (S (S (S (S (S
                                      (S (S (S (S (S (S (S (S (S (S (S (S (S
                                      (S (S (S (S (S (S (S (S (S (S (S (S (S
                                      (S (S (S (S (S (S (S (S (S (S (S (S (S
                                      (S (S (S (S (S (S (S (S (S (S (S (S (S
                                      (S (S (S (S (S (S (S (S (S (S (S (S (S
                                      (S (S (S (S (S (S (S (S (S (S
                                      O))))))))))))))))))))))))))))))))))))))))))))))))))))))))))))))))))))))))))))))))))))))))))))))))))))))) :: ((f_measures,
                                    (t (S (S (S (S (S (S (S (S (S (S (S (S (S
                                      (S (S (S (S (S (S (S (S (S (S (S (S (S
                                      (S (S (S (S (S (S (S (S (S (S (S (S (S
                                      (S (S (S (S (S (S (S (S (S (S (S (S (S
                                      (S (S (S (S (S (S (S (S (S (S (S (S (S
                                      (S (S (S (S (S (S (S (S (S (S (S (S (S
                                      (S (S (S (S (S (S (S (S (S (S (S (S (S
                                      (S (S (S (S (S (S (S (S (S (S (S
                                      O)))))))))))))))))))))))))))))))))))))))))))))))))))))))))))))))))))))))))))))))))))))))))))))))))))))))) :: ((f_threshold,
                                    (t (S (S (S (S (S (S O)))))))) :: []))))
                                    (match ev with
                                     | Some _ ->
                                       (f_extra,
                                         (t (S (S (S (S (S (S (S (S (S (S (S
                                           (S (S (S (S (S (S (S (S (S (S (S
                                           (S (S (S (S (S (S (S (S (S (S (S
                                           (S (S (S (S (S (S (S (S (S (S (S
                                           (S (S (S (S (S (S (S (S (S (S (S
                                           (S (S (S (S (S (S (S (S (S (S (S
                                           (S (S (S (S (S (S (S (S (S (S (S
                                           (S (S (S (S (S (S (S (S (S (S (S
                                           (S (S (S (S (S (S (S (S (S (S (S
                                           (S (S (S (S
                                           O))))))))))))))))))))))))))))))))))))))))))))))))))))))))))))))))))))))))))))))))))))))))))))))))))))))))) :: []
                                     | None -> [])))
                                (app ((ICopy
                                  ((t (S (S (S (S (S (S (S (S (S (S (S (S (S
                                     (S (S (S (S (S (S (S (S (S (S (S (S (S
                                     (S (S (S (S (S (S (S (S (S (S (S (S (S
                                     (S (S (S (S (S (S (S (S (S (S (S (S (S
                                     (S (S (S (S (S (S (S (S (S (S (S (S (S
                                     (S (S (S (S (S (S (S (S (S (S (S (S (S
                                     (S (S (S (S (S (S (S (S (S (S (S (S (S
                                     (S (S (S (S (S (S (S (S (S (S (S (S (S
                                     (S (S (S (S (S (S
                                     O))))))))))))))))))))))))))))))))))))))))))))))))))))))))))))))))))))))))))))))))))))))))))))))))))))))))))))))),
                                  (t (S (S (S (S (S (S (S (S (S (S (S (S (S
                                    (S (S (S (S (S (S (S (S (S (S (S (S (S (S
                                    (S (S (S (S (S
                                    O))))))))))))))))))))))))))))))))))) :: ((ICopy
                                  ((t (S (S (S (S (S (S (S (S (S (S (S (S (S
                                     (S (S (S (S (S (S (S (S (S (S (S (S (S
                                     (S (S (S (S (S (S (S (S (S (S (S (S (S
                                     (S (S (S (S (S (S (S (S (S (S (S (S (S
                                     (S (S (S (S (S (S (S (S (S (S (S (S (S
                                     (S (S (S (S (S (S (S (S (S (S (S (S (S
                                     (S (S (S (S (S (S (S (S (S (S (S (S (S
                                     (S (S (S (S (S (S (S (S (S (S (S (S (S
                                     (S (S (S (S (S (S (S
                                     O)))))))))))))))))))))))))))))))))))))))))))))))))))))))))))))))))))))))))))))))))))))))))))))))))))))))))))))))),
                                  (t (S (S (S (S (S (S (S (S (S (S (S (S (S
                                    (S (S (S (S (S (S (S (S (S (S (S (S (S (S
                                    (S (S (S (S (S (S
                                    O)))))))))))))))))))))))))))))))))))) :: []))
                                  (stats_update
                                    (t (S (S (S (S (S (S (S (S (S (S (S (S (S
                                      (S (S (S (S (S (S (S (S (S (S (S (S (S
                                      (S (S (S (S (S (S (S (S (S (S (S (S (S
                                      O))))))))))))))))))))))))))))))))))))))))
                                    he)))))))
               else (IOp ((t (S O)), [], (S (S (S (S (S (S (S (S (S (S (S (S
                      (S O))))))))))))))) :: ((ICopy
                      ((t (S (S (S (S (S (S (S (S (S (S (S (S (S (S (S (S (S
                         (S (S (S (S (S (S (S (S (S (S (S (S (S (S (S (S (S
                         (S (S (S (S (S (S (S (S (S (S (S (S (S (S (S (S (S
                         (S (S (S (S (S (S (S (S (S (S (S (S (S (S (S (S (S
                         (S (S (S (S (S (S (S (S (S (S (S (S (S (S (S (S (S
                         (S (S (S (S (S (S (S (S (S (S (S (S (S (S (S (S (S
                         (S (S (S (S (S (S (S (S
                         O))))))))))))))))))))))))))))))))))))))))))))))))))))))))))))))))))))))))))))))))))))))))))))))))))))))))))))))),
                      (t (S (S (S (S (S (S (S (S (S (S (S (S (S (S (S (S (S
                        (S (S (S (S (S (S (S (S (S (S (S (S (S (S (S
                        O))))))))))))))))))))))))))))))))))) :: ((ICopy
                      ((t (S (S (S (S (S (S (S (S (S (S (S (S (S (S (S (S (S
                         (S (S (S (S (S (S (S (S (S (S (S (S (S (S (S (S (S
                         (S (S (S (S (S (S (S (S (S (S (S (S (S (S (S (S (S
                         (S (S (S (S (S (S (S (S (S (S (S (S (S (S (S (S (S
                         (S (S (S (S (S (S (S (S (S (S (S (S (S (S (S (S (S
                         (S (S (S (S (S (S (S (S (S (S (S (S (S (S (S (S (S
                         (S (S (S (S (S (S (S (S (S
                         O)))))))))))))))))))))))))))))))))))))))))))))))))))))))))))))))))))))))))))))))))))))))))))))))))))))))))))))))),
                      (t (S (S (S (S (S (S (S (S (S (S (S (S (S (S (S (S (S
                        (S (S (S (S (S (S (S (S (S (S (S (S (S (S (S (S
                        O)))))))))))))))))))))))))))))))))))) :: [])))
              ((IReturn
              (t (S (S (S (S (S (S (S (S (S (S (S (S (S (S (S (S (S (S (S (S
                (S (S (S (S (S (S (S (S (S (S (S (S (S (S (S (S (S (S (S (S
                (S (S (S (S (S (S (S (S (S (S (S (S (S (S (S (S (S (S (S (S
                (S (S (S (S (S (S (S (S (S (S (S (S (S (S (S (S (S (S (S (S
                (S (S (S (S (S (S (S (S (S (S (S (S (S (S (S (S (S (S (S (S
                (S (S (S (S (S (S (S (S (S (S
                O)))))))))))))))))))))))))))))))))))))))))))))))))))))))))))))))))))))))))))))))))))))))))))))))))))))))))))))))) :: ((IReturn
              (t (S (S (S (S (S (S (S (S (S (S (S (S (S (S (S (S (S (S (S (S
                (S (S (S (S (S (S (S (S (S (S (S (S (S (S (S (S (S (S (S (S
                (S (S (S (S (S (S (S (S (S (S (S (S (S (S (S (S (S (S (S (S
                (S (S (S (S (S (S (S (S (S (S (S (S (S (S (S (S (S (S (S (S
                (S (S (S (S (S (S (S (S (S (S (S (S (S (S (S (S (S (S (S (S
                (S (S (S (S (S (S (S (S (S (S (S
                O))))))))))))))))))))))))))))))))))))))))))))))))))))))))))))))))))))))))))))))))))))))))))))))))))))))))))))))))) :: [])))))))

(** val archive_add_core :
    var -> var -> var -> var option -> nat -> bool -> instr list **)

let archive_add_core sol obj meas ev index_op inserted =
  let he = match ev with
           | Some _ -> true
           | None -> false in
  app ((IOp ((t O), (meas :: []), index_op)) :: [])
    (app (archive_transforms sol obj meas ev inserted)
      (app
        (if inserted
         then app
                (store_write (t (S O))
                  (app ((f_solution, (t (S (S O)))) :: ((f_objective,
                    (t (S (S (S O))))) :: ((f_measures,
                    (t (S (S (S (S O)))))) :: ((f_threshold,
                    (t (S (S (S (S (S (S O)))))))) :: []))))
                    (match ev with
                     | Some _ -> (f_extra, (t (S (S (S (S (S O))))))) :: []
                     | None -> [])))
                (stats_update
                  (t (S (S (S (S (S (S (S (S (S (S (S (S (S (S (S (S (S (S (S
                    (S (S (S (S (S (S (S (S (S (S (S (S (S (S (S (S (S (S (S
                    (S O)))))))))))))))))))))))))))))))))))))))) he)
         else []) ((IReturn
        (t (S (S (S (S (S (S (S (S (S (S (S (S (S (S (S (S (S (S (S (S (S (S
          (S (S (S (S (S (S (S (S (S (S O)))))))))))))))))))))))))))))))))) :: ((IReturn
        (t (S (S (S (S (S (S (S (S (S (S (S (S (S (S (S (S (S (S (S (S (S (S
          (S (S (S (S (S (S (S (S (S (S (S O))))))))))))))))))))))))))))))))))) :: []))))

(** val opt_ev : ep -> nat -> nat -> var option **)

let opt_ev e nargs pos =
  if has_extra_arg e nargs then Some pos else None

(** val ranker_and_opt : bool -> var list -> instr list **)

let ranker_and_opt spy regs =
  app (if spy then map (fun x -> IExpose x) regs else []) ((IOp
    ((t (S (S (S (S (S (S (S (S (S (S (S (S (S (S (S (S (S (S (S (S
       O))))))))))))))))))))), ((nth (S O) regs O) :: []), (S (S (S (S (S (S
    (S (S (S (S (S (S (S (S (S (S (S (S (S (S
    O)))))))))))))))))))))) :: ((IOp
    ((t (S (S (S (S (S (S (S (S (S (S (S (S (S (S (S (S (S (S (S (S (S
       O)))))))))))))))))))))), ((nth (S O) regs O) :: []), (S (S (S (S (S (S
    (S (S (S (S (S (S (S (S (S (S (S (S (S (S (S
    O))))))))))))))))))))))) :: []))

(** val emitter_tell : nat -> bool -> var list -> instr list **)

let emitter_tell kind spy regs =
  app (validate_batch regs)
    (match kind with
     | O -> []
     | S n ->
       (match n with
        | O ->
          app (ranker_and_opt spy regs) ((IGetSelf
            ((t (S (S (S (S (S (S (S (S (S (S (S (S (S (S (S (S (S (S (S (S
               (S (S O))))))))))))))))))))))), f_i0)) :: ((IOp
            ((t (S (S (S (S (S (S (S (S (S (S (S (S (S (S (S (S (S (S (S (S
               (S (S (S O)))))))))))))))))))))))),
            ((t (S (S (S (S (S (S (S (S (S (S (S (S (S (S (S (S (S (S (S (S
               (S (S O))))))))))))))))))))))) :: ((t (S (S (S (S (S (S (S (S
                                                    (S (S (S (S (S (S (S (S
                                                    (S (S (S (S
                                                    O))))))))))))))))))))) :: [])),
            (S O))) :: ((IOp
            ((t (S (S (S (S (S (S (S (S (S (S (S (S (S (S (S (S (S (S (S (S
               (S (S (S (S O))))))))))))))))))))))))),
            ((t (S (S (S (S (S (S (S (S (S (S (S (S (S (S (S (S (S (S (S (S
               (S (S (S O)))))))))))))))))))))))) :: []), (S (S (S (S (S (S
            (S (S (S (S (S (S (S (S (S (S (S (S (S (S (S (S
            O)))))))))))))))))))))))) :: ((ISetSelf (f_i1,
            (t (S (S (S (S (S (S (S (S (S (S (S (S (S (S (S (S (S (S (S (S (S
              (S (S (S O))))))))))))))))))))))))))) :: []))))
        | S _ ->
          app (ranker_and_opt spy regs) ((IOp
            ((t (S (S (S (S (S (S (S (S (S (S (S (S (S (S (S (S (S (S (S (S
               (S (S (S (S (S O)))))))))))))))))))))))))),
            ((hd O regs) :: ((t (S (S (S (S (S (S (S (S (S (S (S (S (S (S (S
                               (S (S (S (S (S O))))))))))))))))))))) :: [])),
            (S O))) :: ((IView
            ((t (S (S (S (S (S (S (S (S (S (S (S (S (S (S (S (S (S (S (S (S
               (S (S (S (S (S O)))))))))))))))))))))))))),
            (t (S (S (S (S (S (S (S (S (S (S (S (S (S (S (S (S (S (S (S (S (S
              (S (S (S (S O)))))))))))))))))))))))))), true)) :: ((IOp
            ((t (S (S (S (S (S (S (S (S (S (S (S (S (S (S (S (S (S (S (S (S
               (S (S (S (S (S (S O))))))))))))))))))))))))))),
            ((t (S (S (S (S (S (S (S (S (S (S (S (S (S (S (S (S (S (S (S (S
               (S (S (S (S (S O)))))))))))))))))))))))))) :: []), (S (S (S (S
            (S (S (S (S (S (S (S (S (S (S (S (S (S (S (S (S (S (S (S
            O))))))))))))))))))))))))) :: ((IGetSelf
            ((t (S (S (S (S (S (S (S (S (S (S (S (S (S (S (S (S (S (S (S (S
               (S (S (S (S (S (S (S O)))))))))))))))))))))))))))),
            f_i2)) :: ((IOp
            ((t (S (S (S (S (S (S (S (S (S (S (S (S (S (S (S (S (S (S (S (S
               (S (S (S (S (S (S (S (S O))))))))))))))))))))))))))))),
            ((t (S (S (S (S (S (S (S (S (S (S (S (S (S (S (S (S (S (S (S (S
               (S (S (S (S (S (S O))))))))))))))))))))))))))) :: ((t (S (S (S
                                                                    (S (S (S
                                                                    (S (S (S
                                                                    (S (S (S
                                                                    (S (S (S
                                                                    (S (S (S
                                                                    (S (S (S
                                                                    (S (S (S
                                                                    (S (S (S
                                                                    O)))))))))))))))))))))))))))) :: [])),
            (S (S (S (S (S (S (S (S (S (S (S (S (S (S (S (S (S (S (S (S (S (S
            (S (S O)))))))))))))))))))))))))) :: ((IAsarray
            ((t (S (S (S (S (S (S (S (S (S (S (S (S (S (S (S (S (S (S (S (S
               (S (S (S (S (S (S (S (S O))))))))))))))))))))))))))))),
            (t (S (S (S (S (S (S (S (S (S (S (S (S (S (S (S (S (S (S (S (S (S
              (S (S (S (S (S (S (S O))))))))))))))))))))))))))))),
            false)) :: ((IOp
            ((t (S (S (S (S (S (S (S (S (S (S (S (S (S (S (S (S (S (S (S (S
               (S (S (S (S (S (S (S (S (S O)))))))))))))))))))))))))))))),
            ((t (S (S (S (S (S (S (S (S (S (S (S (S (S (S (S (S (S (S (S (S
               (S (S (S (S (S (S (S (S O))))))))))))))))))))))))))))) :: []),
            (S (S (S (S (S (S (S (S (S (S (S (S (S (S (S (S (S (S (S (S (S (S
            (S (S (S O))))))))))))))))))))))))))) :: ((IInplace
            ((t (S (S (S (S (S (S (S (S (S (S (S (S (S (S (S (S (S (S (S (S
               (S (S (S (S (S (S (S (S (S O)))))))))))))))))))))))))))))),
            ((t (S (S (S (S (S (S (S (S (S (S (S (S (S (S (S (S (S (S (S (S
               (S (S (S (S (S (S (S O)))))))))))))))))))))))))))) :: []), (S
            (S (S (S (S (S (S (S (S (S (S (S (S (S (S (S (S (S (S (S (S (S (S
            (S (S (S O)))))))))))))))))))))))))))) :: ((IInplace
            ((t (S (S (S (S (S (S (S (S (S (S (S (S (S (S (S (S (S (S (S (S
               (S (S (S (S (S (S (S O)))))))))))))))))))))))))))),
            ((t (S (S (S (S (S (S (S (S (S (S (S (S (S (S (S (S (S (S (S (S
               (S (S (S (S (S (S (S (S (S O)))))))))))))))))))))))))))))) :: []),
            (S (S (S (S (S (S (S (S (S (S (S (S (S (S (S (S (S (S (S (S (S (S
            (S (S (S (S (S O))))))))))))))))))))))))))))) :: [])))))))))))

(** val tell_dqd : bool -> bool -> var list -> var -> instr list **)

let tell_dqd copy normalize regs jac =
  app (validate_batch regs)
    (app
      (if normalize
       then app ((IOp
              ((t (S (S (S (S (S (S (S (S (S (S (S (S (S (S (S (S (S (S (S (S
                 O))))))))))))))))))))), (jac :: []), (S (S (S (S (S (S (S (S
              (S (S (S (S (S (S (S (S (S (S (S (S (S (S (S (S (S (S (S (S (S
              (S O)))))))))))))))))))))))))))))))) :: [])
              (if copy
               then (IOp
                      ((t (S (S (S (S (S (S (S (S (S (S (S (S (S (S (S (S (S
                         (S (S (S (S O)))))))))))))))))))))),
                      (jac :: ((t (S (S (S (S (S (S (S (S (S (S (S (S (S (S
                                 (S (S (S (S (S (S O))))))))))))))))))))) :: [])),
                      (S (S (S (S (S (S (S (S (S (S (S (S (S (S (S (S (S (S
                      (S (S (S (S (S (S (S (S (S (S (S (S (S
                      O))))))))))))))))))))))))))))))))) :: []
               else (IInplace (jac,
                      ((t (S (S (S (S (S (S (S (S (S (S (S (S (S (S (S (S (S
                         (S (S (S O))))))))))))))))))))) :: []), (S (S (S (S
                      (S (S (S (S (S (S (S (S (S (S (S (S (S (S (S (S (S (S
                      (S (S (S (S (S (S (S (S (S
                      O))))))))))))))))))))))))))))))))) :: ((IMove
                      ((t (S (S (S (S (S (S (S (S (S (S (S (S (S (S (S (S (S
                         (S (S (S (S O)))))))))))))))))))))), jac)) :: []))
       else if copy
            then (ICopy
                   ((t (S (S (S (S (S (S (S (S (S (S (S (S (S (S (S (S (S (S
                      (S (S (S O)))))))))))))))))))))), jac)) :: []
            else (IMove
                   ((t (S (S (S (S (S (S (S (S (S (S (S (S (S (S (S (S (S (S
                      (S (S (S O)))))))))))))))))))))), jac)) :: [])
      ((ISetSelf (f_i3,
      (t (S (S (S (S (S (S (S (S (S (S (S (S (S (S (S (S (S (S (S (S (S
        O)))))))))))))))))))))))) :: []))

(** val emitter_start : bool -> bool -> var -> instr list **)

let emitter_start copy use_init r =
  if use_init
  then app
         (if copy
          then (ICopy
                 ((t (S (S (S (S (S (S (S (S (S (S (S (S (S (S (S (S (S (S (S
                    (S O))))))))))))))))))))), r)) :: []
          else (IAsarray
                 ((t (S (S (S (S (S (S (S (S (S (S (S (S (S (S (S (S (S (S (S
                    (S O))))))))))))))))))))), r, true)) :: []) ((ISetSelf
         (f_new1,
         (t (S (S (S (S (S (S (S (S (S (S (S (S (S (S (S (S (S (S (S (S
           O))))))))))))))))))))))) :: [])
  else (ICopy
         ((t (S (S (S (S (S (S (S (S (S (S (S (S (S (S (S (S (S (S (S (S
            O))))))))))))))))))))), r)) :: ((ISetSelf (f_new0,
         (t (S (S (S (S (S (S (S (S (S (S (S (S (S (S (S (S (S (S (S (S
           O))))))))))))))))))))))) :: [])

(** val emitter_bounds : var -> instr list **)

let emitter_bounds r =
  (IOp
    ((t (S (S (S (S (S (S (S (S (S (S (S (S (S (S (S (S (S (S (S (S (S
       O)))))))))))))))))))))), [], (S (S (S (S (S (S (S (S (S (S (S (S (S (S
    (S (S (S (S (S (S (S (S (S (S (S (S (S (S (S (S (S (S (S (S (S (S (S (S
    (S (S O)))))))))))))))))))))))))))))))))))))))))) :: ((IOp
    ((t (S (S (S (S (S (S (S (S (S (S (S (S (S (S (S (S (S (S (S (S (S (S
       O))))))))))))))))))))))), [], (S (S (S (S (S (S (S (S (S (S (S (S (S
    (S (S (S (S (S (S (S (S (S (S (S (S (S (S (S (S (S (S (S (S (S (S (S (S
    (S (S (S O)))))))))))))))))))))))))))))))))))))))))) :: ((IInplace
    ((t (S (S (S (S (S (S (S (S (S (S (S (S (S (S (S (S (S (S (S (S (S
       O)))))))))))))))))))))), (r :: []), (S (S (S (S (S (S (S (S (S (S (S
    (S (S (S (S (S (S (S (S (S (S (S (S (S (S (S (S (S (S (S (S (S (S (S (S
    (S (S (S (S (S (S
    O))))))))))))))))))))))))))))))))))))))))))) :: ((IInplace
    ((t (S (S (S (S (S (S (S (S (S (S (S (S (S (S (S (S (S (S (S (S (S (S
       O))))))))))))))))))))))), (r :: []), (S (S (S (S (S (S (S (S (S (S (S
    (S (S (S (S (S (S (S (S (S (S (S (S (S (S (S (S (S (S (S (S (S (S (S (S
    (S (S (S (S (S (S
    O))))))))))))))))))))))))))))))))))))))))))) :: ((ISetSelf (f_new2,
    (t (S (S (S (S (S (S (S (S (S (S (S (S (S (S (S (S (S (S (S (S (S
      O)))))))))))))))))))))))) :: ((ISetSelf (f_new3,
    (t (S (S (S (S (S (S (S (S (S (S (S (S (S (S (S (S (S (S (S (S (S (S
      O))))))))))))))))))))))))) :: [])))))

(** val sched_archive_add :
    bool -> nat -> bool -> var -> var -> var option -> instr list **)

let sched_archive_add copy akind single obj meas ev =
  let sol =
    t (S (S (S (S (S (S (S (S (S (S (S (S (S (S (S (S (S (S (S (S (S (S (S (S
      (S (S (S (S (S (S (S (S (S (S (S (S (S (S (S (S (S (S (S (S (S (S (S (S
      (S (S (S (S (S (S (S (S (S (S (S (S (S (S (S (S (S (S (S (S (S (S (S (S
      (S (S (S (S (S (S (S (S (S (S (S (S (S (S (S (S (S (S (S (S (S (S (S (S
      (S (S (S (S (S (S (S (S (S (S (S (S (S (S (S (S (S (S (S (S (S (S (S (S
      O))))))))))))))))))))))))))))))))))))))))))))))))))))))))))))))))))))))))))))))))))))))))))))))))))))))))))))))))))))))))
  in
  app ((IGetSelf (sol, f_i4)) :: [])
    (if single
     then app ((IView
            ((t (S (S (S (S (S (S (S (S (S (S (S (S (S (S (S (S (S (S (S (S
               (S (S (S (S (S (S (S (S (S (S (S (S (S (S (S (S (S (S (S (S (S
               (S (S (S (S (S (S (S (S (S (S (S (S (S (S (S (S (S (S (S (S (S
               (S (S (S (S (S (S (S (S (S (S (S (S (S (S (S (S (S (S (S (S (S
               (S (S (S (S (S (S (S (S (S (S (S (S (S (S (S (S (S (S (S (S (S
               (S (S (S (S (S (S (S (S (S (S (S (S (S (S (S (S (S
               O)))))))))))))))))))))))))))))))))))))))))))))))))))))))))))))))))))))))))))))))))))))))))))))))))))))))))))))))))))))))))),
            sol, true)) :: ((ICopy
            ((t (S (S (S (S (S (S (S (S (S (S (S (S (S (S (S (S (S (S (S (S
               (S (S (S (S (S (S (S (S (S (S (S (S (S (S (S (S (S (S (S (S (S
               (S (S (S (S (S (S (S (S (S (S (S (S (S (S (S (S (S (S (S (S (S
               (S (S (S (S (S (S (S (S (S (S (S (S (S (S (S (S (S (S (S (S (S
               (S (S (S (S (S (S (S (S (S (S (S (S (S (S (S (S (S (S (S (S (S
               (S (S (S (S (S (S (S (S (S (S (S (S (S (S (S (S (S (S
               O))))))))))))))))))))))))))))))))))))))))))))))))))))))))))))))))))))))))))))))))))))))))))))))))))))))))))))))))))))))))))),
            obj)) :: ((IView
            ((t (S (S (S (S (S (S (S (S (S (S (S (S (S (S (S (S (S (S (S (S
               (S (S (S (S (S (S (S (S (S (S (S (S (S (S (S (S (S (S (S (S (S
               (S (S (S (S (S (S (S (S (S (S (S (S (S (S (S (S (S (S (S (S (S
               (S (S (S (S (S (S (S (S (S (S (S (S (S (S (S (S (S (S (S (S (S
               (S (S (S (S (S (S (S (S (S (S (S (S (S (S (S (S (S (S (S (S (S
               (S (S (S (S (S (S (S (S (S (S (S (S (S (S (S (S (S (S (S
               O)))))))))))))))))))))))))))))))))))))))))))))))))))))))))))))))))))))))))))))))))))))))))))))))))))))))))))))))))))))))))))),
            meas, true)) :: [])))
            (app
              (match ev with
               | Some e ->
                 (IView
                   ((t (S (S (S (S (S (S (S (S (S (S (S (S (S (S (S (S (S (S
                      (S (S (S (S (S (S (S (S (S (S (S (S (S (S (S (S (S (S
                      (S (S (S (S (S (S (S (S (S (S (S (S (S (S (S (S (S (S
                      (S (S (S (S (S (S (S (S (S (S (S (S (S (S (S (S (S (S
                      (S (S (S (S (S (S (S (S (S (S (S (S (S (S (S (S (S (S
                      (S (S (S (S (S (S (S (S (S (S (S (S (S (S (S (S (S (S
                      (S (S (S (S (S (S (S (S (S (S (S (S (S (S (S (S
                      O))))))))))))))))))))))))))))))))))))))))))))))))))))))))))))))))))))))))))))))))))))))))))))))))))))))))))))))))))))))))))))),
                   e, true)) :: []
               | None -> [])
              (app
                (validate_single
                  (t (S (S (S (S (S (S (S (S (S (S (S (S (S (S (S (S (S (S (S
                    (S (S (S (S (S (S (S (S (S (S (S (S (S (S (S (S (S (S (S
                    (S (S (S (S (S (S (S (S (S (S (S (S (S (S (S (S (S (S (S
                    (S (S (S (S (S (S (S (S (S (S (S (S (S (S (S (S (S (S (S
                    (S (S (S (S (S (S (S (S (S (S (S (S (S (S (S (S (S (S (S
                    (S (S (S (S (S (S (S (S (S (S (S (S (S (S (S (S (S (S (S
                    (S (S (S (S (S (S (S
                    O))))))))))))))))))))))))))))))))))))))))))))))))))))))))))))))))))))))))))))))))))))))))))))))))))))))))))))))))))))))))))
                  (t (S (S (S (S (S (S (S (S (S (S (S (S (S (S (S (S (S (S (S
                    (S (S (S (S (S (S (S (S (S (S (S (S (S (S (S (S (S (S (S
                    (S (S (S (S (S (S (S (S (S (S (S (S (S (S (S (S (S (S (S
                    (S (S (S (S (S (S (S (S (S (S (S (S (S (S (S (S (S (S (S
                    (S (S (S (S (S (S (S (S (S (S (S (S (S (S (S (S (S (S (S
                    (S (S (S (S (S (S (S (S (S (S (S (S (S (S (S (S (S (S (S
                    (S (S (S (S (S (S (S (S
                    O)))))))))))))))))))))))))))))))))))))))))))))))))))))))))))))))))))))))))))))))))))))))))))))))))))))))))))))))))))))))))))
                  (t (S (S (S (S (S (S (S (S (S (S (S (S (S (S (S (S (S (S (S
                    (S (S (S (S (S (S (S (S (S (S (S (S (S (S (S (S (S (S (S
                    (S (S (S (S (S (S (S (S (S (S (S (S (S (S (S (S (S (S (S
                    (S (S (S (S (S (S (S (S (S (S (S (S (S (S (S (S (S (S (S
                    (S (S (S (S (S (S (S (S (S (S (S (S (S (S (S (S (S (S (S
                    (S (S (S (S (S (S (S (S (S (S (S (S (S (S (S (S (S (S (S
                    (S (S (S (S (S (S (S (S (S
                    O)))))))))))))))))))))))))))))))))))))))))))))))))))))))))))))))))))))))))))))))))))))))))))))))))))))))))))))))))))))))))))))
                (app
                  (match akind with
                   | O -> []
                   | S n ->
                     (match n with
                      | O ->
                        sliding_buffer_entry copy
                          (t (S (S (S (S (S (S (S (S (S (S (S (S (S (S (S (S
                            (S (S (S (S (S (S (S (S (S (S (S (S (S (S (S (S
                            (S (S (S (S (S (S (S (S (S (S (S (S (S (S (S (S
                            (S (S (S (S (S (S (S (S (S (S (S (S (S (S (S (S
                            (S (S (S (S (S (S (S (S (S (S (S (S (S (S (S (S
                            (S (S (S (S (S (S (S (S (S (S (S (S (S (S (S (S
                            (S (S (S (S (S (S (S (S (S (S (S (S (S (S (S (S
                            (S (S (S (S (S (S (S (S (S
                            O))))))))))))))))))))))))))))))))))))))))))))))))))))))))))))))))))))))))))))))))))))))))))))))))))))))))))))))))))))))))))
                          (t (S (S (S (S (S (S (S (S (S (S (S (S (S (S (S (S
                            (S (S (S (S (S (S (S (S (S (S (S (S (S (S (S (S
                            (S (S (S (S (S (S (S (S (S (S (S (S (S (S (S (S
                            (S (S (S (S (S (S (S (S (S (S (S (S (S (S (S (S
                            (S (S (S (S (S (S (S (S (S (S (S (S (S (S (S (S
                            (S (S (S (S (S (S (S (S (S (S (S (S (S (S (S (S
                            (S (S (S (S (S (S (S (S (S (S (S (S (S (S (S (S
                            (S (S (S (S (S (S (S (S (S (S
                            O)))))))))))))))))))))))))))))))))))))))))))))))))))))))))))))))))))))))))))))))))))))))))))))))))))))))))))))))))))))))))))
                          (t (S (S (S (S (S (S (S (S (S (S (S (S (S (S (S (S
                            (S (S (S (S (S (S (S (S (S (S (S (S (S (S (S (S
                            (S (S (S (S (S (S (S (S (S (S (S (S (S (S (S (S
                            (S (S (S (S (S (S (S (S (S (S (S (S (S (S (S (S
                            (S (S (S (S (S (S (S (S (S (S (S (S (S (S (S (S
                            (S (S (S (S (S (S (S (S (S (S (S (S (S (S (S (S
                            (S (S (S (S (S (S (S (S (S (S (S (S (S (S (S (S
                            (S (S (S (S (S (S (S (S (S (S (S
                            O))))))))))))))))))))))))))))))))))))))))))))))))))))))))))))))))))))))))))))))))))))))))))))))))))))))))))))))))))))))))))))
                          (match ev with
                           | Some _ ->
                             Some
                               (t (S (S (S (S (S (S (S (S (S (S (S (S (S (S
                                 (S (S (S (S (S (S (S (S (S (S (S (S (S (S (S
                                 (S (S (S (S (S (S (S (S (S (S (S (S (S (S (S
                                 (S (S (S (S (S (S (S (S (S (S (S (S (S (S (S
                                 (S (S (S (S (S (S (S (S (S (S (S (S (S (S (S
                                 (S (S (S (S (S (S (S (S (S (S (S (S (S (S (S
                                 (S (S (S (S (S (S (S (S (S (S (S (S (S (S (S
                                 (S (S (S (S (S (S (S (S (S (S (S (S (S (S (S
                                 (S (S (S (S (S
                                 O)))))))))))))))))))))))))))))))))))))))))))))))))))))))))))))))))))))))))))))))))))))))))))))))))))))))))))))))))))))))))))))
                           | None -> None)
                      | S _ -> []))
                  (archive_add_single_core
                    (t (S (S (S (S (S (S (S (S (S (S (S (S (S (S (S (S (S (S
                      (S (S (S (S (S (S (S (S (S (S (S (S (S (S (S (S (S (S
                      (S (S (S (S (S (S (S (S (S (S (S (S (S (S (S (S (S (S
                      (S (S (S (S (S (S (S (S (S (S (S (S (S (S (S (S (S (S
                      (S (S (S (S (S (S (S (S (S (S (S (S (S (S (S (S (S (S
                      (S (S (S (S (S (S (S (S (S (S (S (S (S (S (S (S (S (S
                      (S (S (S (S (S (S (S (S (S (S (S (S (S
                      O))))))))))))))))))))))))))))))))))))))))))))))))))))))))))))))))))))))))))))))))))))))))))))))))))))))))))))))))))))))))))
                    (t (S (S (S (S (S (S (S (S (S (S (S (S (S (S (S (S (S (S
                      (S (S (S (S (S (S (S (S (S (S (S (S (S (S (S (S (S (S
                      (S (S (S (S (S (S (S (S (S (S (S (S (S (S (S (S (S (S
                      (S (S (S (S (S (S (S (S (S (S (S (S (S (S (S (S (S (S
                      (S (S (S (S (S (S (S (S (S (S (S (S (S (S (S (S (S (S
                      (S (S (S (S (S (S (S (S (S (S (S (S (S (S (S (S (S (S
                      (S (S (S (S (S (S (S (S (S (S (S (S (S (S
                      O)))))))))))))))))))))))))))))))))))))))))))))))))))))))))))))))))))))))))))))))))))))))))))))))))))))))))))))))))))))))))))
                    (t (S (S (S (S (S (S (S (S (S (S (S (S (S (S (S (S (S (S
                      (S (S (S (S (S (S (S (S (S (S (S (S (S (S (S (S (S (S
                      (S (S (S (S (S (S (S (S (S (S (S (S (S (S (S (S (S (S
                      (S (S (S (S (S (S (S (S (S (S (S (S (S (S (S (S (S (S
                      (S (S (S (S (S (S (S (S (S (S (S (S (S (S (S (S (S (S
                      (S (S (S (S (S (S (S (S (S (S (S (S (S (S (S (S (S (S
                      (S (S (S (S (S (S (S (S (S (S (S (S (S (S (S
                      O))))))))))))))))))))))))))))))))))))))))))))))))))))))))))))))))))))))))))))))))))))))))))))))))))))))))))))))))))))))))))))
                    (match ev with
                     | Some _ ->
                       Some
                         (t (S (S (S (S (S (S (S (S (S (S (S (S (S (S (S (S
                           (S (S (S (S (S (S (S (S (S (S (S (S (S (S (S (S (S
                           (S (S (S (S (S (S (S (S (S (S (S (S (S (S (S (S (S
                           (S (S (S (S (S (S (S (S (S (S (S (S (S (S (S (S (S
                           (S (S (S (S (S (S (S (S (S (S (S (S (S (S (S (S (S
                           (S (S (S (S (S (S (S (S (S (S (S (S (S (S (S (S (S
                           (S (S (S (S (S (S (S (S (S (S (S (S (S (S (S (S (S
                           (S (S (S (S (S (S
                           O)))))))))))))))))))))))))))))))))))))))))))))))))))))))))))))))))))))))))))))))))))))))))))))))))))))))))))))))))))))))))))))
                     | None -> None) true))))
     else app
            (validate_batch
              (app (sol :: (obj :: (meas :: [])))
                (match ev with
                 | Some e -> e :: []
                 | None -> [])))
            (match akind with
             | O ->
               archive_add_core sol obj meas ev (S (S (S (S (S (S (S (S (S (S
                 (S (S (S (S (S (S O)))))))))))))))) true
             | S n ->
               (match n with
                | O ->
                  app ((IView
                    ((t (S (S (S (S (S (S (S (S (S (S (S (S (S (S (S (S (S (S
                       (S (S (S (S (S (S (S (S (S (S (S (S (S (S (S (S (S (S
                       (S (S (S (S (S (S (S (S (S (S (S (S (S (S (S (S (S (S
                       (S (S (S (S (S (S (S (S (S (S (S (S (S (S (S (S (S (S
                       (S (S (S (S (S (S (S (S (S (S (S (S (S (S (S (S (S (S
                       (S (S (S (S (S (S (S (S (S (S (S (S (S (S (S (S (S (S
                       (S (S (S (S (S (S (S (S (S (S (S (S (S
                       O)))))))))))))))))))))))))))))))))))))))))))))))))))))))))))))))))))))))))))))))))))))))))))))))))))))))))))))))))))))))))),
                    sol, true)) :: ((ICopy
                    ((t (S (S (S (S (S (S (S (S (S (S (S (S (S (S (S (S (S (S
                       (S (S (S (S (S (S (S (S (S (S (S (S (S (S (S (S (S (S
                       (S (S (S (S (S (S (S (S (S (S (S (S (S (S (S (S (S (S
                       (S (S (S (S (S (S (S (S (S (S (S (S (S (S (S (S (S (S
                       (S (S (S (S (S (S (S (S (S (S (S (S (S (S (S (S (S (S
                       (S (S (S (S (S (S (S (S (S (S (S (S (S (S (S (S (S (S
                       (S (S (S (S (S (S (S (S (S (S (S (S (S (S
                       O))))))))))))))))))))))))))))))))))))))))))))))))))))))))))))))))))))))))))))))))))))))))))))))))))))))))))))))))))))))))))),
                    obj)) :: ((IView
                    ((t (S (S (S (S (S (S (S (S (S (S (S (S (S (S (S (S (S (S
                       (S (S (S (S (S (S (S (S (S (S (S (S (S (S (S (S (S (S
                       (S (S (S (S (S (S (S (S (S (S (S (S (S (S (S (S (S (S
                       (S (S (S (S (S (S (S (S (S (S (S (S (S (S (S (S (S (S
                       (S (S (S (S (S (S (S (S (S (S (S (S (S (S (S (S (S (S
                       (S (S (S (S (S (S (S (S (S (S (S (S (S (S (S (S (S (S
                       (S (S (S (S (S (S (S (S (S (S (S (S (S (S (S
                       O)))))))))))))))))))))))))))))))))))))))))))))))))))))))))))))))))))))))))))))))))))))))))))))))))))))))))))))))))))))))))))),
                    meas, true)) :: [])))
                    (app
                      (match ev with
                       | Some e ->
                         (IView
                           ((t (S (S (S (S (S (S (S (S (S (S (S (S (S (S (S
                              (S (S (S (S (S (S (S (S (S (S (S (S (S (S (S (S
                              (S (S (S (S (S (S (S (S (S (S (S (S (S (S (S (S
                              (S (S (S (S (S (S (S (S (S (S (S (S (S (S (S (S
                              (S (S (S (S (S (S (S (S (S (S (S (S (S (S (S (S
                              (S (S (S (S (S (S (S (S (S (S (S (S (S (S (S (S
                              (S (S (S (S (S (S (S (S (S (S (S (S (S (S (S (S
                              (S (S (S (S (S (S (S (S (S (S (S (S (S
                              O))))))))))))))))))))))))))))))))))))))))))))))))))))))))))))))))))))))))))))))))))))))))))))))))))))))))))))))))))))))))))))),
                           e, true)) :: []
                       | None -> [])
                      (app
                        (validate_single
                          (t (S (S (S (S (S (S (S (S (S (S (S (S (S (S (S (S
                            (S (S (S (S (S (S (S (S (S (S (S (S (S (S (S (S
                            (S (S (S (S (S (S (S (S (S (S (S (S (S (S (S (S
                            (S (S (S (S (S (S (S (S (S (S (S (S (S (S (S (S
                            (S (S (S (S (S (S (S (S (S (S (S (S (S (S (S (S
                            (S (S (S (S (S (S (S (S (S (S (S (S (S (S (S (S
                            (S (S (S (S (S (S (S (S (S (S (S (S (S (S (S (S
                            (S (S (S (S (S (S (S (S (S
                            O))))))))))))))))))))))))))))))))))))))))))))))))))))))))))))))))))))))))))))))))))))))))))))))))))))))))))))))))))))))))))
                          (t (S (S (S (S (S (S (S (S (S (S (S (S (S (S (S (S
                            (S (S (S (S (S (S (S (S (S (S (S (S (S (S (S (S
                            (S (S (S (S (S (S (S (S (S (S (S (S (S (S (S (S
                            (S (S (S (S (S (S (S (S (S (S (S (S (S (S (S (S
                            (S (S (S (S (S (S (S (S (S (S (S (S (S (S (S (S
                            (S (S (S (S (S (S (S (S (S (S (S (S (S (S (S (S
                            (S (S (S (S (S (S (S (S (S (S (S (S (S (S (S (S
                            (S (S (S (S (S (S (S (S (S (S
                            O)))))))))))))))))))))))))))))))))))))))))))))))))))))))))))))))))))))))))))))))))))))))))))))))))))))))))))))))))))))))))))
                          (t (S (S (S (S (S (S (S (S (S (S (S (S (S (S (S (S
                            (S (S (S (S (S (S (S (S (S (S (S (S (S (S (S (S
                            (S (S (S (S (S (S (S (S (S (S (S (S (S (S (S (S
                            (S (S (S (S (S (S (S (S (S (S (S (S (S (S (S (S
                            (S (S (S (S (S (S (S (S (S (S (S (S (S (S (S (S
                            (S (S (S (S (S (S (S (S (S (S (S (S (S (S (S (S
                            (S (S (S (S (S (S (S (S (S (S (S (S (S (S (S (S
                            (S (S (S (S (S (S (S (S (S (S (S
                            O)))))))))))))))))))))))))))))))))))))))))))))))))))))))))))))))))))))))))))))))))))))))))))))))))))))))))))))))))))))))))))))
                        (app
                          (sliding_buffer_entry copy
                            (t (S (S (S (S (S (S (S (S (S (S (S (S (S (S (S
                              (S (S (S (S (S (S (S (S (S (S (S (S (S (S (S (S
                              (S (S (S (S (S (S (S (S (S (S (S (S (S (S (S (S
                              (S (S (S (S (S (S (S (S (S (S (S (S (S (S (S (S
                              (S (S (S (S (S (S (S (S (S (S (S (S (S (S (S (S
                              (S (S (S (S (S (S (S (S (S (S (S (S (S (S (S (S
                              (S (S (S (S (S (S (S (S (S (S (S (S (S (S (S (S
                              (S (S (S (S (S (S (S (S (S (S
                              O))))))))))))))))))))))))))))))))))))))))))))))))))))))))))))))))))))))))))))))))))))))))))))))))))))))))))))))))))))))))))
                            (t (S (S (S (S (S (S (S (S (S (S (S (S (S (S (S
                              (S (S (S (S (S (S (S (S (S (S (S (S (S (S (S (S
                              (S (S (S (S (S (S (S (S (S (S (S (S (S (S (S (S
                              (S (S (S (S (S (S (S (S (S (S (S (S (S (S (S (S
                              (S (S (S (S (S (S (S (S (S (S (S (S (S (S (S (S
                              (S (S (S (S (S (S (S (S (S (S (S (S (S (S (S (S
                              (S (S (S (S (S (S (S (S (S (S (S (S (S (S (S (S
                              (S (S (S (S (S (S (S (S (S (S (S
                              O)))))))))))))))))))))))))))))))))))))))))))))))))))))))))))))))))))))))))))))))))))))))))))))))))))))))))))))))))))))))))))
                            (t (S (S (S (S (S (S (S (S (S (S (S (S (S (S (S
                              (S (S (S (S (S (S (S (S (S (S (S (S (S (S (S (S
                              (S (S (S (S (S (S (S (S (S (S (S (S (S (S (S (S
                              (S (S (S (S (S (S (S (S (S (S (S (S (S (S (S (S
                              (S (S (S (S (S (S (S (S (S (S (S (S (S (S (S (S
                              (S (S (S (S (S (S (S (S (S (S (S (S (S (S (S (S
                              (S (S (S (S (S (S (S (S (S (S (S (S (S (S (S (S
                              (S (S (S (S (S (S (S (S (S (S (S (S
                              O))))))))))))))))))))))))))))))))))))))))))))))))))))))))))))))))))))))))))))))))))))))))))))))))))))))))))))))))))))))))))))
                            (match ev with
                             | Some _ ->
                               Some
                                 (t (S (S (S (S (S (S (S (S (S (S (S (S (S (S
                                   (S (S (S (S (S (S (S (S (S (S (S (S (S (S
                                   (S (S (S (S (S (S (S (S (S (S (S (S (S (S
                                   (S (S (S (S (S (S (S (S (S (S (S (S (S (S
                                   (S (S (S (S (S (S (S (S (S (S (S (S (S (S
                                   (S (S (S (S (S (S (S (S (S (S (S (S (S (S
                                   (S (S (S (S (S (S (S (S (S (S (S (S (S (S
                                   (S (S (S (S (S (S (S (S (S (S (S (S (S (S
                                   (S (S (S (S (S (S (S (S (S (S (S (S
                                   O)))))))))))))))))))))))))))))))))))))))))))))))))))))))))))))))))))))))))))))))))))))))))))))))))))))))))))))))))))))))))))))
                             | None -> None))
                          (archive_add_single_core
                            (t (S (S (S (S (S (S (S (S (S (S (S (S (S (S (S
                              (S (S (S (S (S (S (S (S (S (S (S (S (S (S (S (S
                              (S (S (S (S (S (S (S (S (S (S (S (S (S (S (S (S
                              (S (S (S (S (S (S (S (S (S (S (S (S (S (S (S (S
                              (S (S (S (S (S (S (S (S (S (S (S (S (S (S (S (S
                              (S (S (S (S (S (S (S (S (S (S (S (S (S (S (S (S
                              (S (S (S (S (S (S (S (S (S (S (S (S (S (S (S (S
                              (S (S (S (S (S (S (S (S (S (S
                              O))))))))))))))))))))))))))))))))))))))))))))))))))))))))))))))))))))))))))))))))))))))))))))))))))))))))))))))))))))))))))
                            (t (S (S (S (S (S (S (S (S (S (S (S (S (S (S (S
                              (S (S (S (S (S (S (S (S (S (S (S (S (S (S (S (S
                              (S (S (S (S (S (S (S (S (S (S (S (S (S (S (S (S
                              (S (S (S (S (S (S (S (S (S (S (S (S (S (S (S (S
                              (S (S (S (S (S (S (S (S (S (S (S (S (S (S (S (S
                              (S (S (S (S (S (S (S (S (S (S (S (S (S (S (S (S
                              (S (S (S (S (S (S (S (S (S (S (S (S (S (S (S (S
                              (S (S (S (S (S (S (S (S (S (S (S
                              O)))))))))))))))))))))))))))))))))))))))))))))))))))))))))))))))))))))))))))))))))))))))))))))))))))))))))))))))))))))))))))
                            (t (S (S (S (S (S (S (S (S (S (S (S (S (S (S (S
                              (S (S (S (S (S (S (S (S (S (S (S (S (S (S (S (S
                              (S (S (S (S (S (S (S (S (S (S (S (S (S (S (S (S
                              (S (S (S (S (S (S (S (S (S (S (S (S (S (S (S (S
                              (S (S (S (S (S (S (S (S (S (S (S (S (S (S (S (S
                              (S (S (S (S (S (S (S (S (S (S (S (S (S (S (S (S
                              (S (S (S (S (S (S (S (S (S (S (S (S (S (S (S (S
                              (S (S (S (S (S (S (S (S (S (S (S (S
                              O))))))))))))))))))))))))))))))))))))))))))))))))))))))))))))))))))))))))))))))))))))))))))))))))))))))))))))))))))))))))))))
                            (match ev with
                             | Some _ ->
                               Some
                                 (t (S (S (S (S (S (S (S (S (S (S (S (S (S (S
                                   (S (S (S (S (S (S (S (S (S (S (S (S (S (S
                                   (S (S (S (S (S (S (S (S (S (S (S (S (S (S
                                   (S (S (S (S (S (S (S (S (S (S (S (S (S (S
                                   (S (S (S (S (S (S (S (S (S (S (S (S (S (S
                                   (S (S (S (S (S (S (S (S (S (S (S (S (S (S
                                   (S (S (S (S (S (S (S (S (S (S (S (S (S (S
                                   (S (S (S (S (S (S (S (S (S (S (S (S (S (S
                                   (S (S (S (S (S (S (S (S (S (S (S (S
                                   O)))))))))))))))))))))))))))))))))))))))))))))))))))))))))))))))))))))))))))))))))))))))))))))))))))))))))))))))))))))))))))))
                             | None -> None) true))))
                | S _ ->
                  archive_add_core sol obj meas ev (S (S (S (S (S (S (S (S (S
                    (S (S (S (S (S (S (S O)))))))))))))))) true)))

(** val sched_emitter_slices : var -> var -> var option -> instr list **)

let sched_emitter_slices obj meas ev =
  app ((IGetSelf
    ((t (S (S (S (S (S (S (S (S (S (S (S (S (S (S (S (S (S (S (S (S (S (S (S
       (S (S (S (S (S (S (S (S (S (S (S (S (S (S (S (S (S (S (S (S (S (S (S
       (S (S (S (S (S (S (S (S (S (S (S (S (S (S (S (S (S (S (S (S (S (S (S
       (S (S (S (S (S (S (S (S (S (S (S (S (S (S (S (S (S (S (S (S (S (S (S
       (S (S (S (S (S (S (S (S (S (S (S (S (S (S (S (S (S (S (S (S (S (S (S
       (S (S (S (S (S (S (S (S (S (S (S (S (S (S (S
       O))))))))))))))))))))))))))))))))))))))))))))))))))))))))))))))))))))))))))))))))))))))))))))))))))))))))))))))))))))))))))))))))))),
    f_i4)) :: ((IView
    ((t (S (S (S (S (S (S (S (S (S (S (S (S (S (S (S (S (S (S (S (S (S (S (S
       (S (S (S (S (S (S (S (S (S (S (S (S (S (S (S (S (S (S (S (S (S (S (S
       (S (S (S (S (S (S (S (S (S (S (S (S (S (S (S (S (S (S (S (S (S (S (S
       (S (S (S (S (S (S (S (S (S (S (S (S (S (S (S (S (S (S (S (S (S (S (S
       (S (S (S (S (S (S (S (S (S (S (S (S (S (S (S (S (S (S (S (S (S (S (S
       (S (S (S (S (S (S (S (S (S (S (S (S (S (S (S
       O))))))))))))))))))))))))))))))))))))))))))))))))))))))))))))))))))))))))))))))))))))))))))))))))))))))))))))))))))))))))))))))))))),
    (t (S (S (S (S (S (S (S (S (S (S (S (S (S (S (S (S (S (S (S (S (S (S (S
      (S (S (S (S (S (S (S (S (S (S (S (S (S (S (S (S (S (S (S (S (S (S (S (S
      (S (S (S (S (S (S (S (S (S (S (S (S (S (S (S (S (S (S (S (S (S (S (S (S
      (S (S (S (S (S (S (S (S (S (S (S (S (S (S (S (S (S (S (S (S (S (S (S (S
      (S (S (S (S (S (S (S (S (S (S (S (S (S (S (S (S (S (S (S (S (S (S (S (S
      (S (S (S (S (S (S (S (S (S (S (S
      O))))))))))))))))))))))))))))))))))))))))))))))))))))))))))))))))))))))))))))))))))))))))))))))))))))))))))))))))))))))))))))))))))),
    true)) :: ((IView
    ((t (S (S (S (S (S (S (S (S (S (S (S (S (S (S (S (S (S (S (S (S (S (S (S
       (S (S (S (S (S (S (S (S (S (S (S (S (S (S (S (S (S (S (S (S (S (S (S
       (S (S (S (S (S (S (S (S (S (S (S (S (S (S (S (S (S (S (S (S (S (S (S
       (S (S (S (S (S (S (S (S (S (S (S (S (S (S (S (S (S (S (S (S (S (S (S
       (S (S (S (S (S (S (S (S (S (S (S (S (S (S (S (S (S (S (S (S (S (S (S
       (S (S (S (S (S (S (S (S (S (S (S (S (S (S (S (S
       O)))))))))))))))))))))))))))))))))))))))))))))))))))))))))))))))))))))))))))))))))))))))))))))))))))))))))))))))))))))))))))))))))))),
    obj, true)) :: ((IView
    ((t (S (S (S (S (S (S (S (S (S (S (S (S (S (S (S (S (S (S (S (S (S (S (S
       (S (S (S (S (S (S (S (S (S (S (S (S (S (S (S (S (S (S (S (S (S (S (S
       (S (S (S (S (S (S (S (S (S (S (S (S (S (S (S (S (S (S (S (S (S (S (S
       (S (S (S (S (S (S (S (S (S (S (S (S (S (S (S (S (S (S (S (S (S (S (S
       (S (S (S (S (S (S (S (S (S (S (S (S (S (S (S (S (S (S (S (S (S (S (S
       (S (S (S (S (S (S (S (S (S (S (S (S (S (S (S (S (S
       O))))))))))))))))))))))))))))))))))))))))))))))))))))))))))))))))))))))))))))))))))))))))))))))))))))))))))))))))))))))))))))))))))))),
    meas, true)) :: []))))
    (app
      (match ev with
       | Some e ->
         (IView
           ((t (S (S (S (S (S (S (S (S (S (S (S (S (S (S (S (S (S (S (S (S (S
              (S (S (S (S (S (S (S (S (S (S (S (S (S (S (S (S (S (S (S (S (S
              (S (S (S (S (S (S (S (S (S (S (S (S (S (S (S (S (S (S (S (S (S
              (S (S (S (S (S (S (S (S (S (S (S (S (S (S (S (S (S (S (S (S (S
              (S (S (S (S (S (S (S (S (S (S (S (S (S (S (S (S (S (S (S (S (S
              (S (S (S (S (S (S (S (S (S (S (S (S (S (S (S (S (S (S (S (S (S
              (S (S (S (S (S (S (S
              O)))))))))))))))))))))))))))))))))))))))))))))))))))))))))))))))))))))))))))))))))))))))))))))))))))))))))))))))))))))))))))))))))))))),
           e, true)) :: []
       | None -> []) ((IOp
      ((t (S (S (S (S (S (S (S (S (S (S (S (S (S (S (S (S (S (S (S (S (S (S
         (S (S (S (S (S (S (S (S (S (S (S (S (S (S (S (S (S (S (S (S (S (S (S
         (S (S (S (S (S (S (S (S (S (S (S (S (S (S (S (S (S (S (S (S (S (S (S
         (S (S (S (S (S (S (S (S (S (S (S (S (S (S (S (S (S (S (S (S (S (S (S
         (S (S (S (S (S (S (S (S (S (S (S (S (S (S (S (S (S (S (S (S (S (S (S
         (S (S (S (S (S (S (S (S (S (S (S (S (S (S (S (S (S (S (S (S
         O))))))))))))))))))))))))))))))))))))))))))))))))))))))))))))))))))))))))))))))))))))))))))))))))))))))))))))))))))))))))))))))))))))))),
      [], (S (S (S (S (S (S O)))))))) :: ((IView
      ((t (S (S (S (S (S (S (S (S (S (S (S (S (S (S (S (S (S (S (S (S (S (S
         (S (S (S (S (S (S (S (S (S (S (S (S (S (S (S (S (S (S (S (S (S (S (S
         (S (S (S (S (S (S (S (S (S (S (S (S (S (S (S (S (S (S (S (S (S (S (S
         (S (S (S (S (S (S (S (S (S (S (S (S (S (S (S (S (S (S (S (S (S (S (S
         (S (S (S (S (S (S (S (S (S (S (S (S (S (S (S (S (S (S (S (S (S (S (S
         (S (S (S (S (S (S (S (S (S (S (S (S (S (S (S (S (S (S (S (S
         O))))))))))))))))))))))))))))))))))))))))))))))))))))))))))))))))))))))))))))))))))))))))))))))))))))))))))))))))))))))))))))))))))))))),
      (t (S (S (S (S (S (S (S (S (S (S (S (S (S (S (S (S (S (S (S (S (S (S (S
        (S (S (S (S (S (S (S (S (S (S (S (S (S (S (S (S (S (S (S (S (S (S (S
        (S (S (S (S (S (S (S (S (S (S (S (S (S (S (S (S (S (S (S (S (S (S (S
        (S (S (S (S (S (S (S (S (S (S (S (S (S (S (S (S (S (S (S (S (S (S (S
        (S (S (S (S (S (S (S (S (S (S (S (S (S (S (S (S (S (S (S (S (S (S (S
        (S (S (S (S (S (S (S (S (S (S (S (S (S (S (S (S (S (S (S
        O))))))))))))))))))))))))))))))))))))))))))))))))))))))))))))))))))))))))))))))))))))))))))))))))))))))))))))))))))))))))))))))))))))))),
      true)) :: ((IOp
      ((t (S (S (S (S (S (S (S (S (S (S (S (S (S (S (S (S (S (S (S (S (S (S
         (S (S (S (S (S (S (S (S (S (S (S (S (S (S (S (S (S (S (S (S (S (S (S
         (S (S (S (S (S (S (S (S (S (S (S (S (S (S (S (S (S (S (S (S (S (S (S
         (S (S (S (S (S (S (S (S (S (S (S (S (S (S (S (S (S (S (S (S (S (S (S
         (S (S (S (S (S (S (S (S (S (S (S (S (S (S (S (S (S (S (S (S (S (S (S
         (S (S (S (S (S (S (S (S (S (S (S (S (S (S (S (S (S (S (S (S (S
         O)))))))))))))))))))))))))))))))))))))))))))))))))))))))))))))))))))))))))))))))))))))))))))))))))))))))))))))))))))))))))))))))))))))))),
      [], (S (S (S (S (S (S (S (S (S O))))))))))) :: ((IView
      ((t (S (S (S (S (S (S (S (S (S (S (S (S (S (S (S (S (S (S (S (S (S (S
         (S (S (S (S (S (S (S (S (S (S (S (S (S (S (S (S (S (S (S (S (S (S (S
         (S (S (S (S (S (S (S (S (S (S (S (S (S (S (S (S (S (S (S (S (S (S (S
         (S (S (S (S (S (S (S (S (S (S (S (S (S (S (S (S (S (S (S (S (S (S (S
         (S (S (S (S (S (S (S (S (S (S (S (S (S (S (S (S (S (S (S (S (S (S (S
         (S (S (S (S (S (S (S (S (S (S (S (S (S (S (S (S (S (S (S (S (S
         O)))))))))))))))))))))))))))))))))))))))))))))))))))))))))))))))))))))))))))))))))))))))))))))))))))))))))))))))))))))))))))))))))))))))),
      (t (S (S (S (S (S (S (S (S (S (S (S (S (S (S (S (S (S (S (S (S (S (S (S
        (S (S (S (S (S (S (S (S (S (S (S (S (S (S (S (S (S (S (S (S (S (S (S
        (S (S (S (S (S (S (S (S (S (S (S (S (S (S (S (S (S (S (S (S (S (S (S
        (S (S (S (S (S (S (S (S (S (S (S (S (S (S (S (S (S (S (S (S (S (S (S
        (S (S (S (S (S (S (S (S (S (S (S (S (S (S (S (S (S (S (S (S (S (S (S
        (S (S (S (S (S (S (S (S (S (S (S (S (S (S (S (S (S (S (S (S
        O)))))))))))))))))))))))))))))))))))))))))))))))))))))))))))))))))))))))))))))))))))))))))))))))))))))))))))))))))))))))))))))))))))))))),
      true)) :: [])))))

(** val prog_gen : bool -> ep -> nat -> nat -> instr list **)

let prog_gen copy e variant nargs =
  let he = has_extra_arg e nargs in
  (match e with
   | StoreAdd ->
     app
       (if Nat.eqb variant (S O)
        then flat_map (fun _ ->
               app
                 (store_retrieve O (S (S (S (S (S (S (S (S (S (S O))))))))))
                   false) ((IExpose O) :: ((IExpose (S O)) :: ((IExpose (S (S
                 O))) :: ((IExpose (S (S (S O)))) :: ((IExpose
                 (t (S (S (S (S (S (S (S (S (S (S (S O))))))))))))) :: ((IExpose
                 (t
                   (add (S (S (S (S (S (S (S (S (S (S (S (S O))))))))))))
                     f_solution))) :: ((IExpose
                 (t
                   (add (S (S (S (S (S (S (S (S (S (S (S (S O))))))))))))
                     f_objective))) :: ((IExpose
                 (t
                   (add (S (S (S (S (S (S (S (S (S (S (S (S O))))))))))))
                     f_measures))) :: ((IExpose
                 (t (S (S (S (S (S (S (S (S (S (S (S (S (S (S (S (S (S
                   O))))))))))))))))))) :: [])))))))))) (O :: ((S O) :: []))
        else [])
       (store_write O ((f_objective, (S O)) :: ((f_measures, (S (S
         O))) :: ((f_solution, (S (S (S O)))) :: []))))
   | StoreRetrieve ->
     app (store_retrieve O (S (S (S (S (S (S (S (S (S (S O)))))))))) false)
       (app ((IReturn
         (t (S (S (S (S (S (S (S (S (S (S (S O))))))))))))) :: [])
         (match variant with
          | O ->
            (IReturn
              (t
                (add (S (S (S (S (S (S (S (S (S (S (S (S O))))))))))))
                  f_solution))) :: ((IReturn
              (t
                (add (S (S (S (S (S (S (S (S (S (S (S (S O))))))))))))
                  f_objective))) :: ((IReturn
              (t
                (add (S (S (S (S (S (S (S (S (S (S (S (S O))))))))))))
                  f_measures))) :: ((IReturn
              (t (S (S (S (S (S (S (S (S (S (S (S (S (S (S (S (S (S
                O))))))))))))))))))) :: [])))
          | S n ->
            (match n with
             | O ->
               (IReturn
                 (t
                   (add (S (S (S (S (S (S (S (S (S (S (S (S O))))))))))))
                     f_solution))) :: ((IReturn
                 (t
                   (add (S (S (S (S (S (S (S (S (S (S (S (S O))))))))))))
                     f_objective))) :: ((IReturn
                 (t
                   (add (S (S (S (S (S (S (S (S (S (S (S (S O))))))))))))
                     f_measures))) :: ((IReturn
                 (t (S (S (S (S (S (S (S (S (S (S (S (S (S (S (S (S (S
                   O))))))))))))))))))) :: [])))
             | S n0 ->
               (match n0 with
                | O ->
                  (IView
                    ((t (S (S (S (S (S (S (S (S (S (S (S (S (S (S (S (S (S (S
                       (S (S (S (S (S (S (S (S (S (S (S (S
                       O))))))))))))))))))))))))))))))),
                    (t
                      (add (S (S (S (S (S (S (S (S (S (S (S (S O))))))))))))
                        f_solution)), false)) :: ((IView
                    ((t (S (S (S (S (S (S (S (S (S (S (S (S (S (S (S (S (S (S
                       (S (S (S (S (S (S (S (S (S (S (S (S (S
                       O)))))))))))))))))))))))))))))))),
                    (t
                      (add (S (S (S (S (S (S (S (S (S (S (S (S O))))))))))))
                        f_measures)), false)) :: ((IReturn
                    (t (S (S (S (S (S (S (S (S (S (S (S (S (S (S (S (S (S (S
                      (S (S (S (S (S (S (S (S (S (S (S (S
                      O)))))))))))))))))))))))))))))))) :: ((IReturn
                    (t (S (S (S (S (S (S (S (S (S (S (S (S (S (S (S (S (S (S
                      (S (S (S (S (S (S (S (S (S (S (S (S (S
                      O))))))))))))))))))))))))))))))))) :: ((IReturn
                    (t
                      (add (S (S (S (S (S (S (S (S (S (S (S (S O))))))))))))
                        f_objective))) :: ((IReturn
                    (t (S (S (S (S (S (S (S (S (S (S (S (S (S (S (S (S (S
                      O))))))))))))))))))) :: [])))))
                | S n1 ->
                  (match n1 with
                   | O ->
                     (IReturn
                       (t
                         (add (S (S (S (S (S (S (S (S (S (S (S (S
                           O)))))))))))) f_solution))) :: []
                   | S _ ->
                     (IReturn
                       (t
                         (add (S (S (S (S (S (S (S (S (S (S (S (S
                           O)))))))))))) f_solution))) :: ((IReturn
                       (t
                         (add (S (S (S (S (S (S (S (S (S (S (S (S
                           O)))))))))))) f_objective))) :: ((IReturn
                       (t
                         (add (S (S (S (S (S (S (S (S (S (S (S (S
                           O)))))))))))) f_measures))) :: ((IReturn
                       (t (S (S (S (S (S (S (S (S (S (S (S (S (S (S (S (S (S
                         O))))))))))))))))))) :: []))))))))
   | StoreData ->
     app ((IGetSelf ((t (S O)), f_olist)) :: ((IView ((t (S O)), (t (S O)),
       true)) :: ((IReadonly ((t (S O)), (t (S O)))) :: [])))
       (app
         (store_retrieve (t (S O)) (S (S (S (S (S (S (S (S (S (S O))))))))))
           true)
         (match variant with
          | O ->
            (IReturn
              (t
                (add (S (S (S (S (S (S (S (S (S (S (S (S O))))))))))))
                  f_solution))) :: ((IReturn
              (t
                (add (S (S (S (S (S (S (S (S (S (S (S (S O))))))))))))
                  f_objective))) :: ((IReturn
              (t
                (add (S (S (S (S (S (S (S (S (S (S (S (S O))))))))))))
                  f_measures))) :: ((IReturn
              (t
                (add (S (S (S (S (S (S (S (S (S (S (S (S O))))))))))))
                  f_threshold))) :: ((IReturn
              (t
                (add (S (S (S (S (S (S (S (S (S (S (S (S O))))))))))))
                  f_extra))) :: ((IReturn
              (t (S (S (S (S (S (S (S (S (S (S (S (S (S (S (S (S (S
                O))))))))))))))))))) :: [])))))
          | S n ->
            (match n with
             | O ->
               (IReturn
                 (t
                   (add (S (S (S (S (S (S (S (S (S (S (S (S O))))))))))))
                     f_solution))) :: ((IReturn
                 (t
                   (add (S (S (S (S (S (S (S (S (S (S (S (S O))))))))))))
                     f_objective))) :: ((IReturn
                 (t
                   (add (S (S (S (S (S (S (S (S (S (S (S (S O))))))))))))
                     f_measures))) :: ((IReturn
                 (t
                   (add (S (S (S (S (S (S (S (S (S (S (S (S O))))))))))))
                     f_threshold))) :: ((IReturn
                 (t
                   (add (S (S (S (S (S (S (S (S (S (S (S (S O))))))))))))
                     f_extra))) :: ((IReturn
                 (t (S (S (S (S (S (S (S (S (S (S (S (S (S (S (S (S (S
                   O))))))))))))))))))) :: [])))))
             | S n0 ->
               (match n0 with
                | O ->
                  (IView
                    ((t (S (S (S (S (S (S (S (S (S (S (S (S (S (S (S (S (S (S
                       (S (S (S (S (S (S (S (S (S (S (S (S
                       O))))))))))))))))))))))))))))))),
                    (t
                      (add (S (S (S (S (S (S (S (S (S (S (S (S O))))))))))))
                        f_solution)), false)) :: ((IView
                    ((t (S (S (S (S (S (S (S (S (S (S (S (S (S (S (S (S (S (S
                       (S (S (S (S (S (S (S (S (S (S (S (S (S
                       O)))))))))))))))))))))))))))))))),
                    (t
                      (add (S (S (S (S (S (S (S (S (S (S (S (S O))))))))))))
                        f_measures)), false)) :: ((IReturn
                    (t (S (S (S (S (S (S (S (S (S (S (S (S (S (S (S (S (S (S
                      (S (S (S (S (S (S (S (S (S (S (S (S
                      O)))))))))))))))))))))))))))))))) :: ((IReturn
                    (t (S (S (S (S (S (S (S (S (S (S (S (S (S (S (S (S (S (S
                      (S (S (S (S (S (S (S (S (S (S (S (S (S
                      O))))))))))))))))))))))))))))))))) :: ((IReturn
                    (t
                      (add (S (S (S (S (S (S (S (S (S (S (S (S O))))))))))))
                        f_objective))) :: ((IReturn
                    (t (S (S (S (S (S (S (S (S (S (S (S (S (S (S (S (S (S
                      O))))))))))))))))))) :: ((ICopy
                    ((t (S (S (S (S (S (S (S (S (S (S (S (S (S (S (S (S (S (S
                       (S (S (S (S (S (S (S (S (S (S (S (S (S (S
                       O))))))))))))))))))))))))))))))))),
                    (t (S (S (S (S (S (S (S (S (S (S (S (S (S (S (S (S (S (S
                      (S (S (S (S (S (S (S (S (S (S (S (S
                      O))))))))))))))))))))))))))))))))) :: ((IReturn
                    (t (S (S (S (S (S (S (S (S (S (S (S (S (S (S (S (S (S (S
                      (S (S (S (S (S (S (S (S (S (S (S (S (S (S
                      O)))))))))))))))))))))))))))))))))) :: [])))))))
                | S n1 ->
                  (match n1 with
                   | O ->
                     (IReturn
                       (t
                         (add (S (S (S (S (S (S (S (S (S (S (S (S
                           O)))))))))))) f_solution))) :: []
                   | S _ ->
                     (IReturn
                       (t
                         (add (S (S (S (S (S (S (S (S (S (S (S (S
                           O)))))))))))) f_solution))) :: ((IReturn
                       (t
                         (add (S (S (S (S (S (S (S (S (S (S (S (S
                           O)))))))))))) f_objective))) :: ((IReturn
                       (t
                         (add (S (S (S (S (S (S (S (S (S (S (S (S
                           O)))))))))))) f_measures))) :: ((IReturn
                       (t
                         (add (S (S (S (S (S (S (S (S (S (S (S (S
                           O)))))))))))) f_threshold))) :: ((IReturn
                       (t
                         (add (S (S (S (S (S (S (S (S (S (S (S (S
                           O)))))))))))) f_extra))) :: ((IReturn
                       (t (S (S (S (S (S (S (S (S (S (S (S (S (S (S (S (S (S
                         O))))))))))))))))))) :: []))))))))))
   | StoreIter ->
     app ((IGetSelf ((t (S O)), f_olist)) :: ((ICopy ((t (S (S O))),
       (t (S O)))) :: ((IGetSelf ((t (S (S (S O)))),
       f_solution)) :: ((IGetSelf ((t (S (S (S (S O))))),
       f_objective)) :: ((IGetSelf ((t (S (S (S (S (S O)))))),
       f_measures)) :: ((IGetSelf ((t (S (S (S (S (S (S O))))))),
       f_extra)) :: []))))))
       (app
         (if copy
          then (ICopy ((t (S (S (S O)))), (t (S (S (S O)))))) :: ((ICopy
                 ((t (S (S (S (S (S O)))))),
                 (t (S (S (S (S (S O)))))))) :: ((ICopy
                 ((t (S (S (S (S (S (S O))))))),
                 (t (S (S (S (S (S (S O))))))))) :: []))
          else (IView ((t (S (S (S O)))), (t (S (S (S O)))),
                 true)) :: ((IView ((t (S (S (S (S (S O)))))),
                 (t (S (S (S (S (S O)))))), true)) :: ((IView
                 ((t (S (S (S (S (S (S O))))))),
                 (t (S (S (S (S (S (S O))))))), true)) :: []))) ((ICopy
         ((t (S (S (S (S O))))), (t (S (S (S (S O))))))) :: ((IReturn
         (t (S (S O)))) :: ((IReturn (t (S (S (S O))))) :: ((IReturn
         (t (S (S (S (S O)))))) :: ((IReturn
         (t (S (S (S (S (S O))))))) :: ((IReturn
         (t (S (S (S (S (S (S O)))))))) :: [])))))))
   | StoreRaw ->
     flat_map (fun fl -> (IGetSelf ((t fl), fl)) :: ((IView ((t fl), 
       (t fl), true)) :: ((IReadonly ((t fl), (t fl))) :: ((IReturn
       (t fl)) :: []))))
       (f_solution :: (f_objective :: (f_measures :: (f_occupied :: (f_olist :: [])))))
   | StoreOccupied ->
     (IGetSelf ((t (S O)), f_occupied)) :: ((IView ((t (S O)), (t (S O)),
       true)) :: ((IReadonly ((t (S O)), (t (S O)))) :: ((IReturn
       (t (S O))) :: ((IGetSelf ((t (S (S O))), f_olist)) :: ((IView
       ((t (S (S O))), (t (S (S O))), true)) :: ((IReadonly ((t (S (S O))),
       (t (S (S O))))) :: ((IReturn (t (S (S O)))) :: [])))))))
   | StoreFromRaw ->
     app
       (if copy
        then (ICopy ((t (S O)), O)) :: ((ICopy ((t (S (S O))), (S O))) :: [])
        else (IMove ((t (S O)), O)) :: ((IMove ((t (S (S O))), (S O))) :: []))
       ((ISetSelf (f_new0, (t (S O)))) :: ((ISetSelf (f_new1,
       (t (S (S O))))) :: []))
   | ArchiveAdd ->
     app
       (validate_batch
         (app (O :: ((S O) :: ((S (S O)) :: [])))
           (if he then (S (S (S O))) :: [] else [])))
       (archive_add_core O (S O) (S (S O)) (opt_ev e nargs (S (S (S O)))) (S
         (S (S (S (S (S (S (S (S (S (S (S (S (S (S (S O))))))))))))))))
         (Nat.eqb variant O))
   | ArchiveAddSingle ->
     app (validate_single O (S O) (S (S O)))
       (archive_add_single_core O (S O) (S (S O))
         (opt_ev e nargs (S (S (S O)))) (Nat.eqb variant O))
   | SlidingAdd ->
     app
       (validate_batch
         (app (O :: ((S O) :: ((S (S O)) :: [])))
           (if he then (S (S (S O))) :: [] else [])))
       (app ((IView
         ((t (S (S (S (S (S (S (S (S (S (S (S (S (S (S (S (S (S (S (S (S (S
            (S (S (S (S (S (S (S (S (S (S (S (S (S (S (S (S (S (S (S (S (S (S
            (S (S (S (S (S (S (S (S (S (S (S (S (S (S (S (S (S (S (S (S (S (S
            (S (S (S (S (S (S (S (S (S (S (S (S (S (S (S (S (S (S (S (S (S (S
            (S (S (S (S (S (S (S (S (S (S (S (S (S (S (S (S (S (S (S (S (S (S
            (S (S (S (S (S (S (S (S (S (S (S (S
            O)))))))))))))))))))))))))))))))))))))))))))))))))))))))))))))))))))))))))))))))))))))))))))))))))))))))))))))))))))))))))),
         O, true)) :: ((ICopy
         ((t (S (S (S (S (S (S (S (S (S (S (S (S (S (S (S (S (S (S (S (S (S
            (S (S (S (S (S (S (S (S (S (S (S (S (S (S (S (S (S (S (S (S (S (S
            (S (S (S (S (S (S (S (S (S (S (S (S (S (S (S (S (S (S (S (S (S (S
            (S (S (S (S (S (S (S (S (S (S (S (S (S (S (S (S (S (S (S (S (S (S
            (S (S (S (S (S (S (S (S (S (S (S (S (S (S (S (S (S (S (S (S (S (S
            (S (S (S (S (S (S (S (S (S (S (S (S (S
            O))))))))))))))))))))))))))))))))))))))))))))))))))))))))))))))))))))))))))))))))))))))))))))))))))))))))))))))))))))))))))),
         (S O))) :: ((IView
         ((t (S (S (S (S (S (S (S (S (S (S (S (S (S (S (S (S (S (S (S (S (S
            (S (S (S (S (S (S (S (S (S (S (S (S (S (S (S (S (S (S (S (S (S (S
            (S (S (S (S (S (S (S (S (S (S (S (S (S (S (S (S (S (S (S (S (S (S
            (S (S (S (S (S (S (S (S (S (S (S (S (S (S (S (S (S (S (S (S (S (S
            (S (S (S (S (S (S (S (S (S (S (S (S (S (S (S (S (S (S (S (S (S (S
            (S (S (S (S (S (S (S (S (S (S (S (S (S (S
            O)))))))))))))))))))))))))))))))))))))))))))))))))))))))))))))))))))))))))))))))))))))))))))))))))))))))))))))))))))))))))))),
         (S (S O)), true)) :: [])))
         (app
           (if he
            then (IView
                   ((t (S (S (S (S (S (S (S (S (S (S (S (S (S (S (S (S (S (S
                      (S (S (S (S (S (S (S (S (S (S (S (S (S (S (S (S (S (S
                      (S (S (S (S (S (S (S (S (S (S (S (S (S (S (S (S (S (S
                      (S (S (S (S (S (S (S (S (S (S (S (S (S (S (S (S (S (S
                      (S (S (S (S (S (S (S (S (S (S (S (S (S (S (S (S (S (S
                      (S (S (S (S (S (S (S (S (S (S (S (S (S (S (S (S (S (S
                      (S (S (S (S (S (S (S (S (S (S (S (S (S (S (S (S
                      O))))))))))))))))))))))))))))))))))))))))))))))))))))))))))))))))))))))))))))))))))))))))))))))))))))))))))))))))))))))))))))),
                   (S (S (S O))), true)) :: []
            else [])
           (app
             (validate_single
               (t (S (S (S (S (S (S (S (S (S (S (S (S (S (S (S (S (S (S (S (S
                 (S (S (S (S (S (S (S (S (S (S (S (S (S (S (S (S (S (S (S (S
                 (S (S (S (S (S (S (S (S (S (S (S (S (S (S (S (S (S (S (S (S
                 (S (S (S (S (S (S (S (S (S (S (S (S (S (S (S (S (S (S (S (S
                 (S (S (S (S (S (S (S (S (S (S (S (S (S (S (S (S (S (S (S (S
                 (S (S (S (S (S (S (S (S (S (S (S (S (S (S (S (S (S (S (S (S
                 (S
                 O))))))))))))))))))))))))))))))))))))))))))))))))))))))))))))))))))))))))))))))))))))))))))))))))))))))))))))))))))))))))))
               (t (S (S (S (S (S (S (S (S (S (S (S (S (S (S (S (S (S (S (S (S
                 (S (S (S (S (S (S (S (S (S (S (S (S (S (S (S (S (S (S (S (S
                 (S (S (S (S (S (S (S (S (S (S (S (S (S (S (S (S (S (S (S (S
                 (S (S (S (S (S (S (S (S (S (S (S (S (S (S (S (S (S (S (S (S
                 (S (S (S (S (S (S (S (S (S (S (S (S (S (S (S (S (S (S (S (S
                 (S (S (S (S (S (S (S (S (S (S (S (S (S (S (S (S (S (S (S (S
                 (S (S
                 O)))))))))))))))))))))))))))))))))))))))))))))))))))))))))))))))))))))))))))))))))))))))))))))))))))))))))))))))))))))))))))
               (t (S (S (S (S (S (S (S (S (S (S (S (S (S (S (S (S (S (S (S (S
                 (S (S (S (S (S (S (S (S (S (S (S (S (S (S (S (S (S (S (S (S
                 (S (S (S (S (S (S (S (S (S (S (S (S (S (S (S (S (S (S (S (S
                 (S (S (S (S (S (S (S (S (S (S (S (S (S (S (S (S (S (S (S (S
                 (S (S (S (S (S (S (S (S (S (S (S (S (S (S (S (S (S (S (S (S
                 (S (S (S (S (S (S (S (S (S (S (S (S (S (S (S (S (S (S (S (S
                 (S (S (S
                 O)))))))))))))))))))))))))))))))))))))))))))))))))))))))))))))))))))))))))))))))))))))))))))))))))))))))))))))))))))))))))))))
             (app
               (sliding_buffer_entry copy
                 (t (S (S (S (S (S (S (S (S (S (S (S (S (S (S (S (S (S (S (S
                   (S (S (S (S (S (S (S (S (S (S (S (S (S (S (S (S (S (S (S
                   (S (S (S (S (S (S (S (S (S (S (S (S (S (S (S (S (S (S (S
                   (S (S (S (S (S (S (S (S (S (S (S (S (S (S (S (S (S (S (S
                   (S (S (S (S (S (S (S (S (S (S (S (S (S (S (S (S (S (S (S
                   (S (S (S (S (S (S (S (S (S (S (S (S (S (S (S (S (S (S (S
                   (S (S (S (S (S (S (S
                   O))))))))))))))))))))))))))))))))))))))))))))))))))))))))))))))))))))))))))))))))))))))))))))))))))))))))))))))))))))))))))
                 (t (S (S (S (S (S (S (S (S (S (S (S (S (S (S (S (S (S (S (S
                   (S (S (S (S (S (S (S (S (S (S (S (S (S (S (S (S (S (S (S
                   (S (S (S (S (S (S (S (S (S (S (S (S (S (S (S (S (S (S (S
                   (S (S (S (S (S (S (S (S (S (S (S (S (S (S (S (S (S (S (S
                   (S (S (S (S (S (S (S (S (S (S (S (S (S (S (S (S (S (S (S
                   (S (S (S (S (S (S (S (S (S (S (S (S (S (S (S (S (S (S (S
                   (S (S (S (S (S (S (S (S
                   O)))))))))))))))))))))))))))))))))))))))))))))))))))))))))))))))))))))))))))))))))))))))))))))))))))))))))))))))))))))))))))
                 (t (S (S (S (S (S (S (S (S (S (S (S (S (S (S (S (S (S (S (S
                   (S (S (S (S (S (S (S (S (S (S (S (S (S (S (S (S (S (S (S
                   (S (S (S (S (S (S (S (S (S (S (S (S (S (S (S (S (S (S (S
                   (S (S (S (S (S (S (S (S (S (S (S (S (S (S (S (S (S (S (S
                   (S (S (S (S (S (S (S (S (S (S (S (S (S (S (S (S (S (S (S
                   (S (S (S (S (S (S (S (S (S (S (S (S (S (S (S (S (S (S (S
                   (S (S (S (S (S (S (S (S (S
                   O))))))))))))))))))))))))))))))))))))))))))))))))))))))))))))))))))))))))))))))))))))))))))))))))))))))))))))))))))))))))))))
                 (if he
                  then Some
                         (t (S (S (S (S (S (S (S (S (S (S (S (S (S (S (S (S
                           (S (S (S (S (S (S (S (S (S (S (S (S (S (S (S (S (S
                           (S (S (S (S (S (S (S (S (S (S (S (S (S (S (S (S (S
                           (S (S (S (S (S (S (S (S (S (S (S (S (S (S (S (S (S
                           (S (S (S (S (S (S (S (S (S (S (S (S (S (S (S (S (S
                           (S (S (S (S (S (S (S (S (S (S (S (S (S (S (S (S (S
                           (S (S (S (S (S (S (S (S (S (S (S (S (S (S (S (S (S
                           (S (S (S (S (S (S
                           O)))))))))))))))))))))))))))))))))))))))))))))))))))))))))))))))))))))))))))))))))))))))))))))))))))))))))))))))))))))))))))))
                  else None))
               (app
                 (archive_add_single_core
                   (t (S (S (S (S (S (S (S (S (S (S (S (S (S (S (S (S (S (S
                     (S (S (S (S (S (S (S (S (S (S (S (S (S (S (S (S (S (S (S
                     (S (S (S (S (S (S (S (S (S (S (S (S (S (S (S (S (S (S (S
                     (S (S (S (S (S (S (S (S (S (S (S (S (S (S (S (S (S (S (S
                     (S (S (S (S (S (S (S (S (S (S (S (S (S (S (S (S (S (S (S
                     (S (S (S (S (S (S (S (S (S (S (S (S (S (S (S (S (S (S (S
                     (S (S (S (S (S (S (S (S
                     O))))))))))))))))))))))))))))))))))))))))))))))))))))))))))))))))))))))))))))))))))))))))))))))))))))))))))))))))))))))))))
                   (t (S (S (S (S (S (S (S (S (S (S (S (S (S (S (S (S (S (S
                     (S (S (S (S (S (S (S (S (S (S (S (S (S (S (S (S (S (S (S
                     (S (S (S (S (S (S (S (S (S (S (S (S (S (S (S (S (S (S (S
                     (S (S (S (S (S (S (S (S (S (S (S (S (S (S (S (S (S (S (S
                     (S (S (S (S (S (S (S (S (S (S (S (S (S (S (S (S (S (S (S
                     (S (S (S (S (S (S (S (S (S (S (S (S (S (S (S (S (S (S (S
                     (S (S (S (S (S (S (S (S (S
                     O)))))))))))))))))))))))))))))))))))))))))))))))))))))))))))))))))))))))))))))))))))))))))))))))))))))))))))))))))))))))))))
                   (t (S (S (S (S (S (S (S (S (S (S (S (S (S (S (S (S (S (S
                     (S (S (S (S (S (S (S (S (S (S (S (S (S (S (S (S (S (S (S
                     (S (S (S (S (S (S (S (S (S (S (S (S (S (S (S (S (S (S (S
                     (S (S (S (S (S (S (S (S (S (S (S (S (S (S (S (S (S (S (S
                     (S (S (S (S (S (S (S (S (S (S (S (S (S (S (S (S (S (S (S
                     (S (S (S (S (S (S (S (S (S (S (S (S (S (S (S (S (S (S (S
                     (S (S (S (S (S (S (S (S (S (S
                     O))))))))))))))))))))))))))))))))))))))))))))))))))))))))))))))))))))))))))))))))))))))))))))))))))))))))))))))))))))))))))))
                   (if he
                    then Some
                           (t (S (S (S (S (S (S (S (S (S (S (S (S (S (S (S (S
                             (S (S (S (S (S (S (S (S (S (S (S (S (S (S (S (S
                             (S (S (S (S (S (S (S (S (S (S (S (S (S (S (S (S
                             (S (S (S (S (S (S (S (S (S (S (S (S (S (S (S (S
                             (S (S (S (S (S (S (S (S (S (S (S (S (S (S (S (S
                             (S (S (S (S (S (S (S (S (S (S (S (S (S (S (S (S
                             (S (S (S (S (S (S (S (S (S (S (S (S (S (S (S (S
                             (S (S (S (S (S (S (S (S (S (S (S (S
                             O)))))))))))))))))))))))))))))))))))))))))))))))))))))))))))))))))))))))))))))))))))))))))))))))))))))))))))))))))))))))))))))
                    else None) true) ((IOp
                 ((t (S (S (S (S (S (S (S (S (S (S (S (S (S (S (S (S (S (S (S
                    (S (S (S (S (S (S (S (S (S (S (S (S (S (S (S (S (S (S (S
                    (S (S (S (S (S (S (S (S (S (S (S (S (S (S (S (S (S (S (S
                    (S (S (S (S (S (S (S (S (S (S (S (S (S (S (S (S (S (S (S
                    (S (S (S (S (S (S (S (S (S (S (S (S (S (S (S (S (S (S (S
                    (S (S (S (S (S (S (S (S (S (S (S (S (S (S (S (S (S (S (S
                    (S (S (S (S (S (S (S (S (S (S (S (S (S (S (S (S (S (S (S
                    (S (S (S (S (S (S (S (S (S (S (S (S (S (S (S (S (S
                    O))))))))))))))))))))))))))))))))))))))))))))))))))))))))))))))))))))))))))))))))))))))))))))))))))))))))))))))))))))))))))))))))))))))))))))))))))))))),
                 ((t (S (S (S (S (S (S (S (S (S (S (S (S (S (S (S (S (S (S (S
                    (S (S (S (S (S (S (S (S (S (S (S (S (S (S (S (S (S (S (S
                    (S (S (S (S (S (S (S (S (S (S (S (S (S (S (S (S (S (S (S
                    (S (S (S (S (S (S (S (S (S (S (S (S (S (S (S (S (S (S (S
                    (S (S (S (S (S (S (S (S (S (S (S (S (S (S (S (S (S (S (S
                    (S (S (S (S (S (S (S (S (S (S (S (S (S (S (S
                    O))))))))))))))))))))))))))))))))))))))))))))))))))))))))))))))))))))))))))))))))))))))))))))))))))))))))))))))) :: []),
                 (S (S (S (S (S (S (S (S (S (S (S (S (S (S (S (S (S (S (S (S
                 (S (S (S (S (S (S (S (S (S (S (S (S (S (S (S (S (S (S (S (S
                 (S (S (S (S (S (S (S (S (S (S (S (S
                 O)))))))))))))))))))))))))))))))))))))))))))))))))))))) :: ((IOp
                 ((t (S (S (S (S (S (S (S (S (S (S (S (S (S (S (S (S (S (S (S
                    (S (S (S (S (S (S (S (S (S (S (S (S (S (S (S (S (S (S (S
                    (S (S (S (S (S (S (S (S (S (S (S (S (S (S (S (S (S (S (S
                    (S (S (S (S (S (S (S (S (S (S (S (S (S (S (S (S (S (S (S
                    (S (S (S (S (S (S (S (S (S (S (S (S (S (S (S (S (S (S (S
                    (S (S (S (S (S (S (S (S (S (S (S (S (S (S (S (S (S (S (S
                    (S (S (S (S (S (S (S (S (S (S (S (S (S (S (S (S (S (S (S
                    (S (S (S (S (S (S (S (S (S (S (S (S (S (S (S (S (S (S
                    O)))))))))))))))))))))))))))))))))))))))))))))))))))))))))))))))))))))))))))))))))))))))))))))))))))))))))))))))))))))))))))))))))))))))))))))))))))))))),
                 ((t (S (S (S (S (S (S (S (S (S (S (S (S (S (S (S (S (S (S (S
                    (S (S (S (S (S (S (S (S (S (S (S (S (S (S (S (S (S (S (S
                    (S (S (S (S (S (S (S (S (S (S (S (S (S (S (S (S (S (S (S
                    (S (S (S (S (S (S (S (S (S (S (S (S (S (S (S (S (S (S (S
                    (S (S (S (S (S (S (S (S (S (S (S (S (S (S (S (S (S (S (S
                    (S (S (S (S (S (S (S (S (S (S (S (S (S (S (S (S
                    O)))))))))))))))))))))))))))))))))))))))))))))))))))))))))))))))))))))))))))))))))))))))))))))))))))))))))))))))) :: []),
                 (S (S (S (S (S (S (S (S (S (S (S (S (S (S (S (S (S (S (S (S
                 (S (S (S (S (S (S (S (S (S (S (S (S (S (S (S (S (S (S (S (S
                 (S (S (S (S (S (S (S (S (S (S (S (S
                 O)))))))))))))))))))))))))))))))))))))))))))))))))))))) :: ((IReturn
                 (t (S (S (S (S (S (S (S (S (S (S (S (S (S (S (S (S (S (S (S
                   (S (S (S (S (S (S (S (S (S (S (S (S (S (S (S (S (S (S (S
                   (S (S (S (S (S (S (S (S (S (S (S (S (S (S (S (S (S (S (S
                   (S (S (S (S (S (S (S (S (S (S (S (S (S (S (S (S (S (S (S
                   (S (S (S (S (S (S (S (S (S (S (S (S (S (S (S (S (S (S (S
                   (S (S (S (S (S (S (S (S (S (S (S (S (S (S (S (S (S (S (S
                   (S (S (S (S (S (S (S (S (S (S (S (S (S (S (S (S (S (S (S
                   (S (S (S (S (S (S (S (S (S (S (S (S (S (S (S (S (S
                   O)))))))))))))))))))))))))))))))))))))))))))))))))))))))))))))))))))))))))))))))))))))))))))))))))))))))))))))))))))))))))))))))))))))))))))))))))))))))) :: ((IReturn
                 (t (S (S (S (S (S (S (S (S (S (S (S (S (S (S (S (S (S (S (S
                   (S (S (S (S (S (S (S (S (S (S (S (S (S (S (S (S (S (S (S
                   (S (S (S (S (S (S (S (S (S (S (S (S (S (S (S (S (S (S (S
                   (S (S (S (S (S (S (S (S (S (S (S (S (S (S (S (S (S (S (S
                   (S (S (S (S (S (S (S (S (S (S (S (S (S (S (S (S (S (S (S
                   (S (S (S (S (S (S (S (S (S (S (S (S (S (S (S (S (S (S (S
                   (S (S (S (S (S (S (S (S (S (S (S (S (S (S (S (S (S (S (S
                   (S (S (S (S (S (S (S (S (S (S (S (S (S (S (S (S (S (S
                   O))))))))))))))))))))))))))))))))))))))))))))))))))))))))))))))))))))))))))))))))))))))))))))))))))))))))))))))))))))))))))))))))))))))))))))))))))))))))) :: [])))))))))
   | SlidingAddSingle ->
     app (validate_single O (S O) (S (S O)))
       (app
         (sliding_buffer_entry copy O (S O) (S (S O))
           (opt_ev e nargs (S (S (S O)))))
         (app
           (if Nat.eqb variant (S O)
            then app ((IGetSelf
                   ((t (S (S (S (S (S (S (S (S (S (S (S (S (S (S (S (S (S (S
                      (S (S (S (S (S (S (S (S (S (S (S (S (S (S (S (S (S (S
                      (S (S (S (S (S (S (S (S (S (S (S (S (S (S (S (S (S (S
                      (S (S (S (S (S (S (S (S (S (S (S (S (S (S (S (S (S (S
                      (S (S (S (S (S (S (S (S (S (S (S (S (S (S (S (S (S (S
                      (S (S (S (S (S (S (S (S (S (S (S (S (S (S (S (S (S (S
                      (S (S (S (S (S (S (S (S (S (S (S (S (S (S (S (S (S (S
                      (S (S (S (S (S (S (S (S (S (S (S (S (S (S
                      O))))))))))))))))))))))))))))))))))))))))))))))))))))))))))))))))))))))))))))))))))))))))))))))))))))))))))))))))))))))))))))))))))))))))))))),
                   f_new0)) :: ((IGetSelf
                   ((t (S (S (S (S (S (S (S (S (S (S (S (S (S (S (S (S (S (S
                      (S (S (S (S (S (S (S (S (S (S (S (S (S (S (S (S (S (S
                      (S (S (S (S (S (S (S (S (S (S (S (S (S (S (S (S (S (S
                      (S (S (S (S (S (S (S (S (S (S (S (S (S (S (S (S (S (S
                      (S (S (S (S (S (S (S (S (S (S (S (S (S (S (S (S (S (S
                      (S (S (S (S (S (S (S (S (S (S (S (S (S (S (S (S (S (S
                      (S (S (S (S (S (S (S (S (S (S (S (S (S (S (S (S (S (S
                      (S (S (S (S (S (S (S (S (S (S (S (S (S (S (S
                      O)))))))))))))))))))))))))))))))))))))))))))))))))))))))))))))))))))))))))))))))))))))))))))))))))))))))))))))))))))))))))))))))))))))))))))))),
                   f_new1)) :: ((IGetSelf
                   ((t (S (S (S (S (S (S (S (S (S (S (S (S (S (S (S (S (S (S
                      (S (S (S (S (S (S (S (S (S (S (S (S (S (S (S (S (S (S
                      (S (S (S (S (S (S (S (S (S (S (S (S (S (S (S (S (S (S
                      (S (S (S (S (S (S (S (S (S (S (S (S (S (S (S (S (S (S
                      (S (S (S (S (S (S (S (S (S (S (S (S (S (S (S (S (S (S
                      (S (S (S (S (S (S (S (S (S (S (S (S (S (S (S (S (S (S
                      (S (S (S (S (S (S (S (S (S (S (S (S (S (S (S (S (S (S
                      (S (S (S (S (S (S (S (S (S (S (S (S (S (S (S (S
                      O))))))))))))))))))))))))))))))))))))))))))))))))))))))))))))))))))))))))))))))))))))))))))))))))))))))))))))))))))))))))))))))))))))))))))))))),
                   f_new2)) :: ((IOp
                   ((t (S (S (S (S (S (S (S (S (S (S (S (S (S (S (S (S (S (S
                      (S (S (S (S (S (S (S (S (S (S (S (S (S (S (S (S (S (S
                      (S (S (S (S (S (S (S (S (S (S (S (S (S (S (S (S (S (S
                      (S (S (S (S (S (S (S (S (S (S (S (S (S (S (S (S (S (S
                      (S (S (S (S (S (S (S (S (S (S (S (S (S (S (S (S (S (S
                      (S (S (S (S (S (S (S (S (S (S (S (S (S (S (S (S (S (S
                      (S (S (S (S (S (S (S (S (S (S (S (S (S (S (S (S (S (S
                      (S (S (S (S (S (S (S (S (S (S (S (S (S (S (S (S (S
                      O)))))))))))))))))))))))))))))))))))))))))))))))))))))))))))))))))))))))))))))))))))))))))))))))))))))))))))))))))))))))))))))))))))))))))))))))),
                   ((t (S (S (S (S (S (S (S (S (S (S (S (S (S (S (S (S (S (S
                      (S (S (S (S (S (S (S (S (S (S (S (S (S (S (S (S (S (S
                      (S (S (S (S (S (S (S (S (S (S (S (S (S (S (S (S (S (S
                      (S (S (S (S (S (S (S (S (S (S (S (S (S (S (S (S (S (S
                      (S (S (S (S (S (S (S (S (S (S (S (S (S (S (S (S (S (S
                      (S (S (S (S (S (S (S (S (S (S (S (S (S (S (S (S (S (S
                      (S (S (S (S (S (S (S (S (S (S (S (S (S (S (S (S (S (S
                      (S (S (S (S (S (S (S (S (S (S (S (S (S (S
                      O))))))))))))))))))))))))))))))))))))))))))))))))))))))))))))))))))))))))))))))))))))))))))))))))))))))))))))))))))))))))))))))))))))))))))))) :: []),
                   (S (S (S (S (S (S (S (S (S (S (S (S (S (S (S (S (S (S (S
                   (S (S (S (S (S (S (S (S (S (S (S (S (S (S (S (S (S (S (S
                   (S (S (S (S (S (S (S (S (S (S (S (S
                   O)))))))))))))))))))))))))))))))))))))))))))))))))))) :: ((IOp
                   ((t (S (S (S (S (S (S (S (S (S (S (S (S (S (S (S (S (S (S
                      (S (S (S (S (S (S (S (S (S (S (S (S (S (S (S (S (S (S
                      (S (S (S (S (S (S (S (S (S (S (S (S (S (S (S (S (S (S
                      (S (S (S (S (S (S (S (S (S (S (S (S (S (S (S (S (S (S
                      (S (S (S (S (S (S (S (S (S (S (S (S (S (S (S (S (S (S
                      (S (S (S (S (S (S (S (S (S (S (S (S (S (S (S (S (S (S
                      (S (S (S (S (S (S (S (S (S (S (S (S (S (S (S (S (S (S
                      (S (S (S (S (S (S (S (S (S (S (S (S (S (S (S (S (S (S
                      O))))))))))))))))))))))))))))))))))))))))))))))))))))))))))))))))))))))))))))))))))))))))))))))))))))))))))))))))))))))))))))))))))))))))))))))))),
                   ((t (S (S (S (S (S (S (S (S (S (S (S (S (S (S (S (S (S (S
                      (S (S (S (S (S (S (S (S (S (S (S (S (S (S (S (S (S (S
                      (S (S (S (S (S (S (S (S (S (S (S (S (S (S (S (S (S (S
                      (S (S (S (S (S (S (S (S (S (S (S (S (S (S (S (S (S (S
                      (S (S (S (S (S (S (S (S (S (S (S (S (S (S (S (S (S (S
                      (S (S (S (S (S (S (S (S (S (S (S (S (S (S (S (S (S (S
                      (S (S (S (S (S (S (S (S (S (S (S (S (S (S (S (S (S (S
                      (S (S (S (S (S (S (S (S (S (S (S (S (S (S (S
                      O)))))))))))))))))))))))))))))))))))))))))))))))))))))))))))))))))))))))))))))))))))))))))))))))))))))))))))))))))))))))))))))))))))))))))))))) :: []),
                   (S (S (S (S (S (S (S (S (S (S (S (S (S (S (S (S (S (S (S
                   (S (S (S (S (S (S (S (S (S (S (S (S (S (S (S (S (S (S (S
                   (S (S (S (S (S (S (S (S (S (S (S (S
                   O)))))))))))))))))))))))))))))))))))))))))))))))))))) :: ((IOp
                   ((t (S (S (S (S (S (S (S (S (S (S (S (S (S (S (S (S (S (S
                      (S (S (S (S (S (S (S (S (S (S (S (S (S (S (S (S (S (S
                      (S (S (S (S (S (S (S (S (S (S (S (S (S (S (S (S (S (S
                      (S (S (S (S (S (S (S (S (S (S (S (S (S (S (S (S (S (S
                      (S (S (S (S (S (S (S (S (S (S (S (S (S (S (S (S (S (S
                      (S (S (S (S (S (S (S (S (S (S (S (S (S (S (S (S (S (S
                      (S (S (S (S (S (S (S (S (S (S (S (S (S (S (S (S (S (S
                      (S (S (S (S (S (S (S (S (S (S (S (S (S (S (S (S (S (S
                      (S
                      O)))))))))))))))))))))))))))))))))))))))))))))))))))))))))))))))))))))))))))))))))))))))))))))))))))))))))))))))))))))))))))))))))))))))))))))))))),
                   ((t (S (S (S (S (S (S (S (S (S (S (S (S (S (S (S (S (S (S
                      (S (S (S (S (S (S (S (S (S (S (S (S (S (S (S (S (S (S
                      (S (S (S (S (S (S (S (S (S (S (S (S (S (S (S (S (S (S
                      (S (S (S (S (S (S (S (S (S (S (S (S (S (S (S (S (S (S
                      (S (S (S (S (S (S (S (S (S (S (S (S (S (S (S (S (S (S
                      (S (S (S (S (S (S (S (S (S (S (S (S (S (S (S (S (S (S
                      (S (S (S (S (S (S (S (S (S (S (S (S (S (S (S (S (S (S
                      (S (S (S (S (S (S (S (S (S (S (S (S (S (S (S (S
                      O))))))))))))))))))))))))))))))))))))))))))))))))))))))))))))))))))))))))))))))))))))))))))))))))))))))))))))))))))))))))))))))))))))))))))))))) :: []),
                   (S (S (S (S (S (S (S (S (S (S (S (S (S (S (S (S (S (S (S
                   (S (S (S (S (S (S (S (S (S (S (S (S (S (S (S (S (S (S (S
                   (S (S (S (S (S (S (S (S (S (S (S (S
                   O)))))))))))))))))))))))))))))))))))))))))))))))))))) :: ((IOp
                   ((t O),
                   ((t (S (S (S (S (S (S (S (S (S (S (S (S (S (S (S (S (S (S
                      (S (S (S (S (S (S (S (S (S (S (S (S (S (S (S (S (S (S
                      (S (S (S (S (S (S (S (S (S (S (S (S (S (S (S (S (S (S
                      (S (S (S (S (S (S (S (S (S (S (S (S (S (S (S (S (S (S
                      (S (S (S (S (S (S (S (S (S (S (S (S (S (S (S (S (S (S
                      (S (S (S (S (S (S (S (S (S (S (S (S (S (S (S (S (S (S
                      (S (S (S (S (S (S (S (S (S (S (S (S (S (S (S (S (S (S
                      (S (S (S (S (S (S (S (S (S (S (S (S (S (S (S (S (S (S
                      (S
                      O)))))))))))))))))))))))))))))))))))))))))))))))))))))))))))))))))))))))))))))))))))))))))))))))))))))))))))))))))))))))))))))))))))))))))))))))))) :: []),
                   (S (S (S (S (S (S (S (S (S (S (S (S (S (S (S (S
                   O)))))))))))))))))) :: ((IGetSelf
                   ((t (S (S (S (S (S (S (S (S (S (S (S (S (S (S (S (S (S (S
                      (S (S (S (S (S (S (S (S (S (S (S (S (S (S (S (S (S (S
                      (S (S (S (S (S (S (S (S (S (S (S (S (S (S (S (S (S (S
                      (S (S (S (S (S (S (S (S (S (S (S (S (S (S (S (S (S (S
                      (S (S (S (S (S (S (S (S (S (S (S (S (S (S (S (S (S (S
                      (S (S (S (S (S (S (S (S (S (S (S (S (S (S (S (S (S (S
                      (S (S (S (S (S (S (S (S (S (S (S (S (S (S (S (S (S (S
                      (S (S (S (S (S (S (S (S (S (S (S (S (S (S (S (S (S (S
                      (S (S
                      O))))))))))))))))))))))))))))))))))))))))))))))))))))))))))))))))))))))))))))))))))))))))))))))))))))))))))))))))))))))))))))))))))))))))))))))))))),
                   f_occupied)) :: ((IInplace
                   ((t (S (S (S (S (S (S (S (S (S (S (S (S (S (S (S (S (S (S
                      (S (S (S (S (S (S (S (S (S (S (S (S (S (S (S (S (S (S
                      (S (S (S (S (S (S (S (S (S (S (S (S (S (S (S (S (S (S
                      (S (S (S (S (S (S (S (S (S (S (S (S (S (S (S (S (S (S
                      (S (S (S (S (S (S (S (S (S (S (S (S (S (S (S (S (S (S
                      (S (S (S (S (S (S (S (S (S (S (S (S (S (S (S (S (S (S
                      (S (S (S (S (S (S (S (S (S (S (S (S (S (S (S (S (S (S
                      (S (S (S (S (S (S (S (S (S (S (S (S (S (S (S (S (S (S
                      (S (S
                      O))))))))))))))))))))))))))))))))))))))))))))))))))))))))))))))))))))))))))))))))))))))))))))))))))))))))))))))))))))))))))))))))))))))))))))))))))),
                   [], (S (S (S (S (S (S (S (S (S (S (S (S (S (S (S (S (S (S
                   (S (S (S (S (S (S (S (S (S (S (S (S (S (S (S (S (S (S (S
                   (S (S (S (S (S (S (S (S (S (S (S (S (S (S
                   O))))))))))))))))))))))))))))))))))))))))))))))))))))) :: [])))))))))
                   (store_write (t O) ((f_solution,
                     (t (S (S (S (S (S (S (S (S (S (S (S (S (S (S (S (S (S (S
                       (S (S (S (S (S (S (S (S (S (S (S (S (S (S (S (S (S (S
                       (S (S (S (S (S (S (S (S (S (S (S (S (S (S (S (S (S (S
                       (S (S (S (S (S (S (S (S (S (S (S (S (S (S (S (S (S (S
                       (S (S (S (S (S (S (S (S (S (S (S (S (S (S (S (S (S (S
                       (S (S (S (S (S (S (S (S (S (S (S (S (S (S (S (S (S (S
                       (S (S (S (S (S (S (S (S (S (S (S (S (S (S (S (S (S (S
                       (S (S (S (S (S (S (S (S (S (S (S (S (S (S (S (S (S
                       O))))))))))))))))))))))))))))))))))))))))))))))))))))))))))))))))))))))))))))))))))))))))))))))))))))))))))))))))))))))))))))))))))))))))))))))))) :: ((f_objective,
                     (t (S (S (S (S (S (S (S (S (S (S (S (S (S (S (S (S (S (S
                       (S (S (S (S (S (S (S (S (S (S (S (S (S (S (S (S (S (S
                       (S (S (S (S (S (S (S (S (S (S (S (S (S (S (S (S (S (S
                       (S (S (S (S (S (S (S (S (S (S (S (S (S (S (S (S (S (S
                       (S (S (S (S (S (S (S (S (S (S (S (S (S (S (S (S (S (S
                       (S (S (S (S (S (S (S (S (S (S (S (S (S (S (S (S (S (S
                       (S (S (S (S (S (S (S (S (S (S (S (S (S (S (S (S (S (S
                       (S (S (S (S (S (S (S (S (S (S (S (S (S (S (S (S (S (S
                       O)))))))))))))))))))))))))))))))))))))))))))))))))))))))))))))))))))))))))))))))))))))))))))))))))))))))))))))))))))))))))))))))))))))))))))))))))) :: ((f_measures,
                     (t (S (S (S (S (S (S (S (S (S (S (S (S (S (S (S (S (S (S
                       (S (S (S (S (S (S (S (S (S (S (S (S (S (S (S (S (S (S
                       (S (S (S (S (S (S (S (S (S (S (S (S (S (S (S (S (S (S
                       (S (S (S (S (S (S (S (S (S (S (S (S (S (S (S (S (S (S
                       (S (S (S (S (S (S (S (S (S (S (S (S (S (S (S (S (S (S
                       (S (S (S (S (S (S (S (S (S (S (S (S (S (S (S (S (S (S
                       (S (S (S (S (S (S (S (S (S (S (S (S (S (S (S (S (S (S
                       (S (S (S (S (S (S (S (S (S (S (S (S (S (S (S (S (S (S
                       (S
                       O))))))))))))))))))))))))))))))))))))))))))))))))))))))))))))))))))))))))))))))))))))))))))))))))))))))))))))))))))))))))))))))))))))))))))))))))))) :: []))))
            else [])
           (archive_add_single_core O (S O) (S (S O))
             (opt_ev e nargs (S (S (S O)))) true)))
   | ProximityAdd ->
     app
       (validate_batch
         (app (O :: ((S O) :: ((S (S O)) :: [])))
           (if he then (S (S (S O))) :: [] else [])))
       (app ((IOp
         ((t (S (S (S (S (S (S (S (S (S (S (S (S (S (S (S (S (S (S (S (S (S
            (S (S (S (S (S (S (S (S (S (S (S (S (S (S (S (S (S (S (S (S (S (S
            (S (S (S (S (S (S (S (S (S (S (S (S (S (S (S (S (S (S (S (S (S (S
            (S (S (S (S (S (S (S (S (S (S (S (S (S (S (S (S (S (S (S (S (S (S
            (S (S (S (S (S (S (S (S (S (S (S (S (S (S (S (S (S (S (S (S (S (S
            (S (S (S (S (S (S (S (S (S (S (S (S (S (S (S (S (S (S (S (S (S (S
            (S (S (S (S (S (S (S (S (S (S (S (S (S (S (S (S (S (S (S (S (S (S
            (S (S (S (S (S (S (S
            O))))))))))))))))))))))))))))))))))))))))))))))))))))))))))))))))))))))))))))))))))))))))))))))))))))))))))))))))))))))))))))))))))))))))))))))))))))))))))))))))),
         ((S (S O)) :: []), (S (S (S (S (S (S (S (S (S (S (S (S (S (S (S (S
         (S (S (S (S (S (S (S (S (S (S (S (S (S (S (S (S (S (S (S (S (S (S (S
         (S (S (S (S (S (S (S (S (S (S (S (S (S (S (S (S (S (S (S (S (S
         O)))))))))))))))))))))))))))))))))))))))))))))))))))))))))))))) :: ((IOp
         ((t (S (S (S (S (S (S (S (S (S (S (S (S (S (S (S (S (S (S (S (S (S
            (S (S (S (S (S (S (S (S (S (S (S (S (S (S (S (S (S (S (S (S (S (S
            (S (S (S (S (S (S (S (S (S (S (S (S (S (S (S (S (S (S (S (S (S (S
            (S (S (S (S (S (S (S (S (S (S (S (S (S (S (S (S (S (S (S (S (S (S
            (S (S (S (S (S (S (S (S (S (S (S (S (S (S (S (S (S (S (S (S (S (S
            (S (S (S (S (S (S (S (S (S (S (S (S (S (S (S (S (S (S (S (S (S (S
            (S (S (S (S (S (S (S (S (S (S (S (S (S (S (S (S (S (S (S (S (S (S
            (S (S (S (S (S (S (S (S
            O)))))))))))))))))))))))))))))))))))))))))))))))))))))))))))))))))))))))))))))))))))))))))))))))))))))))))))))))))))))))))))))))))))))))))))))))))))))))))))))))))),
         ((t (S (S (S (S (S (S (S (S (S (S (S (S (S (S (S (S (S (S (S (S (S
            (S (S (S (S (S (S (S (S (S (S (S (S (S (S (S (S (S (S (S (S (S (S
            (S (S (S (S (S (S (S (S (S (S (S (S (S (S (S (S (S (S (S (S (S (S
            (S (S (S (S (S (S (S (S (S (S (S (S (S (S (S (S (S (S (S (S (S (S
            (S (S (S (S (S (S (S (S (S (S (S (S (S (S (S (S (S (S (S (S (S (S
            (S (S (S (S (S (S (S (S (S (S (S (S (S (S (S (S (S (S (S (S (S (S
            (S (S (S (S (S (S (S (S (S (S (S (S (S (S (S (S (S (S (S (S (S (S
            (S (S (S (S (S (S (S
            O))))))))))))))))))))))))))))))))))))))))))))))))))))))))))))))))))))))))))))))))))))))))))))))))))))))))))))))))))))))))))))))))))))))))))))))))))))))))))))))))) :: []),
         (S (S (S (S (S (S (S (S (S (S (S (S (S (S (S (S (S (S (S (S (S (S (S
         (S (S (S (S (S (S (S (S (S (S (S (S (S (S (S (S (S (S (S (S (S (S (S
         (S (S (S (S (S (S (S (S (S (S (S (S (S (S (S
         O))))))))))))))))))))))))))))))))))))))))))))))))))))))))))))))) :: []))
         (app
           (if Nat.eqb variant O
            then app ((IOp
                   ((t (S (S (S (S (S (S (S (S (S (S (S (S (S (S (S (S (S (S
                      (S (S (S (S (S (S (S (S (S (S (S (S (S (S (S (S (S (S
                      (S (S (S (S (S (S (S (S (S (S (S (S (S (S (S (S (S (S
                      (S (S (S (S (S (S (S (S (S (S (S (S (S (S (S (S (S (S
                      (S (S (S (S (S (S (S (S (S (S (S (S (S (S (S (S (S (S
                      (S (S (S (S (S (S (S (S (S (S (S (S (S (S (S (S (S (S
                      (S (S (S (S (S (S (S (S (S (S (S (S (S (S (S (S (S (S
                      (S (S (S (S (S (S (S (S (S (S (S (S (S (S (S (S (S (S
                      (S (S (S (S (S (S (S (S (S (S (S (S (S (S (S (S (S (S
                      O))))))))))))))))))))))))))))))))))))))))))))))))))))))))))))))))))))))))))))))))))))))))))))))))))))))))))))))))))))))))))))))))))))))))))))))))))))))))))))))))))),
                   (O :: ((t (S (S (S (S (S (S (S (S (S (S (S (S (S (S (S (S
                            (S (S (S (S (S (S (S (S (S (S (S (S (S (S (S (S
                            (S (S (S (S (S (S (S (S (S (S (S (S (S (S (S (S
                            (S (S (S (S (S (S (S (S (S (S (S (S (S (S (S (S
                            (S (S (S (S (S (S (S (S (S (S (S (S (S (S (S (S
                            (S (S (S (S (S (S (S (S (S (S (S (S (S (S (S (S
                            (S (S (S (S (S (S (S (S (S (S (S (S (S (S (S (S
                            (S (S (S (S (S (S (S (S (S (S (S (S (S (S (S (S
                            (S (S (S (S (S (S (S (S (S (S (S (S (S (S (S (S
                            (S (S (S (S (S (S (S (S (S (S (S (S (S (S (S (S
                            (S
                            O)))))))))))))))))))))))))))))))))))))))))))))))))))))))))))))))))))))))))))))))))))))))))))))))))))))))))))))))))))))))))))))))))))))))))))))))))))))))))))))))))) :: [])),
                   (S O))) :: ((IOp
                   ((t (S (S (S (S (S (S (S (S (S (S (S (S (S (S (S (S (S (S
                      (S (S (S (S (S (S (S (S (S (S (S (S (S (S (S (S (S (S
                      (S (S (S (S (S (S (S (S (S (S (S (S (S (S (S (S (S (S
                      (S (S (S (S (S (S (S (S (S (S (S (S (S (S (S (S (S (S
                      (S (S (S (S (S (S (S (S (S (S (S (S (S (S (S (S (S (S
                      (S (S (S (S (S (S (S (S (S (S (S (S (S (S (S (S (S (S
                      (S (S (S (S (S (S (S (S (S (S (S (S (S (S (S (S (S (S
                      (S (S (S (S (S (S (S (S (S (S (S (S (S (S (S (S (S (S
                      (S (S (S (S (S (S (S (S (S (S (S (S (S (S (S (S (S (S
                      (S
                      O)))))))))))))))))))))))))))))))))))))))))))))))))))))))))))))))))))))))))))))))))))))))))))))))))))))))))))))))))))))))))))))))))))))))))))))))))))))))))))))))))))),
                   ((S
                   O) :: ((t (S (S (S (S (S (S (S (S (S (S (S (S (S (S (S (S
                            (S (S (S (S (S (S (S (S (S (S (S (S (S (S (S (S
                            (S (S (S (S (S (S (S (S (S (S (S (S (S (S (S (S
                            (S (S (S (S (S (S (S (S (S (S (S (S (S (S (S (S
                            (S (S (S (S (S (S (S (S (S (S (S (S (S (S (S (S
                            (S (S (S (S (S (S (S (S (S (S (S (S (S (S (S (S
                            (S (S (S (S (S (S (S (S (S (S (S (S (S (S (S (S
                            (S (S (S (S (S (S (S (S (S (S (S (S (S (S (S (S
                            (S (S (S (S (S (S (S (S (S (S (S (S (S (S (S (S
                            (S (S (S (S (S (S (S (S (S (S (S (S (S (S (S (S
                            (S
                            O)))))))))))))))))))))))))))))))))))))))))))))))))))))))))))))))))))))))))))))))))))))))))))))))))))))))))))))))))))))))))))))))))))))))))))))))))))))))))))))))))) :: [])),
                   (S O))) :: ((IOp
                   ((t (S (S (S (S (S (S (S (S (S (S (S (S (S (S (S (S (S (S
                      (S (S (S (S (S (S (S (S (S (S (S (S (S (S (S (S (S (S
                      (S (S (S (S (S (S (S (S (S (S (S (S (S (S (S (S (S (S
                      (S (S (S (S (S (S (S (S (S (S (S (S (S (S (S (S (S (S
                      (S (S (S (S (S (S (S (S (S (S (S (S (S (S (S (S (S (S
                      (S (S (S (S (S (S (S (S (S (S (S (S (S (S (S (S (S (S
                      (S (S (S (S (S (S (S (S (S (S (S (S (S (S (S (S (S (S
                      (S (S (S (S (S (S (S (S (S (S (S (S (S (S (S (S (S (S
                      (S (S (S (S (S (S (S (S (S (S (S (S (S (S (S (S (S (S
                      (S (S
                      O))))))))))))))))))))))))))))))))))))))))))))))))))))))))))))))))))))))))))))))))))))))))))))))))))))))))))))))))))))))))))))))))))))))))))))))))))))))))))))))))))))),
                   ((S (S
                   O)) :: ((t (S (S (S (S (S (S (S (S (S (S (S (S (S (S (S (S
                             (S (S (S (S (S (S (S (S (S (S (S (S (S (S (S (S
                             (S (S (S (S (S (S (S (S (S (S (S (S (S (S (S (S
                             (S (S (S (S (S (S (S (S (S (S (S (S (S (S (S (S
                             (S (S (S (S (S (S (S (S (S (S (S (S (S (S (S (S
                             (S (S (S (S (S (S (S (S (S (S (S (S (S (S (S (S
                             (S (S (S (S (S (S (S (S (S (S (S (S (S (S (S (S
                             (S (S (S (S (S (S (S (S (S (S (S (S (S (S (S (S
                             (S (S (S (S (S (S (S (S (S (S (S (S (S (S (S (S
                             (S (S (S (S (S (S (S (S (S (S (S (S (S (S (S (S
                             (S
                             O)))))))))))))))))))))))))))))))))))))))))))))))))))))))))))))))))))))))))))))))))))))))))))))))))))))))))))))))))))))))))))))))))))))))))))))))))))))))))))))))))) :: [])),
                   (S O))) :: [])))
                   (app
                     (if he
                      then (IOp
                             ((t (S (S (S (S (S (S (S (S (S (S (S (S (S (S (S
                                (S (S (S (S (S (S (S (S (S (S (S (S (S (S (S
                                (S (S (S (S (S (S (S (S (S (S (S (S (S (S (S
                                (S (S (S (S (S (S (S (S (S (S (S (S (S (S (S
                                (S (S (S (S (S (S (S (S (S (S (S (S (S (S (S
                                (S (S (S (S (S (S (S (S (S (S (S (S (S (S (S
                                (S (S (S (S (S (S (S (S (S (S (S (S (S (S (S
                                (S (S (S (S (S (S (S (S (S (S (S (S (S (S (S
                                (S (S (S (S (S (S (S (S (S (S (S (S (S (S (S
                                (S (S (S (S (S (S (S (S (S (S (S (S (S (S (S
                                (S (S (S (S (S (S (S (S (S (S (S (S (S (S (S
                                O)))))))))))))))))))))))))))))))))))))))))))))))))))))))))))))))))))))))))))))))))))))))))))))))))))))))))))))))))))))))))))))))))))))))))))))))))))))))))))))))))))))),
                             ((S (S (S
                             O))) :: ((t (S (S (S (S (S (S (S (S (S (S (S (S
                                        (S (S (S (S (S (S (S (S (S (S (S (S
                                        (S (S (S (S (S (S (S (S (S (S (S (S
                                        (S (S (S (S (S (S (S (S (S (S (S (S
                                        (S (S (S (S (S (S (S (S (S (S (S (S
                                        (S (S (S (S (S (S (S (S (S (S (S (S
                                        (S (S (S (S (S (S (S (S (S (S (S (S
                                        (S (S (S (S (S (S (S (S (S (S (S (S
                                        (S (S (S (S (S (S (S (S (S (S (S (S
                                        (S (S (S (S (S (S (S (S (S (S (S (S
                                        (S (S (S (S (S (S (S (S (S (S (S (S
                                        (S (S (S (S (S (S (S (S (S (S (S (S
                                        (S (S (S (S (S (S (S (S (S (S (S (S
                                        (S (S (S (S (S
                                        O)))))))))))))))))))))))))))))))))))))))))))))))))))))))))))))))))))))))))))))))))))))))))))))))))))))))))))))))))))))))))))))))))))))))))))))))))))))))))))))))))) :: [])),
                             (S O))) :: []
                      else [])
                     (app ((IOp ((t O),
                       ((t (S (S (S (S (S (S (S (S (S (S (S (S (S (S (S (S (S
                          (S (S (S (S (S (S (S (S (S (S (S (S (S (S (S (S (S
                          (S (S (S (S (S (S (S (S (S (S (S (S (S (S (S (S (S
                          (S (S (S (S (S (S (S (S (S (S (S (S (S (S (S (S (S
                          (S (S (S (S (S (S (S (S (S (S (S (S (S (S (S (S (S
                          (S (S (S (S (S (S (S (S (S (S (S (S (S (S (S (S (S
                          (S (S (S (S (S (S (S (S (S (S (S (S (S (S (S (S (S
                          (S (S (S (S (S (S (S (S (S (S (S (S (S (S (S (S (S
                          (S (S (S (S (S (S (S (S (S (S (S (S (S (S (S (S (S
                          (S (S (S (S (S (S (S (S
                          O)))))))))))))))))))))))))))))))))))))))))))))))))))))))))))))))))))))))))))))))))))))))))))))))))))))))))))))))))))))))))))))))))))))))))))))))))))))))))))))))))) :: []),
                       (S (S (S (S (S (S (S (S (S (S (S (S (S (S (S (S (S (S
                       (S (S (S (S (S (S (S (S (S (S (S (S (S (S (S (S (S (S
                       (S (S (S (S (S (S (S (S (S (S (S (S (S (S (S (S (S (S
                       (S (S (S (S (S (S (S (S
                       O)))))))))))))))))))))))))))))))))))))))))))))))))))))))))))))))) :: [])
                       (app
                         (archive_transforms
                           (t (S (S (S (S (S (S (S (S (S (S (S (S (S (S (S (S
                             (S (S (S (S (S (S (S (S (S (S (S (S (S (S (S (S
                             (S (S (S (S (S (S (S (S (S (S (S (S (S (S (S (S
                             (S (S (S (S (S (S (S (S (S (S (S (S (S (S (S (S
                             (S (S (S (S (S (S (S (S (S (S (S (S (S (S (S (S
                             (S (S (S (S (S (S (S (S (S (S (S (S (S (S (S (S
                             (S (S (S (S (S (S (S (S (S (S (S (S (S (S (S (S
                             (S (S (S (S (S (S (S (S (S (S (S (S (S (S (S (S
                             (S (S (S (S (S (S (S (S (S (S (S (S (S (S (S (S
                             (S (S (S (S (S (S (S (S (S (S (S (S (S (S (S (S
                             (S (S
                             O)))))))))))))))))))))))))))))))))))))))))))))))))))))))))))))))))))))))))))))))))))))))))))))))))))))))))))))))))))))))))))))))))))))))))))))))))))))))))))))))))))
                           (t (S (S (S (S (S (S (S (S (S (S (S (S (S (S (S (S
                             (S (S (S (S (S (S (S (S (S (S (S (S (S (S (S (S
                             (S (S (S (S (S (S (S (S (S (S (S (S (S (S (S (S
                             (S (S (S (S (S (S (S (S (S (S (S (S (S (S (S (S
                             (S (S (S (S (S (S (S (S (S (S (S (S (S (S (S (S
                             (S (S (S (S (S (S (S (S (S (S (S (S (S (S (S (S
                             (S (S (S (S (S (S (S (S (S (S (S (S (S (S (S (S
                             (S (S (S (S (S (S (S (S (S (S (S (S (S (S (S (S
                             (S (S (S (S (S (S (S (S (S (S (S (S (S (S (S (S
                             (S (S (S (S (S (S (S (S (S (S (S (S (S (S (S (S
                             (S (S (S
                             O))))))))))))))))))))))))))))))))))))))))))))))))))))))))))))))))))))))))))))))))))))))))))))))))))))))))))))))))))))))))))))))))))))))))))))))))))))))))))))))))))))
                           (t (S (S (S (S (S (S (S (S (S (S (S (S (S (S (S (S
                             (S (S (S (S (S (S (S (S (S (S (S (S (S (S (S (S
                             (S (S (S (S (S (S (S (S (S (S (S (S (S (S (S (S
                             (S (S (S (S (S (S (S (S (S (S (S (S (S (S (S (S
                             (S (S (S (S (S (S (S (S (S (S (S (S (S (S (S (S
                             (S (S (S (S (S (S (S (S (S (S (S (S (S (S (S (S
                             (S (S (S (S (S (S (S (S (S (S (S (S (S (S (S (S
                             (S (S (S (S (S (S (S (S (S (S (S (S (S (S (S (S
                             (S (S (S (S (S (S (S (S (S (S (S (S (S (S (S (S
                             (S (S (S (S (S (S (S (S (S (S (S (S (S (S (S (S
                             (S (S (S (S
                             O)))))))))))))))))))))))))))))))))))))))))))))))))))))))))))))))))))))))))))))))))))))))))))))))))))))))))))))))))))))))))))))))))))))))))))))))))))))))))))))))))))))
                           (if he
                            then Some
                                   (t (S (S (S (S (S (S (S (S (S (S (S (S (S
                                     (S (S (S (S (S (S (S (S (S (S (S (S (S
                                     (S (S (S (S (S (S (S (S (S (S (S (S (S
                                     (S (S (S (S (S (S (S (S (S (S (S (S (S
                                     (S (S (S (S (S (S (S (S (S (S (S (S (S
                                     (S (S (S (S (S (S (S (S (S (S (S (S (S
                                     (S (S (S (S (S (S (S (S (S (S (S (S (S
                                     (S (S (S (S (S (S (S (S (S (S (S (S (S
                                     (S (S (S (S (S (S (S (S (S (S (S (S (S
                                     (S (S (S (S (S (S (S (S (S (S (S (S (S
                                     (S (S (S (S (S (S (S (S (S (S (S (S (S
                                     (S (S (S (S (S (S (S (S (S (S (S (S (S
                                     (S (S (S (S (S (S (S (S (S
                                     O))))))))))))))))))))))))))))))))))))))))))))))))))))))))))))))))))))))))))))))))))))))))))))))))))))))))))))))))))))))))))))))))))))))))))))))))))))))))))))))))))))))
                            else None) true)
                         (app
                           (store_write (t (S O))
                             (app ((f_solution,
                               (t (S (S O)))) :: ((f_objective,
                               (t (S (S (S O))))) :: ((f_measures,
                               (t (S (S (S (S O)))))) :: ((f_threshold,
                               (t (S (S (S (S (S (S O)))))))) :: []))))
                               (if he
                                then (f_extra,
                                       (t (S (S (S (S (S O))))))) :: []
                                else [])))
                           (app
                             (stats_update
                               (t (S (S (S (S (S (S (S (S (S (S (S (S (S (S
                                 (S (S (S (S (S (S (S (S (S (S (S (S (S (S (S
                                 (S (S (S (S (S (S (S (S (S (S
                                 O)))))))))))))))))))))))))))))))))))))))) he)
                             ((IGetSelf
                             ((t (S (S (S (S (S (S (S (S (S (S (S (S (S (S (S
                                (S (S (S (S (S (S (S (S (S (S (S (S (S (S (S
                                (S (S (S (S (S (S (S (S (S (S (S (S (S (S (S
                                (S (S (S (S (S (S (S (S (S (S (S (S (S (S (S
                                (S (S (S (S (S (S (S (S (S (S (S (S (S (S (S
                                (S (S (S (S (S (S (S (S (S (S (S (S (S (S (S
                                (S (S (S (S (S (S (S (S (S (S (S (S (S (S (S
                                (S (S (S (S (S (S (S (S (S (S (S (S (S (S (S
                                (S (S (S (S (S (S (S (S (S (S (S (S (S (S (S
                                (S (S (S (S (S (S (S (S (S (S (S (S (S (S (S
                                (S (S (S (S (S (S (S (S (S (S (S (S (S (S (S
                                (S
                                O))))))))))))))))))))))))))))))))))))))))))))))))))))))))))))))))))))))))))))))))))))))))))))))))))))))))))))))))))))))))))))))))))))))))))))))))))))))))))))))))))))))),
                             f_measures)) :: ((IOp
                             ((t (S (S (S (S (S (S (S (S (S (S (S (S (S (S (S
                                (S (S (S (S (S (S (S (S (S (S (S (S (S (S (S
                                (S (S (S (S (S (S (S (S (S (S (S (S (S (S (S
                                (S (S (S (S (S (S (S (S (S (S (S (S (S (S (S
                                (S (S (S (S (S (S (S (S (S (S (S (S (S (S (S
                                (S (S (S (S (S (S (S (S (S (S (S (S (S (S (S
                                (S (S (S (S (S (S (S (S (S (S (S (S (S (S (S
                                (S (S (S (S (S (S (S (S (S (S (S (S (S (S (S
                                (S (S (S (S (S (S (S (S (S (S (S (S (S (S (S
                                (S (S (S (S (S (S (S (S (S (S (S (S (S (S (S
                                (S (S (S (S (S (S (S (S (S (S (S (S (S (S (S
                                (S (S
                                O)))))))))))))))))))))))))))))))))))))))))))))))))))))))))))))))))))))))))))))))))))))))))))))))))))))))))))))))))))))))))))))))))))))))))))))))))))))))))))))))))))))))),
                             ((t (S (S (S (S (S (S (S (S (S (S (S (S (S (S (S
                                (S (S (S (S (S (S (S (S (S (S (S (S (S (S (S
                                (S (S (S (S (S (S (S (S (S (S (S (S (S (S (S
                                (S (S (S (S (S (S (S (S (S (S (S (S (S (S (S
                                (S (S (S (S (S (S (S (S (S (S (S (S (S (S (S
                                (S (S (S (S (S (S (S (S (S (S (S (S (S (S (S
                                (S (S (S (S (S (S (S (S (S (S (S (S (S (S (S
                                (S (S (S (S (S (S (S (S (S (S (S (S (S (S (S
                                (S (S (S (S (S (S (S (S (S (S (S (S (S (S (S
                                (S (S (S (S (S (S (S (S (S (S (S (S (S (S (S
                                (S (S (S (S (S (S (S (S (S (S (S (S (S (S (S
                                (S
                                O))))))))))))))))))))))))))))))))))))))))))))))))))))))))))))))))))))))))))))))))))))))))))))))))))))))))))))))))))))))))))))))))))))))))))))))))))))))))))))))))))))))) :: []),
                             (S O))) :: ((ISetSelf (f_i5,
                             (t (S (S (S (S (S (S (S (S (S (S (S (S (S (S (S
                               (S (S (S (S (S (S (S (S (S (S (S (S (S (S (S
                               (S (S (S (S (S (S (S (S (S (S (S (S (S (S (S
                               (S (S (S (S (S (S (S (S (S (S (S (S (S (S (S
                               (S (S (S (S (S (S (S (S (S (S (S (S (S (S (S
                               (S (S (S (S (S (S (S (S (S (S (S (S (S (S (S
                               (S (S (S (S (S (S (S (S (S (S (S (S (S (S (S
                               (S (S (S (S (S (S (S (S (S (S (S (S (S (S (S
                               (S (S (S (S (S (S (S (S (S (S (S (S (S (S (S
                               (S (S (S (S (S (S (S (S (S (S (S (S (S (S (S
                               (S (S (S (S (S (S (S (S (S (S (S (S (S (S (S
                               (S (S
                               O)))))))))))))))))))))))))))))))))))))))))))))))))))))))))))))))))))))))))))))))))))))))))))))))))))))))))))))))))))))))))))))))))))))))))))))))))))))))))))))))))))))))))) :: []))))))))
            else (IOp
                   ((t (S (S (S (S (S (S (S (S (S (S (S (S (S (S (S (S (S (S
                      (S (S (S (S (S (S (S (S (S (S (S (S (S (S
                      O))))))))))))))))))))))))))))))))), [], (S (S (S (S (S
                   (S O)))))))) :: []) ((IOp
           ((t (S (S (S (S (S (S (S (S (S (S (S (S (S (S (S (S (S (S (S (S (S
              (S (S (S (S (S (S (S (S (S (S (S (S (S (S (S (S (S (S (S (S (S
              (S (S (S (S (S (S (S (S (S (S (S (S (S (S (S (S (S (S (S (S (S
              (S (S (S (S (S (S (S (S (S (S (S (S (S (S (S (S (S (S (S (S (S
              (S (S (S (S (S (S (S (S (S (S (S (S (S (S (S (S (S (S (S (S (S
              (S (S (S (S (S (S (S (S (S (S (S (S (S (S (S (S (S (S (S (S (S
              (S (S (S (S (S (S (S (S (S (S (S (S (S (S (S (S (S (S (S (S (S
              (S (S (S (S (S (S (S (S (S (S (S (S (S (S (S (S (S (S (S (S (S
              O))))))))))))))))))))))))))))))))))))))))))))))))))))))))))))))))))))))))))))))))))))))))))))))))))))))))))))))))))))))))))))))))))))))))))))))))))))))))))))))))))))))))),
           ((t (S (S (S (S (S (S (S (S (S (S (S (S (S (S (S (S (S (S (S (S (S
              (S (S (S (S (S (S (S (S (S (S (S
              O))))))))))))))))))))))))))))))))) :: []), (S (S (S (S (S (S (S
           (S (S (S (S (S (S (S (S (S (S (S (S (S (S (S (S (S (S (S (S (S (S
           (S (S (S (S (S (S (S (S (S (S (S (S (S (S (S (S (S (S (S (S (S (S
           (S (S (S (S (S (S (S (S (S (S (S (S
           O))))))))))))))))))))))))))))))))))))))))))))))))))))))))))))))))) :: ((IReturn
           (t (S (S (S (S (S (S (S (S (S (S (S (S (S (S (S (S (S (S (S (S (S
             (S (S (S (S (S (S (S (S (S (S (S (S (S (S (S (S (S (S (S (S (S
             (S (S (S (S (S (S (S (S (S (S (S (S (S (S (S (S (S (S (S (S (S
             (S (S (S (S (S (S (S (S (S (S (S (S (S (S (S (S (S (S (S (S (S
             (S (S (S (S (S (S (S (S (S (S (S (S (S (S (S (S (S (S (S (S (S
             (S (S (S (S (S (S (S (S (S (S (S (S (S (S (S (S (S (S (S (S (S
             (S (S (S (S (S (S (S (S (S (S (S (S (S (S (S (S (S (S (S (S (S
             (S (S (S (S (S (S (S (S (S (S (S (S (S (S (S (S (S (S (S (S (S
             O)))))))))))))))))))))))))))))))))))))))))))))))))))))))))))))))))))))))))))))))))))))))))))))))))))))))))))))))))))))))))))))))))))))))))))))))))))))))))))))))))))))))))) :: ((IReturn
           (t (S (S (S (S (S (S (S (S (S (S (S (S (S (S (S (S (S (S (S (S (S
             (S (S (S (S (S (S (S (S (S (S (S (S (S (S (S (S (S (S (S (S (S
             (S (S (S (S (S (S (S (S (S (S (S (S (S (S (S (S (S (S (S (S (S
             (S (S (S (S (S (S (S (S (S (S (S (S (S (S (S (S (S (S (S (S (S
             (S (S (S (S (S (S (S (S (S (S (S (S (S (S (S (S (S (S (S (S (S
             (S (S (S (S (S (S (S (S (S (S (S (S (S (S (S (S (S (S (S (S (S
             (S (S (S (S (S (S (S (S (S (S (S (S (S (S (S (S (S (S (S (S (S
             (S (S (S (S (S (S (S (S (S (S (S (S (S
             O)))))))))))))))))))))))))))))))))))))))))))))))))))))))))))))))))))))))))))))))))))))))))))))))))))))))))))))))))))))))))))))))))))))))))))))))))))))))))))))))))) :: [])))))
   | ProximityAddSingle ->
     app (validate_single O (S O) (S (S O)))
       (app ((IOp
         ((t (S (S (S (S (S (S (S (S (S (S (S (S (S (S (S (S (S (S (S (S (S
            (S (S (S (S (S (S (S (S (S (S (S (S (S (S (S (S (S (S (S (S (S (S
            (S (S (S (S (S (S (S (S (S (S (S (S (S (S (S (S (S (S (S (S (S (S
            (S (S (S (S (S (S (S (S (S (S (S (S (S (S (S (S (S (S (S (S (S (S
            (S (S (S (S (S (S (S (S (S (S (S (S (S (S (S (S (S (S (S (S (S (S
            (S (S (S (S (S (S (S (S (S (S (S (S (S (S (S (S (S (S (S (S (S (S
            (S (S (S (S (S (S (S (S (S (S (S (S (S (S (S (S (S (S (S (S (S (S
            (S (S (S (S (S (S (S (S (S (S (S (S (S (S (S (S (S
            O))))))))))))))))))))))))))))))))))))))))))))))))))))))))))))))))))))))))))))))))))))))))))))))))))))))))))))))))))))))))))))))))))))))))))))))))))))))))))))))))))))))))))),
         (O :: []), (S (S (S (S (S (S (S (S (S (S (S (S (S (S (S (S (S (S (S
         (S (S (S (S (S (S (S (S (S (S (S (S (S (S (S (S (S (S (S (S (S (S (S
         (S (S (S (S (S (S (S (S (S (S (S (S (S (S (S (S (S (S (S (S (S (S
         O)))))))))))))))))))))))))))))))))))))))))))))))))))))))))))))))))) :: ((IOp
         ((t (S (S (S (S (S (S (S (S (S (S (S (S (S (S (S (S (S (S (S (S (S
            (S (S (S (S (S (S (S (S (S (S (S (S (S (S (S (S (S (S (S (S (S (S
            (S (S (S (S (S (S (S (S (S (S (S (S (S (S (S (S (S (S (S (S (S (S
            (S (S (S (S (S (S (S (S (S (S (S (S (S (S (S (S (S (S (S (S (S (S
            (S (S (S (S (S (S (S (S (S (S (S (S (S (S (S (S (S (S (S (S (S (S
            (S (S (S (S (S (S (S (S (S (S (S (S (S (S (S (S (S (S (S (S (S (S
            (S (S (S (S (S (S (S (S (S (S (S (S (S (S (S (S (S (S (S (S (S (S
            (S (S (S (S (S (S (S (S (S (S (S (S (S (S (S (S (S (S
            O)))))))))))))))))))))))))))))))))))))))))))))))))))))))))))))))))))))))))))))))))))))))))))))))))))))))))))))))))))))))))))))))))))))))))))))))))))))))))))))))))))))))))))),
         ((S O) :: []), (S (S (S (S (S (S (S (S (S (S (S (S (S (S (S (S (S (S
         (S (S (S (S (S (S (S (S (S (S (S (S (S (S (S (S (S (S (S (S (S (S (S
         (S (S (S (S (S (S (S (S (S (S (S (S (S (S (S (S (S (S (S (S (S (S (S
         O)))))))))))))))))))))))))))))))))))))))))))))))))))))))))))))))))) :: ((IOp
         ((t (S (S (S (S (S (S (S (S (S (S (S (S (S (S (S (S (S (S (S (S (S
            (S (S (S (S (S (S (S (S (S (S (S (S (S (S (S (S (S (S (S (S (S (S
            (S (S (S (S (S (S (S (S (S (S (S (S (S (S (S (S (S (S (S (S (S (S
            (S (S (S (S (S (S (S (S (S (S (S (S (S (S (S (S (S (S (S (S (S (S
            (S (S (S (S (S (S (S (S (S (S (S (S (S (S (S (S (S (S (S (S (S (S
            (S (S (S (S (S (S (S (S (S (S (S (S (S (S (S (S (S (S (S (S (S (S
            (S (S (S (S (S (S (S (S (S (S (S (S (S (S (S (S (S (S (S (S (S (S
            (S (S (S (S (S (S (S (S (S (S (S (S (S (S (S (S (S (S (S
            O))))))))))))))))))))))))))))))))))))))))))))))))))))))))))))))))))))))))))))))))))))))))))))))))))))))))))))))))))))))))))))))))))))))))))))))))))))))))))))))))))))))))))))),
         ((S (S O)) :: []), (S (S (S (S (S (S (S (S (S (S (S (S (S (S (S (S
         (S (S (S (S (S (S (S (S (S (S (S (S (S (S (S (S (S (S (S (S (S (S (S
         (S (S (S (S (S (S (S (S (S (S (S (S (S (S (S (S (S (S (S (S (S (S (S
         (S (S
         O)))))))))))))))))))))))))))))))))))))))))))))))))))))))))))))))))) :: [])))
         (app
           (if he
            then (IOp
                   ((t (S (S (S (S (S (S (S (S (S (S (S (S (S (S (S (S (S (S
                      (S (S (S (S (S (S (S (S (S (S (S (S (S (S (S (S (S (S
                      (S (S (S (S (S (S (S (S (S (S (S (S (S (S (S (S (S (S
                      (S (S (S (S (S (S (S (S (S (S (S (S (S (S (S (S (S (S
                      (S (S (S (S (S (S (S (S (S (S (S (S (S (S (S (S (S (S
                      (S (S (S (S (S (S (S (S (S (S (S (S (S (S (S (S (S (S
                      (S (S (S (S (S (S (S (S (S (S (S (S (S (S (S (S (S (S
                      (S (S (S (S (S (S (S (S (S (S (S (S (S (S (S (S (S (S
                      (S (S (S (S (S (S (S (S (S (S (S (S (S (S (S (S (S (S
                      (S (S (S (S (S (S (S (S (S (S (S
                      O)))))))))))))))))))))))))))))))))))))))))))))))))))))))))))))))))))))))))))))))))))))))))))))))))))))))))))))))))))))))))))))))))))))))))))))))))))))))))))))))))))))))))))))),
                   ((S (S (S O))) :: []), (S (S (S (S (S (S (S (S (S (S (S (S
                   (S (S (S (S (S (S (S (S (S (S (S (S (S (S (S (S (S (S (S
                   (S (S (S (S (S (S (S (S (S (S (S (S (S (S (S (S (S (S (S
                   (S (S (S (S (S (S (S (S (S (S (S (S (S (S
                   O)))))))))))))))))))))))))))))))))))))))))))))))))))))))))))))))))) :: []
            else []) ((IOp
           ((t (S (S (S (S (S (S (S (S (S (S (S (S (S (S (S (S (S (S (S (S (S
              (S (S (S (S (S (S (S (S (S (S (S (S (S (S (S (S (S (S (S (S (S
              (S (S (S (S (S (S (S (S (S (S (S (S (S (S (S (S (S (S (S (S (S
              (S (S (S (S (S (S (S (S (S (S (S (S (S (S (S (S (S (S (S (S (S
              (S (S (S (S (S (S (S (S (S (S (S (S (S (S (S (S (S (S (S (S (S
              (S (S (S (S (S (S (S (S (S (S (S (S (S (S (S (S (S (S (S (S (S
              (S (S (S (S (S (S (S (S (S (S (S (S (S (S (S (S (S (S (S (S (S
              (S (S (S (S (S (S (S (S (S (S (S (S (S
              O))))))))))))))))))))))))))))))))))))))))))))))))))))))))))))))))))))))))))))))))))))))))))))))))))))))))))))))))))))))))))))))))))))))))))))))))))))))))))))))))),
           ((t (S (S (S (S (S (S (S (S (S (S (S (S (S (S (S (S (S (S (S (S (S
              (S (S (S (S (S (S (S (S (S (S (S (S (S (S (S (S (S (S (S (S (S
              (S (S (S (S (S (S (S (S (S (S (S (S (S (S (S (S (S (S (S (S (S
              (S (S (S (S (S (S (S (S (S (S (S (S (S (S (S (S (S (S (S (S (S
              (S (S (S (S (S (S (S (S (S (S (S (S (S (S (S (S (S (S (S (S (S
              (S (S (S (S (S (S (S (S (S (S (S (S (S (S (S (S (S (S (S (S (S
              (S (S (S (S (S (S (S (S (S (S (S (S (S (S (S (S (S (S (S (S (S
              (S (S (S (S (S (S (S (S (S (S (S (S (S (S (S (S (S (S (S (S (S
              (S (S (S (S
              O))))))))))))))))))))))))))))))))))))))))))))))))))))))))))))))))))))))))))))))))))))))))))))))))))))))))))))))))))))))))))))))))))))))))))))))))))))))))))))))))))))))))))))) :: []),
           (S (S (S (S (S (S (S (S (S (S (S (S (S (S (S (S (S (S (S (S (S (S
           (S (S (S (S (S (S (S (S (S (S (S (S (S (S (S (S (S (S (S (S (S (S
           (S (S (S (S (S (S (S (S (S (S (S (S (S (S (S (S
           O)))))))))))))))))))))))))))))))))))))))))))))))))))))))))))))) :: ((IOp
           ((t (S (S (S (S (S (S (S (S (S (S (S (S (S (S (S (S (S (S (S (S (S
              (S (S (S (S (S (S (S (S (S (S (S (S (S (S (S (S (S (S (S (S (S
              (S (S (S (S (S (S (S (S (S (S (S (S (S (S (S (S (S (S (S (S (S
              (S (S (S (S (S (S (S (S (S (S (S (S (S (S (S (S (S (S (S (S (S
              (S (S (S (S (S (S (S (S (S (S (S (S (S (S (S (S (S (S (S (S (S
              (S (S (S (S (S (S (S (S (S (S (S (S (S (S (S (S (S (S (S (S (S
              (S (S (S (S (S (S (S (S (S (S (S (S (S (S (S (S (S (S (S (S (S
              (S (S (S (S (S (S (S (S (S (S (S (S (S (S
              O)))))))))))))))))))))))))))))))))))))))))))))))))))))))))))))))))))))))))))))))))))))))))))))))))))))))))))))))))))))))))))))))))))))))))))))))))))))))))))))))))),
           ((t (S (S (S (S (S (S (S (S (S (S (S (S (S (S (S (S (S (S (S (S (S
              (S (S (S (S (S (S (S (S (S (S (S (S (S (S (S (S (S (S (S (S (S
              (S (S (S (S (S (S (S (S (S (S (S (S (S (S (S (S (S (S (S (S (S
              (S (S (S (S (S (S (S (S (S (S (S (S (S (S (S (S (S (S (S (S (S
              (S (S (S (S (S (S (S (S (S (S (S (S (S (S (S (S (S (S (S (S (S
              (S (S (S (S (S (S (S (S (S (S (S (S (S (S (S (S (S (S (S (S (S
              (S (S (S (S (S (S (S (S (S (S (S (S (S (S (S (S (S (S (S (S (S
              (S (S (S (S (S (S (S (S (S (S (S (S (S
              O))))))))))))))))))))))))))))))))))))))))))))))))))))))))))))))))))))))))))))))))))))))))))))))))))))))))))))))))))))))))))))))))))))))))))))))))))))))))))))))))) :: []),
           (S (S (S (S (S (S (S (S (S (S (S (S (S (S (S (S (S (S (S (S (S (S
           (S (S (S (S (S (S (S (S (S (S (S (S (S (S (S (S (S (S (S (S (S (S
           (S (S (S (S (S (S (S (S (S (S (S (S (S (S (S (S (S
           O))))))))))))))))))))))))))))))))))))))))))))))))))))))))))))))) :: ((IOp
           ((t (S (S (S (S (S (S (S (S (S (S (S (S (S (S (S (S (S (S (S (S (S
              (S (S (S (S (S (S (S (S (S (S (S (S (S (S (S (S (S (S (S (S (S
              (S (S (S (S (S (S (S (S (S (S (S (S (S (S (S (S (S (S (S (S (S
              (S (S (S (S (S (S (S (S (S (S (S (S (S (S (S (S (S (S (S (S (S
              (S (S (S (S (S (S (S (S (S (S (S (S (S (S (S (S (S (S (S (S (S
              (S (S (S (S (S (S (S (S (S (S (S (S (S (S (S (S (S (S (S (S (S
              (S (S (S (S (S (S (S (S (S (S (S (S (S (S (S (S (S (S (S (S (S
              (S (S (S (S (S (S (S (S (S (S (S (S (S (S (S (S (S (S (S (S (S
              O))))))))))))))))))))))))))))))))))))))))))))))))))))))))))))))))))))))))))))))))))))))))))))))))))))))))))))))))))))))))))))))))))))))))))))))))))))))))))))))))))))))))),
           ((t (S (S (S (S (S (S (S (S (S (S (S (S (S (S (S (S (S (S (S (S (S
              (S (S (S (S (S (S (S (S (S (S (S (S (S (S (S (S (S (S (S (S (S
              (S (S (S (S (S (S (S (S (S (S (S (S (S (S (S (S (S (S (S (S (S
              (S (S (S (S (S (S (S (S (S (S (S (S (S (S (S (S (S (S (S (S (S
              (S (S (S (S (S (S (S (S (S (S (S (S (S (S (S (S (S (S (S (S (S
              (S (S (S (S (S (S (S (S (S (S (S (S (S (S (S (S (S (S (S (S (S
              (S (S (S (S (S (S (S (S (S (S (S (S (S (S (S (S (S (S (S (S (S
              (S (S (S (S (S (S (S (S (S (S (S (S (S (S
              O)))))))))))))))))))))))))))))))))))))))))))))))))))))))))))))))))))))))))))))))))))))))))))))))))))))))))))))))))))))))))))))))))))))))))))))))))))))))))))))))))) :: []),
           (S (S (S (S (S (S (S (S (S (S (S (S (S (S (S (S (S (S (S (S (S (S
           (S (S (S (S (S (S (S (S (S (S (S (S (S (S (S (S (S (S (S (S (S (S
           (S (S (S (S (S (S (S (S (S (S (S (S (S (S (S (S (S (S (S
           O))))))))))))))))))))))))))))))))))))))))))))))))))))))))))))))))) :: ((IReturn
           (t (S (S (S (S (S (S (S (S (S (S (S (S (S (S (S (S (S (S (S (S (S
             (S (S (S (S (S (S (S (S (S (S (S (S (S (S (S (S (S (S (S (S (S
             (S (S (S (S (S (S (S (S (S (S (S (S (S (S (S (S (S (S (S (S (S
             (S (S (S (S (S (S (S (S (S (S (S (S (S (S (S (S (S (S (S (S (S
             (S (S (S (S (S (S (S (S (S (S (S (S (S (S (S (S (S (S (S (S (S
             (S (S (S (S (S (S (S (S (S (S (S (S (S (S (S (S (S (S (S (S (S
             (S (S (S (S (S (S (S (S (S (S (S (S (S (S (S (S (S (S (S (S (S
             (S (S (S (S (S (S (S (S (S (S (S (S (S (S (S (S (S (S (S (S (S
             O)))))))))))))))))))))))))))))))))))))))))))))))))))))))))))))))))))))))))))))))))))))))))))))))))))))))))))))))))))))))))))))))))))))))))))))))))))))))))))))))))))))))))) :: ((IReturn
           (t (S (S (S (S (S (S (S (S (S (S (S (S (S (S (S (S (S (S (S (S (S
             (S (S (S (S (S (S (S (S (S (S (S (S (S (S (S (S (S (S (S (S (S
             (S (S (S (S (S (S (S (S (S (S (S (S (S (S (S (S (S (S (S (S (S
             (S (S (S (S (S (S (S (S (S (S (S (S (S (S (S (S (S (S (S (S (S
             (S (S (S (S (S (S (S (S (S (S (S (S (S (S (S (S (S (S (S (S (S
             (S (S (S (S (S (S (S (S (S (S (S (S (S (S (S (S (S (S (S (S (S
             (S (S (S (S (S (S (S (S (S (S (S (S (S (S (S (S (S (S (S (S (S
             (S (S (S (S (S (S (S (S (S (S (S (S (S
             O)))))))))))))))))))))))))))))))))))))))))))))))))))))))))))))))))))))))))))))))))))))))))))))))))))))))))))))))))))))))))))))))))))))))))))))))))))))))))))))))))) :: [])))))))
   | ArchiveRetrieve ->
     app ((IAsarray (O, O, false)) :: ((IOp ((t O), (O :: []), (S (S (S (S (S
       (S (S (S (S (S (S (S (S (S (S (S O)))))))))))))))))) :: []))
       (app
         (store_retrieve (t O) (S (S (S (S (S (S (S (S (S (S O)))))))))) true)
         (app ((IOp
           ((t (S (S (S (S (S (S (S (S (S (S (S (S (S (S (S (S (S (S (S (S
              O))))))))))))))))))))),
           ((t (S (S (S (S (S (S (S (S (S (S (S O)))))))))))) :: []), (S (S
           (S (S (S (S (S (S (S (S (S (S (S (S (S (S (S
           O))))))))))))))))))) :: [])
           (app
             (flat_map (fun r -> (IInplace (r,
               ((t (S (S (S (S (S (S (S (S (S (S (S (S (S (S (S (S (S (S (S
                  (S O))))))))))))))))))))) :: []), (S (S (S (S (S (S (S (S
               (S (S (S (S (S (S (S (S (S (S O)))))))))))))))))))) :: [])
               ((t
                  (add (S (S (S (S (S (S (S (S (S (S (S (S O))))))))))))
                    f_solution)) :: ((t
                                       (add (S (S (S (S (S (S (S (S (S (S (S
                                         (S O)))))))))))) f_objective)) :: (
               (t
                 (add (S (S (S (S (S (S (S (S (S (S (S (S O))))))))))))
                   f_measures)) :: ((t
                                      (add (S (S (S (S (S (S (S (S (S (S (S
                                        (S O)))))))))))) f_threshold)) :: (
               (t
                 (add (S (S (S (S (S (S (S (S (S (S (S (S O))))))))))))
                   f_extra)) :: ((t (S (S (S (S (S (S (S (S (S (S (S (S (S (S
                                   (S (S (S O)))))))))))))))))) :: [])))))))
             (map (fun x -> IReturn x)
               ((t (S (S (S (S (S (S (S (S (S (S (S O)))))))))))) :: (
               (t
                 (add (S (S (S (S (S (S (S (S (S (S (S (S O))))))))))))
                   f_solution)) :: ((t
                                      (add (S (S (S (S (S (S (S (S (S (S (S
                                        (S O)))))))))))) f_objective)) :: (
               (t
                 (add (S (S (S (S (S (S (S (S (S (S (S (S O))))))))))))
                   f_measures)) :: ((t
                                      (add (S (S (S (S (S (S (S (S (S (S (S
                                        (S O)))))))))))) f_threshold)) :: (
               (t
                 (add (S (S (S (S (S (S (S (S (S (S (S (S O))))))))))))
                   f_extra)) :: ((t (S (S (S (S (S (S (S (S (S (S (S (S (S (S
                                   (S (S (S O)))))))))))))))))) :: [])))))))))))
   | ArchiveRetrieveSingle ->
     app ((IAsarray (O, O, false)) :: ((IView ((t (S O)), O, true)) :: ((IOp
       ((t O), ((t (S O)) :: []), (S (S (S (S (S (S (S (S (S (S (S (S (S (S
       (S (S O)))))))))))))))))) :: [])))
       (app
         (store_retrieve (t O) (S (S (S (S (S (S (S (S (S (S O)))))))))) true)
         (app ((IOp
           ((t (S (S (S (S (S (S (S (S (S (S (S (S (S (S (S (S (S (S (S (S
              O))))))))))))))))))))),
           ((t (S (S (S (S (S (S (S (S (S (S (S O)))))))))))) :: []), (S (S
           (S (S (S (S (S (S (S (S (S (S (S (S (S (S (S
           O))))))))))))))))))) :: [])
           (app
             (flat_map (fun r -> (IInplace (r,
               ((t (S (S (S (S (S (S (S (S (S (S (S (S (S (S (S (S (S (S (S
                  (S O))))))))))))))))))))) :: []), (S (S (S (S (S (S (S (S
               (S (S (S (S (S (S (S (S (S (S O)))))))))))))))))))) :: [])
               ((t
                  (add (S (S (S (S (S (S (S (S (S (S (S (S O))))))))))))
                    f_solution)) :: ((t
                                       (add (S (S (S (S (S (S (S (S (S (S (S
                                         (S O)))))))))))) f_objective)) :: (
               (t
                 (add (S (S (S (S (S (S (S (S (S (S (S (S O))))))))))))
                   f_measures)) :: ((t
                                      (add (S (S (S (S (S (S (S (S (S (S (S
                                        (S O)))))))))))) f_threshold)) :: (
               (t
                 (add (S (S (S (S (S (S (S (S (S (S (S (S O))))))))))))
                   f_extra)) :: ((t (S (S (S (S (S (S (S (S (S (S (S (S (S (S
                                   (S (S (S O)))))))))))))))))) :: [])))))))
             (app ((ICopy
               ((t (S (S (S (S (S (S (S (S (S (S (S (S (S (S (S (S (S (S (S
                  (S (S (S (S (S (S (S (S (S (S (S
                  O))))))))))))))))))))))))))))))),
               (t (S (S (S (S (S (S (S (S (S (S (S O)))))))))))))) :: ((IView
               ((t (S (S (S (S (S (S (S (S (S (S (S (S (S (S (S (S (S (S (S
                  (S (S (S (S (S (S (S (S (S (S (S (S
                  O)))))))))))))))))))))))))))))))),
               (t
                 (add (S (S (S (S (S (S (S (S (S (S (S (S O))))))))))))
                   f_solution)), true)) :: ((ICopy
               ((t (S (S (S (S (S (S (S (S (S (S (S (S (S (S (S (S (S (S (S
                  (S (S (S (S (S (S (S (S (S (S (S (S (S
                  O))))))))))))))))))))))))))))))))),
               (t
                 (add (S (S (S (S (S (S (S (S (S (S (S (S O))))))))))))
                   f_objective)))) :: ((IView
               ((t (S (S (S (S (S (S (S (S (S (S (S (S (S (S (S (S (S (S (S
                  (S (S (S (S (S (S (S (S (S (S (S (S (S (S
                  O)))))))))))))))))))))))))))))))))),
               (t
                 (add (S (S (S (S (S (S (S (S (S (S (S (S O))))))))))))
                   f_measures)), true)) :: ((IView
               ((t (S (S (S (S (S (S (S (S (S (S (S (S (S (S (S (S (S (S (S
                  (S (S (S (S (S (S (S (S (S (S (S (S (S (S (S
                  O))))))))))))))))))))))))))))))))))),
               (t
                 (add (S (S (S (S (S (S (S (S (S (S (S (S O))))))))))))
                   f_extra)), true)) :: [])))))
               (map (fun x -> IReturn x)
                 ((t (S (S (S (S (S (S (S (S (S (S (S (S (S (S (S (S (S (S (S
                    (S (S (S (S (S (S (S (S (S (S (S
                    O))))))))))))))))))))))))))))))) :: ((t (S (S (S (S (S (S
                                                           (S (S (S (S (S (S
                                                           (S (S (S (S (S (S
                                                           (S (S (S (S (S (S
                                                           (S (S (S (S (S (S
                                                           (S
                                                           O)))))))))))))))))))))))))))))))) :: (
                 (t (S (S (S (S (S (S (S (S (S (S (S (S (S (S (S (S (S (S (S
                   (S (S (S (S (S (S (S (S (S (S (S (S (S
                   O))))))))))))))))))))))))))))))))) :: ((t (S (S (S (S (S
                                                            (S (S (S (S (S (S
                                                            (S (S (S (S (S (S
                                                            (S (S (S (S (S (S
                                                            (S (S (S (S (S (S
                                                            (S (S (S (S
                                                            O)))))))))))))))))))))))))))))))))) :: (
                 (t (S (S (S (S (S (S (S (S (S (S (S (S (S (S (S (S (S (S (S
                   (S (S (S (S (S (S (S (S (S (S (S (S (S (S (S
                   O))))))))))))))))))))))))))))))))))) :: []))))))))))
   | SampleElites ->
     app ((IGetSelf ((t (S O)), f_olist)) :: ((IView ((t (S O)), (t (S O)),
       true)) :: ((IReadonly ((t (S O)), (t (S O)))) :: ((IOp ((t (S (S O))),
       [], (S (S (S (S (S (S (S (S (S (S (S (S (S (S (S (S (S (S (S
       O))))))))))))))))))))) :: ((IOp ((t (S (S (S O)))),
       ((t (S O)) :: ((t (S (S O))) :: [])), (S O))) :: [])))))
       (app
         (store_retrieve (t (S (S (S O)))) (S (S (S (S (S (S (S (S (S (S
           O)))))))))) true)
         (map (fun x -> IReturn x)
           ((t
              (add (S (S (S (S (S (S (S (S (S (S (S (S O))))))))))))
                f_solution)) :: ((t
                                   (add (S (S (S (S (S (S (S (S (S (S (S (S
                                     O)))))))))))) f_objective)) :: (
           (t
             (add (S (S (S (S (S (S (S (S (S (S (S (S O))))))))))))
               f_measures)) :: ((t
                                  (add (S (S (S (S (S (S (S (S (S (S (S (S
                                    O)))))))))))) f_threshold)) :: ((t
                                                                    (add (S
                                                                    (S (S (S
                                                                    (S (S (S
                                                                    (S (S (S
                                                                    (S (S
                                                                    O))))))))))))
                                                                    f_extra)) :: (
           (t (S (S (S (S (S (S (S (S (S (S (S (S (S (S (S (S (S
             O)))))))))))))))))) :: []))))))))
   | ArchiveData ->
     app ((IGetSelf ((t (S O)), f_olist)) :: ((IView ((t (S O)), (t (S O)),
       true)) :: ((IReadonly ((t (S O)), (t (S O)))) :: [])))
       (app
         (store_retrieve (t (S O)) (S (S (S (S (S (S (S (S (S (S O))))))))))
           true)
         (match variant with
          | O ->
            (IReturn
              (t
                (add (S (S (S (S (S (S (S (S (S (S (S (S O))))))))))))
                  f_solution))) :: ((IReturn
              (t
                (add (S (S (S (S (S (S (S (S (S (S (S (S O))))))))))))
                  f_objective))) :: ((IReturn
              (t
                (add (S (S (S (S (S (S (S (S (S (S (S (S O))))))))))))
                  f_measures))) :: ((IReturn
              (t
                (add (S (S (S (S (S (S (S (S (S (S (S (S O))))))))))))
                  f_threshold))) :: ((IReturn
              (t
                (add (S (S (S (S (S (S (S (S (S (S (S (S O))))))))))))
                  f_extra))) :: ((IReturn
              (t (S (S (S (S (S (S (S (S (S (S (S (S (S (S (S (S (S
                O))))))))))))))))))) :: [])))))
          | S n ->
            (match n with
             | O ->
               (IReturn
                 (t
                   (add (S (S (S (S (S (S (S (S (S (S (S (S O))))))))))))
                     f_solution))) :: ((IReturn
                 (t
                   (add (S (S (S (S (S (S (S (S (S (S (S (S O))))))))))))
                     f_objective))) :: ((IReturn
                 (t
                   (add (S (S (S (S (S (S (S (S (S (S (S (S O))))))))))))
                     f_measures))) :: ((IReturn
                 (t
                   (add (S (S (S (S (S (S (S (S (S (S (S (S O))))))))))))
                     f_threshold))) :: ((IReturn
                 (t
                   (add (S (S (S (S (S (S (S (S (S (S (S (S O))))))))))))
                     f_extra))) :: ((IReturn
                 (t (S (S (S (S (S (S (S (S (S (S (S (S (S (S (S (S (S
                   O))))))))))))))))))) :: [])))))
             | S n0 ->
               (match n0 with
                | O ->
                  (IView
                    ((t (S (S (S (S (S (S (S (S (S (S (S (S (S (S (S (S (S (S
                       (S (S (S (S (S (S (S (S (S (S (S (S
                       O))))))))))))))))))))))))))))))),
                    (t
                      (add (S (S (S (S (S (S (S (S (S (S (S (S O))))))))))))
                        f_solution)), false)) :: ((IView
                    ((t (S (S (S (S (S (S (S (S (S (S (S (S (S (S (S (S (S (S
                       (S (S (S (S (S (S (S (S (S (S (S (S (S
                       O)))))))))))))))))))))))))))))))),
                    (t
                      (add (S (S (S (S (S (S (S (S (S (S (S (S O))))))))))))
                        f_measures)), false)) :: ((IReturn
                    (t (S (S (S (S (S (S (S (S (S (S (S (S (S (S (S (S (S (S
                      (S (S (S (S (S (S (S (S (S (S (S (S
                      O)))))))))))))))))))))))))))))))) :: ((IReturn
                    (t (S (S (S (S (S (S (S (S (S (S (S (S (S (S (S (S (S (S
                      (S (S (S (S (S (S (S (S (S (S (S (S (S
                      O))))))))))))))))))))))))))))))))) :: ((IReturn
                    (t
                      (add (S (S (S (S (S (S (S (S (S (S (S (S O))))))))))))
                        f_objective))) :: ((IReturn
                    (t (S (S (S (S (S (S (S (S (S (S (S (S (S (S (S (S (S
                      O))))))))))))))))))) :: ((ICopy
                    ((t (S (S (S (S (S (S (S (S (S (S (S (S (S (S (S (S (S (S
                       (S (S (S (S (S (S (S (S (S (S (S (S (S (S
                       O))))))))))))))))))))))))))))))))),
                    (t (S (S (S (S (S (S (S (S (S (S (S (S (S (S (S (S (S (S
                      (S (S (S (S (S (S (S (S (S (S (S (S
                      O))))))))))))))))))))))))))))))))) :: ((IReturn
                    (t (S (S (S (S (S (S (S (S (S (S (S (S (S (S (S (S (S (S
                      (S (S (S (S (S (S (S (S (S (S (S (S (S (S
                      O)))))))))))))))))))))))))))))))))) :: [])))))))
                | S n1 ->
                  (match n1 with
                   | O ->
                     (IReturn
                       (t
                         (add (S (S (S (S (S (S (S (S (S (S (S (S
                           O)))))))))))) f_solution))) :: []
                   | S _ ->
                     (IReturn
                       (t
                         (add (S (S (S (S (S (S (S (S (S (S (S (S
                           O)))))))))))) f_solution))) :: ((IReturn
                       (t
                         (add (S (S (S (S (S (S (S (S (S (S (S (S
                           O)))))))))))) f_objective))) :: ((IReturn
                       (t
                         (add (S (S (S (S (S (S (S (S (S (S (S (S
                           O)))))))))))) f_measures))) :: ((IReturn
                       (t
                         (add (S (S (S (S (S (S (S (S (S (S (S (S
                           O)))))))))))) f_threshold))) :: ((IReturn
                       (t
                         (add (S (S (S (S (S (S (S (S (S (S (S (S
                           O)))))))))))) f_extra))) :: ((IReturn
                       (t (S (S (S (S (S (S (S (S (S (S (S (S (S (S (S (S (S
                         O))))))))))))))))))) :: []))))))))))
   | BestElite ->
     if Nat.eqb variant O
     then (IGetSelf ((t (S O)), f_i6)) :: ((IReturn (t (S O))) :: [])
     else []
   | ArchiveIter ->
     app ((IGetSelf ((t (S O)), f_olist)) :: ((ICopy ((t (S (S O))),
       (t (S O)))) :: ((IGetSelf ((t (S (S (S O)))),
       f_solution)) :: ((IGetSelf ((t (S (S (S (S O))))),
       f_objective)) :: ((IGetSelf ((t (S (S (S (S (S O)))))),
       f_measures)) :: ((IGetSelf ((t (S (S (S (S (S (S O))))))),
       f_extra)) :: []))))))
       (app
         (if copy
          then (ICopy ((t (S (S (S O)))), (t (S (S (S O)))))) :: ((ICopy
                 ((t (S (S (S (S (S O)))))),
                 (t (S (S (S (S (S O)))))))) :: ((ICopy
                 ((t (S (S (S (S (S (S O))))))),
                 (t (S (S (S (S (S (S O))))))))) :: []))
          else (IView ((t (S (S (S O)))), (t (S (S (S O)))),
                 true)) :: ((IView ((t (S (S (S (S (S O)))))),
                 (t (S (S (S (S (S O)))))), true)) :: ((IView
                 ((t (S (S (S (S (S (S O))))))),
                 (t (S (S (S (S (S (S O))))))), true)) :: []))) ((ICopy
         ((t (S (S (S (S O))))), (t (S (S (S (S O))))))) :: ((IReturn
         (t (S (S O)))) :: ((IReturn (t (S (S (S O))))) :: ((IReturn
         (t (S (S (S (S O)))))) :: ((IReturn
         (t (S (S (S (S (S O))))))) :: ((IReturn
         (t (S (S (S (S (S (S O)))))))) :: [])))))))
   | IndexOf ->
     app ((IAsarray (O, O, false)) :: [])
       (app
         (match variant with
          | O ->
            (IOp ((t (S O)), (O :: []), (S (S (S (S (S (S (S (S (S (S (S (S
              (S (S (S (S (S (S (S (S (S (S (S (S (S (S (S (S (S (S (S (S (S
              (S (S (S (S (S (S (S (S (S (S (S (S (S (S (S (S (S (S (S (S (S
              (S (S (S (S (S (S (S (S (S (S (S (S (S (S (S (S (S (S (S (S (S
              (S
              O)))))))))))))))))))))))))))))))))))))))))))))))))))))))))))))))))))))))))))))) :: ((IOp
              ((t (S (S (S (S O))))), ((t (S O)) :: []), (S (S (S (S (S (S (S
              (S (S (S (S (S (S (S (S (S (S (S (S (S (S (S (S (S (S (S (S (S
              (S (S (S (S (S (S (S (S (S (S (S (S (S (S (S (S (S (S (S (S (S
              (S (S (S (S (S (S (S (S (S (S (S (S (S (S (S (S (S (S (S (S (S
              (S (S (S (S (S (S (S
              O))))))))))))))))))))))))))))))))))))))))))))))))))))))))))))))))))))))))))))))) :: [])
          | S n ->
            (match n with
             | O ->
               (IGetSelf ((t (S (S O))), f_i5)) :: ((IOp ((t (S (S (S O)))),
                 (O :: ((t (S (S O))) :: [])), (S (S (S (S (S (S (S (S (S (S
                 (S (S (S (S (S (S (S (S (S (S (S (S (S (S (S (S (S (S (S (S
                 (S (S (S (S (S (S (S (S (S (S (S (S (S (S (S (S (S (S (S (S
                 (S (S (S (S (S (S (S (S (S (S (S (S (S (S (S (S (S (S (S (S
                 (S (S
                 O)))))))))))))))))))))))))))))))))))))))))))))))))))))))))))))))))))))))))) :: ((IOp
                 ((t (S (S (S (S O))))), ((t (S (S (S O)))) :: []), (S (S (S
                 (S (S (S (S (S (S (S (S (S (S (S (S (S (S (S (S (S (S (S (S
                 (S (S (S (S (S (S (S (S (S (S (S (S (S (S (S (S (S (S (S (S
                 (S (S (S (S (S (S (S (S (S (S (S (S (S (S (S (S (S (S (S (S
                 (S (S (S (S (S (S (S (S (S (S
                 O))))))))))))))))))))))))))))))))))))))))))))))))))))))))))))))))))))))))))) :: []))
             | S n0 ->
               (match n0 with
                | O ->
                  (IView ((t (S O)), O, true)) :: ((IGetSelf ((t (S (S O))),
                    f_i0)) :: ((IOp ((t (S (S (S O)))),
                    ((t (S O)) :: ((t (S (S O))) :: [])), (S (S (S (S (S (S
                    (S (S (S (S (S (S (S (S (S (S (S (S (S (S (S (S (S (S (S
                    (S (S (S (S (S (S (S (S (S (S (S (S (S (S (S (S (S (S (S
                    (S (S (S (S (S (S (S (S (S (S (S (S (S (S (S (S (S (S (S
                    (S (S (S (S (S (S (S
                    O)))))))))))))))))))))))))))))))))))))))))))))))))))))))))))))))))))))))) :: ((IOp
                    ((t (S (S (S (S O))))), ((t (S (S (S O)))) :: []), (S (S
                    (S (S (S (S (S (S (S (S (S (S (S (S (S (S (S (S (S (S (S
                    (S (S (S (S (S (S (S (S (S (S (S (S (S (S (S (S (S (S (S
                    (S (S (S (S (S (S (S (S (S (S (S (S (S (S (S (S (S (S (S
                    (S (S (S (S (S (S (S (S (S (S (S (S
                    O))))))))))))))))))))))))))))))))))))))))))))))))))))))))))))))))))))))))) :: [])))
                | S n1 ->
                  (match n1 with
                   | O ->
                     (IOp ((t (S O)), (O :: []), (S (S (S (S (S (S (S (S (S
                       (S (S (S (S (S (S (S (S (S (S (S (S (S (S (S (S (S (S
                       (S (S (S (S (S (S (S (S (S (S (S (S (S (S (S (S (S (S
                       (S (S (S (S (S (S (S (S (S (S (S (S (S (S (S (S (S (S
                       (S (S (S (S (S (S (S (S (S (S (S
                       O)))))))))))))))))))))))))))))))))))))))))))))))))))))))))))))))))))))))))))) :: ((IView
                       ((t (S (S O))), (t (S O)), false)) :: ((IOp
                       ((t (S (S (S (S O))))), ((t (S (S O))) :: []), (S (S
                       (S (S (S (S (S (S (S (S (S (S (S (S (S (S (S (S (S (S
                       (S (S (S (S (S (S (S (S (S (S (S (S (S (S (S (S (S (S
                       (S (S (S (S (S (S (S (S (S (S (S (S (S (S (S (S (S (S
                       (S (S (S (S (S (S (S (S (S (S (S (S (S (S (S (S (S (S
                       (S
                       O))))))))))))))))))))))))))))))))))))))))))))))))))))))))))))))))))))))))))))) :: []))
                   | S n2 ->
                     (match n2 with
                      | O ->
                        (IGetSelf ((t (S (S O))), f_i5)) :: ((IOp
                          ((t (S (S (S O)))), (O :: ((t (S (S O))) :: [])),
                          (S (S (S (S (S (S (S (S (S (S (S (S (S (S (S (S (S
                          (S (S (S (S (S (S (S (S (S (S (S (S (S (S (S (S (S
                          (S (S (S (S (S (S (S (S (S (S (S (S (S (S (S (S (S
                          (S (S (S (S (S (S (S (S (S (S (S (S (S (S (S (S (S
                          (S (S (S (S
                          O)))))))))))))))))))))))))))))))))))))))))))))))))))))))))))))))))))))))))) :: ((IOp
                          ((t (S (S (S (S O))))), ((t (S (S (S O)))) :: []),
                          (S (S (S (S (S (S (S (S (S (S (S (S (S (S (S (S (S
                          (S (S (S (S (S (S (S (S (S (S (S (S (S (S (S (S (S
                          (S (S (S (S (S (S (S (S (S (S (S (S (S (S (S (S (S
                          (S (S (S (S (S (S (S (S (S (S (S (S (S (S (S (S (S
                          (S (S (S (S (S
                          O))))))))))))))))))))))))))))))))))))))))))))))))))))))))))))))))))))))))))) :: []))
                      | S _ ->
                        (IOp ((t (S O)), (O :: []), (S (S (S (S (S (S (S (S
                          (S (S (S (S (S (S (S (S (S (S (S (S (S (S (S (S (S
                          (S (S (S (S (S (S (S (S (S (S (S (S (S (S (S (S (S
                          (S (S (S (S (S (S (S (S (S (S (S (S (S (S (S (S (S
                          (S (S (S (S (S (S (S (S (S (S (S (S (S (S (S (S (S
                          O)))))))))))))))))))))))))))))))))))))))))))))))))))))))))))))))))))))))))))))) :: ((IOp
                          ((t (S (S (S (S O))))), ((t (S O)) :: []), (S (S (S
                          (S (S (S (S (S (S (S (S (S (S (S (S (S (S (S (S (S
                          (S (S (S (S (S (S (S (S (S (S (S (S (S (S (S (S (S
                          (S (S (S (S (S (S (S (S (S (S (S (S (S (S (S (S (S
                          (S (S (S (S (S (S (S (S (S (S (S (S (S (S (S (S (S
                          (S (S (S (S (S (S
                          O))))))))))))))))))))))))))))))))))))))))))))))))))))))))))))))))))))))))))))))) :: []))))))
         ((IReturn (t (S (S (S (S O)))))) :: []))
   | IndexOfSingle ->
     (IAsarray (O, O, false)) :: ((IView ((t (S O)), O, true)) :: ((IAsarray
       ((t (S O)), (t (S O)), false)) :: ((IOp ((t (S (S (S O)))),
       ((t (S O)) :: []), (S (S (S (S (S (S (S (S (S (S (S (S (S (S (S (S
       O)))))))))))))))))) :: ((ICopy ((t (S (S (S (S O))))),
       (t (S (S (S O)))))) :: ((IReturn (t (S (S (S (S O)))))) :: [])))))
   | CVTCtorCentroids ->
     app
       (if copy
        then (ICopy ((t (S O)), O)) :: []
        else (IAsarray ((t (S O)), O, true)) :: []) ((ISetSelf (f_new0,
       (t (S O)))) :: ((IView ((t (S (S O))), (t (S O)), true)) :: ((ISetSelf
       (f_new1, (t (S (S O))))) :: [])))
   | CVTCtorSamples ->
     app
       (if copy
        then (ICopy ((t (S O)), O)) :: []
        else (IAsarray ((t (S O)), O, true)) :: []) ((ISetSelf (f_new0,
       (t (S O)))) :: ((IOp ((t (S (S O))), ((t (S O)) :: []), (S (S (S (S (S
       (S (S (S (S (S (S (S (S (S (S (S (S (S (S (S (S (S (S (S (S (S (S (S
       (S (S (S (S (S (S (S (S (S (S (S (S (S (S (S (S (S (S (S (S (S (S (S
       (S (S (S (S (S (S (S (S (S (S (S (S (S (S (S (S (S (S (S (S (S (S (S
       (S (S (S (S (S (S
       O)))))))))))))))))))))))))))))))))))))))))))))))))))))))))))))))))))))))))))))))))) :: ((ISetSelf
       (f_new1, (t (S (S O))))) :: ((IView ((t (S (S (S O)))), (t (S (S O))),
       true)) :: ((ISetSelf (f_new2, (t (S (S (S O)))))) :: [])))))
   | GridCtor ->
     (ICopy ((t (S O)), O)) :: ((ISetSelf (f_new0, (t (S O)))) :: ((IOp
       ((t (S (S O))), ((S O) :: []), (S (S (S (S (S (S (S (S (S (S (S (S (S
       (S (S (S (S (S (S (S (S (S (S (S (S (S (S (S (S (S (S (S (S (S (S (S
       (S (S (S (S (S (S (S (S (S (S (S (S (S (S (S (S (S (S (S (S (S (S (S
       (S (S (S (S (S (S (S (S (S (S (S (S (S (S (S (S (S (S (S (S (S (S
       O))))))))))))))))))))))))))))))))))))))))))))))))))))))))))))))))))))))))))))))))))) :: ((IOp
       ((t (S (S (S O)))), ((S O) :: []), (S (S (S (S (S (S (S (S (S (S (S (S
       (S (S (S (S (S (S (S (S (S (S (S (S (S (S (S (S (S (S (S (S (S (S (S
       (S (S (S (S (S (S (S (S (S (S (S (S (S (S (S (S (S (S (S (S (S (S (S
       (S (S (S (S (S (S (S (S (S (S (S (S (S (S (S (S (S (S (S (S (S (S (S
       O))))))))))))))))))))))))))))))))))))))))))))))))))))))))))))))))))))))))))))))))))) :: ((ISetSelf
       (f_new1, (t (S (S O))))) :: ((ISetSelf (f_new2,
       (t (S (S (S O)))))) :: ((IOp ((t (S (S (S (S O))))),
       ((t (S (S O))) :: ((t (S (S (S O)))) :: [])), (S (S (S (S (S (S (S (S
       (S (S (S (S (S (S (S (S (S (S (S (S (S (S (S (S (S (S (S (S (S (S (S
       (S (S (S (S (S (S (S (S (S (S (S (S (S (S (S (S (S (S (S (S (S (S (S
       (S (S (S (S (S (S (S (S (S (S (S (S (S (S (S (S (S (S (S (S (S (S (S
       (S (S (S (S (S
       O)))))))))))))))))))))))))))))))))))))))))))))))))))))))))))))))))))))))))))))))))))) :: ((ISetSelf
       (f_new3, (t (S (S (S (S O))))))) :: [])))))))
   | CqdScore ->
     (ICopy ((t (S O)), O)) :: ((ICopy ((t (S (S O))), (S O))) :: ((IGetSelf
       ((t (S (S (S O)))), f_objective)) :: ((IOp ((t (S (S (S (S O))))),
       ((t (S (S (S O)))) :: []), (S O))) :: ((IOp
       ((t (S (S (S (S (S O)))))),
       ((t (S (S (S (S O))))) :: ((t (S O)) :: ((t (S (S O))) :: []))), (S (S
       (S (S (S (S (S (S (S (S (S (S (S (S (S (S (S (S (S (S (S (S (S (S (S
       (S (S (S (S (S (S (S (S (S (S (S (S (S (S (S (S (S (S (S (S (S (S (S
       (S (S (S (S (S (S (S (S (S (S (S (S (S (S (S (S (S (S (S (S (S (S (S
       (S (S (S (S (S (S (S (S (S (S (S (S
       O))))))))))))))))))))))))))))))))))))))))))))))))))))))))))))))))))))))))))))))))))))) :: ((IReturn
       (t (S (S (S (S (S O))))))) :: ((IReturn (t (S O))) :: ((IReturn
       (t (S (S O)))) :: [])))))))
   | ComputeNovelty ->
     app ((IAsarray (O, O, false)) :: [])
       (app
         (if Nat.eqb variant (S O)
          then (IAsarray ((S O), (S O), false)) :: []
          else [])
         (app ((IGetSelf ((t (S O)), f_i5)) :: ((IOp ((t (S (S O))),
           (O :: ((t (S O)) :: [])), (S (S (S (S (S (S (S (S (S (S (S (S (S
           (S (S (S (S (S (S (S (S (S (S (S (S (S (S (S (S (S (S (S (S (S (S
           (S (S (S (S (S (S (S (S (S (S (S (S (S (S (S (S (S (S (S (S (S (S
           (S (S (S (S (S (S (S (S (S (S (S (S (S (S (S
           O)))))))))))))))))))))))))))))))))))))))))))))))))))))))))))))))))))))))))) :: ((IOp
           ((t (S (S (S O)))), ((t (S (S O))) :: []), (S (S (S (S (S (S (S (S
           (S (S (S (S (S (S (S (S (S (S (S (S (S (S (S (S (S (S (S (S (S (S
           (S (S (S (S (S (S (S (S (S (S (S (S (S (S (S (S (S (S (S (S (S (S
           (S (S (S (S (S (S (S (S (S (S (S (S (S (S (S (S (S (S (S (S (S (S
           (S (S (S (S (S (S (S (S (S (S
           O)))))))))))))))))))))))))))))))))))))))))))))))))))))))))))))))))))))))))))))))))))))) :: ((IReturn
           (t (S (S (S O))))) :: []))))
           (if Nat.eqb variant (S O)
            then (IOp ((t (S (S (S (S O))))), ((S
                   O) :: ((t (S (S O))) :: [])), (S (S (S (S (S (S (S (S (S
                   (S (S (S (S (S (S (S (S (S (S (S (S (S (S (S (S (S (S (S
                   (S (S (S (S (S (S (S (S (S (S (S (S (S (S (S (S (S (S (S
                   (S (S (S (S (S (S (S (S (S (S (S (S (S (S (S (S (S (S (S
                   (S (S (S (S (S (S (S (S (S (S (S (S (S (S (S (S (S (S (S
                   O))))))))))))))))))))))))))))))))))))))))))))))))))))))))))))))))))))))))))))))))))))))) :: ((IReturn
                   (t (S (S (S (S O)))))) :: [])
            else [])))
   | GaussianCtor ->
     app ((ICopy
       ((t (S (S (S (S (S (S (S (S (S (S (S (S (S (S (S (S (S (S (S
          O)))))))))))))))))))), O)) :: ((ISetSelf (f_new4,
       (t (S (S (S (S (S (S (S (S (S (S (S (S (S (S (S (S (S (S (S
         O)))))))))))))))))))))) :: []))
       (app (emitter_start copy (Nat.eqb variant (S O)) (S O))
         (emitter_bounds (S (S O))))
   | IsoLineCtor ->
     app (emitter_start copy (Nat.eqb variant (S O)) O) (emitter_bounds (S O))
   | ESCtor ->
     app (emitter_start copy false O)
       (app (emitter_bounds (S O)) ((IGetSelf
         ((t (S (S (S (S (S (S (S (S (S (S (S (S (S (S (S (S (S (S (S (S (S
            (S (S O)))))))))))))))))))))))), f_new0)) :: ((ICopy
         ((t (S (S (S (S (S (S (S (S (S (S (S (S (S (S (S (S (S (S (S (S (S
            (S (S (S O))))))))))))))))))))))))),
         (t (S (S (S (S (S (S (S (S (S (S (S (S (S (S (S (S (S (S (S (S (S (S
           (S O)))))))))))))))))))))))))) :: ((ISetSelf (f_new4,
         (t (S (S (S (S (S (S (S (S (S (S (S (S (S (S (S (S (S (S (S (S (S (S
           (S (S O))))))))))))))))))))))))))) :: []))))
   | GAECtor ->
     app (emitter_start copy false O) ((IGetSelf
       ((t (S (S (S (S (S (S (S (S (S (S (S (S (S (S (S (S (S (S (S (S (S (S
          (S O)))))))))))))))))))))))), f_new0)) :: ((ICopy
       ((t (S (S (S (S (S (S (S (S (S (S (S (S (S (S (S (S (S (S (S (S (S (S
          (S (S O))))))))))))))))))))))))),
       (t (S (S (S (S (S (S (S (S (S (S (S (S (S (S (S (S (S (S (S (S (S (S
         (S O)))))))))))))))))))))))))) :: ((ISetSelf (f_new4,
       (t (S (S (S (S (S (S (S (S (S (S (S (S (S (S (S (S (S (S (S (S (S (S
         (S (S O))))))))))))))))))))))))))) :: [])))
   | GOECtor ->
     app (emitter_start copy (Nat.eqb variant (S O)) O)
       (app (emitter_bounds (S O)) ((ICopy
         ((t (S (S (S (S (S (S (S (S (S (S (S (S (S (S (S (S (S (S (S
            O)))))))))))))))))))), (S (S O)))) :: ((ISetSelf (f_new4,
         (t (S (S (S (S (S (S (S (S (S (S (S (S (S (S (S (S (S (S (S
           O)))))))))))))))))))))) :: [])))
   | GACtor ->
     app (emitter_start copy (Nat.eqb variant (S O)) O)
       (app (emitter_bounds (S O))
         (app
           (if copy
            then (ICopy
                   ((t (S (S (S (S (S (S (S (S (S (S (S (S (S (S (S (S (S (S
                      (S O)))))))))))))))))))), (S (S O)))) :: []
            else (IMove
                   ((t (S (S (S (S (S (S (S (S (S (S (S (S (S (S (S (S (S (S
                      (S O)))))))))))))))))))), (S (S O)))) :: []) ((ISetSelf
           (f_new4,
           (t (S (S (S (S (S (S (S (S (S (S (S (S (S (S (S (S (S (S (S
             O)))))))))))))))))))))) :: [])))
   | BaseTell -> emitter_tell O false (seq O nargs)
   | ESTell -> emitter_tell (S O) (Nat.eqb variant (S O)) (seq O nargs)
   | GAETell -> emitter_tell (S (S O)) (Nat.eqb variant (S O)) (seq O nargs)
   | GAETellDqd ->
     tell_dqd copy (Nat.eqb variant (S O)) (seq O nargs) (S (S (S O)))
   | GOETellDqd ->
     tell_dqd copy (Nat.eqb variant (S O)) (seq O nargs) (S (S (S O)))
   | SchedTell ->
     let ev = opt_ev e nargs (S (S O)) in
     app ((IAsarray (O, O, false)) :: ((IAsarray ((S O), (S O),
       false)) :: []))
       (app
         (match ev with
          | Some r -> (IAsarray (r, r, false)) :: []
          | None -> [])
         (app
           (sched_archive_add copy (Nat.div variant (S (S O)))
             (Nat.eqb (Nat.modulo variant (S (S O))) (S O)) O (S O) ev)
           (app (sched_emitter_slices O (S O) ev)
             (emitter_tell (S O) false
               (app
                 ((t (S (S (S (S (S (S (S (S (S (S (S (S (S (S (S (S (S (S (S
                    (S (S (S (S (S (S (S (S (S (S (S (S (S (S (S (S (S (S (S
                    (S (S (S (S (S (S (S (S (S (S (S (S (S (S (S (S (S (S (S
                    (S (S (S (S (S (S (S (S (S (S (S (S (S (S (S (S (S (S (S
                    (S (S (S (S (S (S (S (S (S (S (S (S (S (S (S (S (S (S (S
                    (S (S (S (S (S (S (S (S (S (S (S (S (S (S (S (S (S (S (S
                    (S (S (S (S (S (S (S (S (S (S (S (S (S (S (S (S
                    O))))))))))))))))))))))))))))))))))))))))))))))))))))))))))))))))))))))))))))))))))))))))))))))))))))))))))))))))))))))))))))))))))) :: (
                 (t (S (S (S (S (S (S (S (S (S (S (S (S (S (S (S (S (S (S (S
                   (S (S (S (S (S (S (S (S (S (S (S (S (S (S (S (S (S (S (S
                   (S (S (S (S (S (S (S (S (S (S (S (S (S (S (S (S (S (S (S
                   (S (S (S (S (S (S (S (S (S (S (S (S (S (S (S (S (S (S (S
                   (S (S (S (S (S (S (S (S (S (S (S (S (S (S (S (S (S (S (S
                   (S (S (S (S (S (S (S (S (S (S (S (S (S (S (S (S (S (S (S
                   (S (S (S (S (S (S (S (S (S (S (S (S (S (S (S (S (S
                   O)))))))))))))))))))))))))))))))))))))))))))))))))))))))))))))))))))))))))))))))))))))))))))))))))))))))))))))))))))))))))))))))))))) :: (
                 (t (S (S (S (S (S (S (S (S (S (S (S (S (S (S (S (S (S (S (S
                   (S (S (S (S (S (S (S (S (S (S (S (S (S (S (S (S (S (S (S
                   (S (S (S (S (S (S (S (S (S (S (S (S (S (S (S (S (S (S (S
                   (S (S (S (S (S (S (S (S (S (S (S (S (S (S (S (S (S (S (S
                   (S (S (S (S (S (S (S (S (S (S (S (S (S (S (S (S (S (S (S
                   (S (S (S (S (S (S (S (S (S (S (S (S (S (S (S (S (S (S (S
                   (S (S (S (S (S (S (S (S (S (S (S (S (S (S (S (S (S (S
                   O))))))))))))))))))))))))))))))))))))))))))))))))))))))))))))))))))))))))))))))))))))))))))))))))))))))))))))))))))))))))))))))))))))) :: (
                 (t (S (S (S (S (S (S (S (S (S (S (S (S (S (S (S (S (S (S (S
                   (S (S (S (S (S (S (S (S (S (S (S (S (S (S (S (S (S (S (S
                   (S (S (S (S (S (S (S (S (S (S (S (S (S (S (S (S (S (S (S
                   (S (S (S (S (S (S (S (S (S (S (S (S (S (S (S (S (S (S (S
                   (S (S (S (S (S (S (S (S (S (S (S (S (S (S (S (S (S (S (S
                   (S (S (S (S (S (S (S (S (S (S (S (S (S (S (S (S (S (S (S
                   (S (S (S (S (S (S (S (S (S (S (S (S (S (S (S (S (S (S (S
                   (S
                   O))))))))))))))))))))))))))))))))))))))))))))))))))))))))))))))))))))))))))))))))))))))))))))))))))))))))))))))))))))))))))))))))))))))) :: (
                 (t (S (S (S (S (S (S (S (S (S (S (S (S (S (S (S (S (S (S (S
                   (S (S (S (S (S (S (S (S (S (S (S (S (S (S (S (S (S (S (S
                   (S (S (S (S (S (S (S (S (S (S (S (S (S (S (S (S (S (S (S
                   (S (S (S (S (S (S (S (S (S (S (S (S (S (S (S (S (S (S (S
                   (S (S (S (S (S (S (S (S (S (S (S (S (S (S (S (S (S (S (S
                   (S (S (S (S (S (S (S (S (S (S (S (S (S (S (S (S (S (S (S
                   (S (S (S (S (S (S (S (S (S (S (S (S (S (S (S (S (S (S (S
                   (S (S
                   O)))))))))))))))))))))))))))))))))))))))))))))))))))))))))))))))))))))))))))))))))))))))))))))))))))))))))))))))))))))))))))))))))))))))) :: [])))))
                 (match ev with
                  | Some _ ->
                    (t (S (S (S (S (S (S (S (S (S (S (S (S (S (S (S (S (S (S
                      (S (S (S (S (S (S (S (S (S (S (S (S (S (S (S (S (S (S
                      (S (S (S (S (S (S (S (S (S (S (S (S (S (S (S (S (S (S
                      (S (S (S (S (S (S (S (S (S (S (S (S (S (S (S (S (S (S
                      (S (S (S (S (S (S (S (S (S (S (S (S (S (S (S (S (S (S
                      (S (S (S (S (S (S (S (S (S (S (S (S (S (S (S (S (S (S
                      (S (S (S (S (S (S (S (S (S (S (S (S (S (S (S (S (S (S
                      (S (S (S (S (S (S (S
                      O)))))))))))))))))))))))))))))))))))))))))))))))))))))))))))))))))))))))))))))))))))))))))))))))))))))))))))))))))))))))))))))))))))))) :: []
                  | None -> []))))))
   | SchedTellDqd ->
     let ev = opt_ev e nargs (S (S (S O))) in
     app ((IAsarray (O, O, false)) :: ((IAsarray ((S O), (S O),
       false)) :: []))
       (app
         (match ev with
          | Some r -> (IAsarray (r, r, false)) :: []
          | None -> [])
         (app ((IAsarray ((S (S O)), (S (S O)), false)) :: [])
           (app
             (sched_archive_add copy (Nat.div variant (S (S O)))
               (Nat.eqb (Nat.modulo variant (S (S O))) (S O)) O (S O) ev)
             (app (sched_emitter_slices O (S O) ev)
               (app ((IView
                 ((t (S (S (S (S (S (S (S (S (S (S (S (S (S (S (S (S (S (S (S
                    (S (S (S (S (S (S (S (S (S (S (S (S (S (S (S (S (S (S (S
                    (S (S (S (S (S (S (S (S (S (S (S (S (S (S (S (S (S (S (S
                    (S (S (S (S (S (S (S (S (S (S (S (S (S (S (S (S (S (S (S
                    (S (S (S (S (S (S (S (S (S (S (S (S (S (S (S (S (S (S (S
                    (S (S (S (S (S (S (S (S (S (S (S (S (S (S (S (S (S (S (S
                    (S (S (S (S (S (S (S (S (S (S (S (S (S (S (S (S (S (S (S
                    (S (S (S
                    O))))))))))))))))))))))))))))))))))))))))))))))))))))))))))))))))))))))))))))))))))))))))))))))))))))))))))))))))))))))))))))))))))))))))),
                 (S (S O)), true)) :: [])
                 (tell_dqd copy true
                   (app
                     ((t (S (S (S (S (S (S (S (S (S (S (S (S (S (S (S (S (S
                        (S (S (S (S (S (S (S (S (S (S (S (S (S (S (S (S (S (S
                        (S (S (S (S (S (S (S (S (S (S (S (S (S (S (S (S (S (S
                        (S (S (S (S (S (S (S (S (S (S (S (S (S (S (S (S (S (S
                        (S (S (S (S (S (S (S (S (S (S (S (S (S (S (S (S (S (S
                        (S (S (S (S (S (S (S (S (S (S (S (S (S (S (S (S (S (S
                        (S (S (S (S (S (S (S (S (S (S (S (S (S (S (S (S (S (S
                        (S (S (S (S (S
                        O))))))))))))))))))))))))))))))))))))))))))))))))))))))))))))))))))))))))))))))))))))))))))))))))))))))))))))))))))))))))))))))))))) :: (
                     (t (S (S (S (S (S (S (S (S (S (S (S (S (S (S (S (S (S (S
                       (S (S (S (S (S (S (S (S (S (S (S (S (S (S (S (S (S (S
                       (S (S (S (S (S (S (S (S (S (S (S (S (S (S (S (S (S (S
                       (S (S (S (S (S (S (S (S (S (S (S (S (S (S (S (S (S (S
                       (S (S (S (S (S (S (S (S (S (S (S (S (S (S (S (S (S (S
                       (S (S (S (S (S (S (S (S (S (S (S (S (S (S (S (S (S (S
                       (S (S (S (S (S (S (S (S (S (S (S (S (S (S (S (S (S (S
                       (S (S (S (S (S
                       O)))))))))))))))))))))))))))))))))))))))))))))))))))))))))))))))))))))))))))))))))))))))))))))))))))))))))))))))))))))))))))))))))))) :: (
                     (t (S (S (S (S (S (S (S (S (S (S (S (S (S (S (S (S (S (S
                       (S (S (S (S (S (S (S (S (S (S (S (S (S (S (S (S (S (S
                       (S (S (S (S (S (S (S (S (S (S (S (S (S (S (S (S (S (S
                       (S (S (S (S (S (S (S (S (S (S (S (S (S (S (S (S (S (S
                       (S (S (S (S (S (S (S (S (S (S (S (S (S (S (S (S (S (S
                       (S (S (S (S (S (S (S (S (S (S (S (S (S (S (S (S (S (S
                       (S (S (S (S (S (S (S (S (S (S (S (S (S (S (S (S (S (S
                       (S (S (S (S (S (S
                       O))))))))))))))))))))))))))))))))))))))))))))))))))))))))))))))))))))))))))))))))))))))))))))))))))))))))))))))))))))))))))))))))))))) :: (
                     (t (S (S (S (S (S (S (S (S (S (S (S (S (S (S (S (S (S (S
                       (S (S (S (S (S (S (S (S (S (S (S (S (S (S (S (S (S (S
                       (S (S (S (S (S (S (S (S (S (S (S (S (S (S (S (S (S (S
                       (S (S (S (S (S (S (S (S (S (S (S (S (S (S (S (S (S (S
                       (S (S (S (S (S (S (S (S (S (S (S (S (S (S (S (S (S (S
                       (S (S (S (S (S (S (S (S (S (S (S (S (S (S (S (S (S (S
                       (S (S (S (S (S (S (S (S (S (S (S (S (S (S (S (S (S (S
                       (S (S (S (S (S (S (S (S (S (S
                       O))))))))))))))))))))))))))))))))))))))))))))))))))))))))))))))))))))))))))))))))))))))))))))))))))))))))))))))))))))))))))))))))))))))))) :: (
                     (t (S (S (S (S (S (S (S (S (S (S (S (S (S (S (S (S (S (S
                       (S (S (S (S (S (S (S (S (S (S (S (S (S (S (S (S (S (S
                       (S (S (S (S (S (S (S (S (S (S (S (S (S (S (S (S (S (S
                       (S (S (S (S (S (S (S (S (S (S (S (S (S (S (S (S (S (S
                       (S (S (S (S (S (S (S (S (S (S (S (S (S (S (S (S (S (S
                       (S (S (S (S (S (S (S (S (S (S (S (S (S (S (S (S (S (S
                       (S (S (S (S (S (S (S (S (S (S (S (S (S (S (S (S (S (S
                       (S (S (S (S (S (S (S (S
                       O))))))))))))))))))))))))))))))))))))))))))))))))))))))))))))))))))))))))))))))))))))))))))))))))))))))))))))))))))))))))))))))))))))))) :: (
                     (t (S (S (S (S (S (S (S (S (S (S (S (S (S (S (S (S (S (S
                       (S (S (S (S (S (S (S (S (S (S (S (S (S (S (S (S (S (S
                       (S (S (S (S (S (S (S (S (S (S (S (S (S (S (S (S (S (S
                       (S (S (S (S (S (S (S (S (S (S (S (S (S (S (S (S (S (S
                       (S (S (S (S (S (S (S (S (S (S (S (S (S (S (S (S (S (S
                       (S (S (S (S (S (S (S (S (S (S (S (S (S (S (S (S (S (S
                       (S (S (S (S (S (S (S (S (S (S (S (S (S (S (S (S (S (S
                       (S (S (S (S (S (S (S (S (S
                       O)))))))))))))))))))))))))))))))))))))))))))))))))))))))))))))))))))))))))))))))))))))))))))))))))))))))))))))))))))))))))))))))))))))))) :: []))))))
                     (match ev with
                      | Some _ ->
                        (t (S (S (S (S (S (S (S (S (S (S (S (S (S (S (S (S (S
                          (S (S (S (S (S (S (S (S (S (S (S (S (S (S (S (S (S
                          (S (S (S (S (S (S (S (S (S (S (S (S (S (S (S (S (S
                          (S (S (S (S (S (S (S (S (S (S (S (S (S (S (S (S (S
                          (S (S (S (S (S (S (S (S (S (S (S (S (S (S (S (S (S
                          (S (S (S (S (S (S (S (S (S (S (S (S (S (S (S (S (S
                          (S (S (S (S (S (S (S (S (S (S (S (S (S (S (S (S (S
                          (S (S (S (S (S (S (S (S (S (S (S (S (S (S
                          O)))))))))))))))))))))))))))))))))))))))))))))))))))))))))))))))))))))))))))))))))))))))))))))))))))))))))))))))))))))))))))))))))))))) :: []
                      | None -> []))
                   (t (S (S (S (S (S (S (S (S (S (S (S (S (S (S (S (S (S (S
                     (S (S (S (S (S (S (S (S (S (S (S (S (S (S (S (S (S (S (S
                     (S (S (S (S (S (S (S (S (S (S (S (S (S (S (S (S (S (S (S
                     (S (S (S (S (S (S (S (S (S (S (S (S (S (S (S (S (S (S (S
                     (S (S (S (S (S (S (S (S (S (S (S (S (S (S (S (S (S (S (S
                     (S (S (S (S (S (S (S (S (S (S (S (S (S (S (S (S (S (S (S
                     (S (S (S (S (S (S (S (S (S (S (S (S (S (S (S (S (S (S (S
                     (S (S (S (S
                     O)))))))))))))))))))))))))))))))))))))))))))))))))))))))))))))))))))))))))))))))))))))))))))))))))))))))))))))))))))))))))))))))))))))))))))))))
   | BanditTell ->
     let ev = opt_ev e nargs (S (S O)) in
     app ((IAsarray (O, O, false)) :: ((IAsarray ((S O), (S O),
       false)) :: []))
       (app
         (match ev with
          | Some r -> (IAsarray (r, r, false)) :: []
          | None -> [])
         (app
           (sched_archive_add copy (Nat.div variant (S (S O)))
             (Nat.eqb (Nat.modulo variant (S (S O))) (S O)) O (S O) ev)
           (app (sched_emitter_slices O (S O) ev)
             (emitter_tell (S O) false
               (app
                 ((t (S (S (S (S (S (S (S (S (S (S (S (S (S (S (S (S (S (S (S
                    (S (S (S (S (S (S (S (S (S (S (S (S (S (S (S (S (S (S (S
                    (S (S (S (S (S (S (S (S (S (S (S (S (S (S (S (S (S (S (S
                    (S (S (S (S (S (S (S (S (S (S (S (S (S (S (S (S (S (S (S
                    (S (S (S (S (S (S (S (S (S (S (S (S (S (S (S (S (S (S (S
                    (S (S (S (S (S (S (S (S (S (S (S (S (S (S (S (S (S (S (S
                    (S (S (S (S (S (S (S (S (S (S (S (S (S (S (S (S
                    O))))))))))))))))))))))))))))))))))))))))))))))))))))))))))))))))))))))))))))))))))))))))))))))))))))))))))))))))))))))))))))))))))) :: (
                 (t (S (S (S (S (S (S (S (S (S (S (S (S (S (S (S (S (S (S (S
                   (S (S (S (S (S (S (S (S (S (S (S (S (S (S (S (S (S (S (S
                   (S (S (S (S (S (S (S (S (S (S (S (S (S (S (S (S (S (S (S
                   (S (S (S (S (S (S (S (S (S (S (S (S (S (S (S (S (S (S (S
                   (S (S (S (S (S (S (S (S (S (S (S (S (S (S (S (S (S (S (S
                   (S (S (S (S (S (S (S (S (S (S (S (S (S (S (S (S (S (S (S
                   (S (S (S (S (S (S (S (S (S (S (S (S (S (S (S (S (S
                   O)))))))))))))))))))))))))))))))))))))))))))))))))))))))))))))))))))))))))))))))))))))))))))))))))))))))))))))))))))))))))))))))))))) :: (
                 (t (S (S (S (S (S (S (S (S (S (S (S (S (S (S (S (S (S (S (S
                   (S (S (S (S (S (S (S (S (S (S (S (S (S (S (S (S (S (S (S
                   (S (S (S (S (S (S (S (S (S (S (S (S (S (S (S (S (S (S (S
                   (S (S (S (S (S (S (S (S (S (S (S (S (S (S (S (S (S (S (S
                   (S (S (S (S (S (S (S (S (S (S (S (S (S (S (S (S (S (S (S
                   (S (S (S (S (S (S (S (S (S (S (S (S (S (S (S (S (S (S (S
                   (S (S (S (S (S (S (S (S (S (S (S (S (S (S (S (S (S (S
                   O))))))))))))))))))))))))))))))))))))))))))))))))))))))))))))))))))))))))))))))))))))))))))))))))))))))))))))))))))))))))))))))))))))) :: (
                 (t (S (S (S (S (S (S (S (S (S (S (S (S (S (S (S (S (S (S (S
                   (S (S (S (S (S (S (S (S (S (S (S (S (S (S (S (S (S (S (S
                   (S (S (S (S (S (S (S (S (S (S (S (S (S (S (S (S (S (S (S
                   (S (S (S (S (S (S (S (S (S (S (S (S (S (S (S (S (S (S (S
                   (S (S (S (S (S (S (S (S (S (S (S (S (S (S (S (S (S (S (S
                   (S (S (S (S (S (S (S (S (S (S (S (S (S (S (S (S (S (S (S
                   (S (S (S (S (S (S (S (S (S (S (S (S (S (S (S (S (S (S (S
                   (S
                   O))))))))))))))))))))))))))))))))))))))))))))))))))))))))))))))))))))))))))))))))))))))))))))))))))))))))))))))))))))))))))))))))))))))) :: (
                 (t (S (S (S (S (S (S (S (S (S (S (S (S (S (S (S (S (S (S (S
                   (S (S (S (S (S (S (S (S (S (S (S (S (S (S (S (S (S (S (S
                   (S (S (S (S (S (S (S (S (S (S (S (S (S (S (S (S (S (S (S
                   (S (S (S (S (S (S (S (S (S (S (S (S (S (S (S (S (S (S (S
                   (S (S (S (S (S (S (S (S (S (S (S (S (S (S (S (S (S (S (S
                   (S (S (S (S (S (S (S (S (S (S (S (S (S (S (S (S (S (S (S
                   (S (S (S (S (S (S (S (S (S (S (S (S (S (S (S (S (S (S (S
                   (S (S
                   O)))))))))))))))))))))))))))))))))))))))))))))))))))))))))))))))))))))))))))))))))))))))))))))))))))))))))))))))))))))))))))))))))))))))) :: [])))))
                 (match ev with
                  | Some _ ->
                    (t (S (S (S (S (S (S (S (S (S (S (S (S (S (S (S (S (S (S
                      (S (S (S (S (S (S (S (S (S (S (S (S (S (S (S (S (S (S
                      (S (S (S (S (S (S (S (S (S (S (S (S (S (S (S (S (S (S
                      (S (S (S (S (S (S (S (S (S (S (S (S (S (S (S (S (S (S
                      (S (S (S (S (S (S (S (S (S (S (S (S (S (S (S (S (S (S
                      (S (S (S (S (S (S (S (S (S (S (S (S (S (S (S (S (S (S
                      (S (S (S (S (S (S (S (S (S (S (S (S (S (S (S (S (S (S
                      (S (S (S (S (S (S (S
                      O)))))))))))))))))))))))))))))))))))))))))))))))))))))))))))))))))))))))))))))))))))))))))))))))))))))))))))))))))))))))))))))))))))))) :: []
                  | None -> []))))))
   | AdamStep ->
     (IAsarray ((t (S O)), O, false)) :: ((IOp ((t (S (S O))),
       ((t (S O)) :: []), (S (S (S (S (S (S (S (S (S (S (S (S (S (S (S (S (S
       (S (S (S (S (S (S (S (S O))))))))))))))))))))))))))) :: ((IGetSelf
       ((t (S (S (S O)))), f_i2)) :: ((IInplace ((t (S (S O))),
       ((t (S (S (S O)))) :: []), (S (S (S (S (S (S (S (S (S (S (S (S (S (S
       (S (S (S (S (S (S (S (S (S (S (S (S
       O)))))))))))))))))))))))))))) :: ((IOp ((t (S (S (S (S O))))),
       ((t (S (S O))) :: []), (S (S (S (S (S (S (S (S (S (S (S (S (S (S (S (S
       (S (S (S (S (S (S (S (S (S (S (S (S (S (S (S (S (S (S (S (S (S (S (S
       (S (S (S (S (S (S (S (S (S (S (S (S (S (S (S (S (S (S (S (S (S (S (S
       (S (S (S (S (S (S (S (S (S (S (S (S (S (S (S (S (S (S (S (S (S (S (S
       (S (S (S (S (S (S
       O))))))))))))))))))))))))))))))))))))))))))))))))))))))))))))))))))))))))))))))))))))))))))))) :: ((ISetSelf
       (f_i7, (t (S (S (S (S O))))))) :: ((IOp ((t (S (S (S (S (S O)))))),
       ((t (S (S (S (S O))))) :: []), (S (S (S (S (S (S (S (S (S (S (S (S (S
       (S (S (S (S (S (S (S (S (S (S (S (S (S (S (S (S (S (S (S (S (S (S (S
       (S (S (S (S (S (S (S (S (S (S (S (S (S (S (S (S (S (S (S (S (S (S (S
       (S (S (S (S (S (S (S (S (S (S (S (S (S (S (S (S (S (S (S (S (S (S (S
       (S (S (S (S (S (S (S (S (S (S
       O)))))))))))))))))))))))))))))))))))))))))))))))))))))))))))))))))))))))))))))))))))))))))))))) :: ((IInplace
       ((t (S (S (S O)))), ((t (S (S (S (S (S O)))))) :: []), (S (S (S (S (S
       (S (S (S (S (S (S (S (S (S (S (S (S (S (S (S (S (S (S (S (S (S (S
       O))))))))))))))))))))))))))))) :: [])))))))
   | GAscStep ->
     (IAsarray ((t (S O)), O, false)) :: ((IOp ((t (S (S O))),
       ((t (S O)) :: []), (S (S (S (S (S (S (S (S (S (S (S (S (S (S (S (S (S
       (S (S (S (S (S (S (S (S (S (S (S (S (S (S (S (S (S (S (S (S (S (S (S
       (S (S (S (S (S (S (S (S (S (S (S (S (S (S (S (S (S (S (S (S (S (S (S
       (S (S (S (S (S (S (S (S (S (S (S (S (S (S (S (S (S (S (S (S (S (S (S
       (S (S (S (S (S (S (S
       O))))))))))))))))))))))))))))))))))))))))))))))))))))))))))))))))))))))))))))))))))))))))))))))) :: ((IGetSelf
       ((t (S (S (S O)))), f_i2)) :: ((IInplace ((t (S (S (S O)))),
       ((t (S (S O))) :: []), (S (S (S (S (S (S (S (S (S (S (S (S (S (S (S (S
       (S (S (S (S (S (S (S (S (S (S (S
       O))))))))))))))))))))))))))))) :: [])))
   | ParallelAxes ->
     app ((IAsarray ((t (S O)), O, true)) :: [])
       (app
         (if Nat.eqb variant (S O)
          then if copy
               then (IOp ((t (S O)), ((t (S O)) :: []), (S (S (S (S (S (S (S
                      (S (S (S (S (S (S (S (S (S (S (S (S (S (S (S (S (S (S
                      (S (S (S (S (S (S (S (S (S (S (S (S (S (S (S (S (S (S
                      (S (S (S (S (S (S (S (S (S (S (S (S (S (S (S (S (S (S
                      (S (S (S (S (S (S (S (S (S (S (S (S (S (S (S (S (S (S
                      (S (S (S (S (S (S (S (S (S (S (S (S (S (S (S (S
                      O))))))))))))))))))))))))))))))))))))))))))))))))))))))))))))))))))))))))))))))))))))))))))))))))) :: []
               else (IInplace ((t (S O)), [], (S (S (S (S (S (S (S (S (S (S
                      (S (S (S (S (S (S (S (S (S (S (S (S (S (S (S (S (S (S
                      (S (S (S (S (S (S (S (S (S (S (S (S (S (S (S (S (S (S
                      (S (S (S (S (S (S (S (S (S (S (S (S (S (S (S (S (S (S
                      (S (S (S (S (S (S (S (S (S (S (S (S (S (S (S (S (S (S
                      (S (S (S (S (S (S (S (S (S (S (S (S (S
                      O))))))))))))))))))))))))))))))))))))))))))))))))))))))))))))))))))))))))))))))))))))))))))))))))) :: []
          else []) ((ICopy ((t (S (S O))), (t (S O)))) :: ((ICopy
         ((t (S (S (S O)))), (t (S O)))) :: [])))
   | HeatmapDf ->
     (IAsarray ((t (S O)), O, true)) :: ((ICopy ((t (S (S O))),
       (t (S O)))) :: ((ICopy ((t (S (S (S O)))), (t (S O)))) :: []))
   | _ ->
     (ICopy ((t (S O)), O)) :: ((ISetSelf (f_i2, (t (S O)))) :: ((IOp
       ((t (S (S O))), ((t (S O)) :: []), (S (S (S (S (S (S (S (S (S (S (S (S
       (S (S (S (S (S (S (S (S (S (S (S (S (S (S (S (S (S (S (S (S (S (S (S
       (S (S (S (S (S (S (S (S (S (S (S (S (S (S (S (S (S (S (S (S (S (S (S
       (S (S (S (S (S (S (S (S (S (S (S (S (S (S (S (S (S (S (S (S (S (S (S
       (S (S (S (S (S (S (S (S (S
       O)))))))))))))))))))))))))))))))))))))))))))))))))))))))))))))))))))))))))))))))))))))))))))) :: ((ISetSelf
       (f_i7, (t (S (S O))))) :: []))))

(** val bufs : env -> nat list **)

let bufs e =
  map (fun p -> (snd p).vbuf) e

(** val arg_mutated : astate -> nat -> bool **)

let arg_mutated a i =
  memb (caller_buf i) a.a_mut

(** val arg_retained : astate -> nat -> bool **)

let arg_retained a i =
  memb (caller_buf i) (bufs a.a_self)

(** val arg_returned : astate -> nat -> bool **)

let arg_returned a i =
  existsb (fun v -> Nat.eqb v.vbuf (caller_buf i)) a.a_ret

(** val arg_exposed : astate -> nat -> bool **)

let arg_exposed a i =
  existsb (fun v -> Nat.eqb v.vbuf (caller_buf i)) a.a_exp

(** val rw_store : astate -> bool **)

let rw_store a =
  existsb (fun v -> (&&) v.vw (is_store_buf v.vbuf)) a.a_ret

(** val ro_store : astate -> bool **)

let ro_store a =
  existsb (fun v -> (&&) (negb v.vw) (is_store_buf v.vbuf)) a.a_ret

(** val rw_self : astate -> bool **)

let rw_self a =
  existsb (fun v ->
    (&&) ((&&) v.vw (negb (is_store_buf v.vbuf)))
      (memb v.vbuf (bufs a.a_self))) a.a_ret

(** val exp_store : astate -> bool **)

let exp_store a =
  existsb (fun v -> is_store_buf v.vbuf) a.a_exp

(** val row_at : 'a1 -> 'a1 store -> nat -> 'a1 **)

let row_at rdflt s i =
  match get_row s i with
  | Some r -> r
  | None -> rdflt

(** val column :
    (nat -> 'a1 -> 'a2 list) -> 'a1 -> 'a1 store -> nat -> 'a2 list list **)

let column proj rdflt s fl =
  map (fun i -> proj fl (row_at rdflt s i)) s.olist

(** val read_dict :
    nat list -> (nat -> 'a1 -> 'a2 list) -> 'a1 -> 'a1 store -> (nat * 'a2
    list list) list * nat list **)

let read_dict fields proj rdflt s =
  ((map (fun fl -> (fl, (column proj rdflt s fl))) fields), s.olist)

(** val read_tuple :
    nat list -> (nat -> 'a1 -> 'a2 list) -> 'a1 -> 'a1 store -> 'a2 list list
    list * nat list **)

let read_tuple fields proj rdflt s =
  ((map (column proj rdflt s) fields), s.olist)

(** val read_single :
    (nat -> 'a1 -> 'a2 list) -> 'a1 -> 'a1 store -> nat -> 'a2 list list **)

let read_single =
  column

type 'v elite = nat * (nat * 'v list) list

(** val transpose_rows :
    nat list -> (nat * 'a1 list list) list -> 'a1 elite list **)

let transpose_rows idx cols =
  map (fun k -> ((nth k idx O),
    (map (fun c -> ((fst c), (nth k (snd c) []))) cols))) (seq O (length idx))

(** val elites_of_dict :
    ((nat * 'a1 list list) list * nat list) -> 'a1 elite list **)

let elites_of_dict d =
  transpose_rows (snd d) (fst d)

(** val elites_of_tuple :
    nat list -> ('a1 list list list * nat list) -> 'a1 elite list **)

let elites_of_tuple fields t0 =
  transpose_rows (snd t0) (combine fields (fst t0))

(** val iter_collect :
    nat list -> (nat -> 'a1 -> 'a2 list) -> 'a1 -> 'a1 store -> iter -> nat
    -> 'a2 elite list **)

let rec iter_collect fields proj rdflt s it = function
| O -> []
| S k ->
  let (it', i0) = iter_next s it in
  (match i0 with
   | Yield (i, r) ->
     (i,
       (map (fun fl -> (fl,
         (proj fl (match r with
                   | Some x -> x
                   | None -> rdflt)))) fields)) :: (iter_collect fields proj
                                                     rdflt s it' k)
   | _ -> [])

(** val read_iter :
    nat list -> (nat -> 'a1 -> 'a2 list) -> 'a1 -> 'a1 store -> 'a2 elite list **)

let read_iter fields proj rdflt s =
  iter_collect fields proj rdflt s (iter_new s) (S (len s))

(** val pandas_columns :
    'a2 -> nat list -> (nat -> nat) -> (nat -> 'a1 -> 'a2 list) -> 'a1 -> 'a1
    store -> ((nat * nat) * 'a2 list) list **)

let pandas_columns dflt fields dim proj rdflt s =
  flat_map (fun fl ->
    map (fun j -> ((fl, j),
      (map (fun v -> nth j v dflt) (column proj rdflt s fl))))
      (seq O (dim fl))) fields

(** val read_pandas :
    'a2 -> nat list -> (nat -> nat) -> (nat -> 'a1 -> 'a2 list) -> 'a1 -> 'a1
    store -> ((nat * nat) * 'a2 list) list * nat list **)

let read_pandas dflt fields dim proj rdflt s =
  ((pandas_columns dflt fields dim proj rdflt s), s.olist)

(** val df_get_field :
    'a1 -> (((nat * nat) * 'a1 list) list * nat list) -> nat -> 'a1 list list **)

let df_get_field dflt df fl =
  let cols = filter (fun c -> Nat.eqb (fst (fst c)) fl) (fst df) in
  map (fun k -> map (fun c -> nth k (snd c) dflt) cols)
    (seq O (length (snd df)))

(** val df_iterelites :
    'a1 -> nat list -> (((nat * nat) * 'a1 list) list * nat list) -> 'a1
    elite list **)

let df_iterelites dflt fields df =
  transpose_rows (snd df)
    (map (fun fl -> (fl, (df_get_field dflt df fl))) fields)

(** val dlayout : sx -> layout option **)

let dlayout = function
| SZ z0 ->
  (match z0 with
   | Z0 -> Some ExactNdarray
   | Zpos p ->
     (match p with
      | XI p0 -> (match p0 with
                  | XH -> Some OtherDtype
                  | _ -> None)
      | XO p0 ->
        (match p0 with
         | XI _ -> None
         | XO p1 -> (match p1 with
                     | XH -> Some PyList
                     | _ -> None)
         | XH -> Some NonContiguous)
      | XH -> Some ViewOf)
   | Zneg _ -> None)
| SL _ -> None

(** val effects : astate -> nat -> sx **)

let effects a n =
  SL ((SL
    (map (fun i -> SL
      ((ebool (arg_mutated a i)) :: ((ebool (arg_retained a i)) :: ((ebool
                                                                    (arg_returned
                                                                    a i)) :: (
      (ebool (arg_exposed a i)) :: []))))) (seq O n))) :: ((SL
    ((ebool (rw_store a)) :: ((ebool (ro_store a)) :: ((ebool (rw_self a)) :: (
    (ebool (exp_store a)) :: ((ebool a.a_halt) :: [])))))) :: []))

(** val run_alias : bool -> sx -> sx -> sx -> sx **)

let run_alias asis e v la =
  match dnat e with
  | Some en ->
    (match dnat v with
     | Some vn ->
       (match dlist dlayout la with
        | Some l ->
          (match ep_of_nat en with
           | Some ee ->
             let n = length l in
             if (&&) (existsb (Nat.eqb n) (arities ee))
                  (Nat.ltb vn (n_variants ee))
             then effects (arun (prog_gen (negb asis) ee vn n) (a_init l)) n
             else sx_fail
           | None -> sx_fail)
        | None -> sx_fail)
     | None -> sx_fail)
  | None -> sx_fail

(** val rp_fields : nat list **)

let rp_fields =
  O :: ((S O) :: ((S (S O)) :: []))

(** val rp_dim : nat -> nat **)

let rp_dim = function
| O -> S (S (S O))
| S n -> (match n with
          | O -> S O
          | S _ -> S (S O))

(** val rp_proj : nat -> z -> z list **)

let rp_proj fl r =
  match fl with
  | O ->
    (Z.mul (Zpos (XO XH)) r) :: ((Z.add (Z.mul (Zpos (XO XH)) r) (Zpos XH)) :: (
      (Z.opp (Z.mul (Zpos (XO XH)) r)) :: []))
  | S n ->
    (match n with
     | O -> r :: []
     | S _ ->
       (Z.mul (Zpos (XO (XO XH))) r) :: ((Z.add (Z.mul (Zpos (XO (XO XH))) r)
                                           (Zpos XH)) :: []))

(** val dec_field : nat -> z list -> z **)

let dec_field fl v =
  match fl with
  | O ->
    (match v with
     | [] -> Zneg XH
     | a :: l ->
       (match l with
        | [] -> Zneg XH
        | b :: l0 ->
          (match l0 with
           | [] -> Zneg XH
           | c :: l1 ->
             (match l1 with
              | [] ->
                if (&&)
                     ((&&) (Z.eqb b (Z.add a (Zpos XH))) (Z.eqb c (Z.opp a)))
                     (Z.eqb (Z.modulo a (Zpos (XO XH))) Z0)
                then Z.div a (Zpos (XO XH))
                else Zneg XH
              | _ :: _ -> Zneg XH))))
  | S n ->
    (match n with
     | O ->
       (match v with
        | [] -> Zneg XH
        | a :: l -> (match l with
                     | [] -> a
                     | _ :: _ -> Zneg XH))
     | S n0 ->
       (match n0 with
        | O ->
          (match v with
           | [] -> Zneg XH
           | a :: l ->
             (match l with
              | [] -> Zneg XH
              | b :: l0 ->
                (match l0 with
                 | [] ->
                   if (&&) (Z.eqb b (Z.add a (Zpos XH)))
                        (Z.eqb (Z.modulo a (Zpos (XO (XO XH)))) Z0)
                   then Z.div a (Zpos (XO (XO XH)))
                   else Zneg XH
                 | _ :: _ -> Zneg XH)))
        | S _ -> Zneg XH))

(** val dec_elite : z elite -> sx **)

let dec_elite e =
  let ids = map (fun p -> dec_field (fst p) (snd p)) (snd e) in
  let id =
    match ids with
    | [] -> Zneg XH
    | a :: l ->
      (match l with
       | [] -> Zneg XH
       | b :: l0 ->
         (match l0 with
          | [] -> Zneg XH
          | c :: l1 ->
            (match l1 with
             | [] -> if (&&) (Z.eqb a b) (Z.eqb b c) then a else Zneg XH
             | _ :: _ -> Zneg XH)))
  in
  SL ((enat (fst e)) :: ((ez id) :: []))

(** val rp_run : z store -> sx list -> z store option **)

let rec rp_run s = function
| [] -> Some s
| s0 :: t0 ->
  (match s0 with
   | SZ _ -> None
   | SL l ->
     (match l with
      | [] -> None
      | s1 :: l0 ->
        (match s1 with
         | SZ z0 ->
           (match z0 with
            | Z0 ->
              (match l0 with
               | [] -> None
               | i :: l1 ->
                 (match l1 with
                  | [] -> None
                  | r :: l2 ->
                    (match l2 with
                     | [] ->
                       (match dnat i with
                        | Some ii ->
                          (match dz r with
                           | Some rr ->
                             rp_run
                               (fst (add0 s (ii :: []) (rr :: []) [] true)) t0
                           | None -> None)
                        | None -> None)
                     | _ :: _ -> None)))
            | Zpos p ->
              (match p with
               | XH ->
                 (match l0 with
                  | [] -> rp_run (clear s) t0
                  | _ :: _ -> None)
               | _ -> None)
            | Zneg _ -> None)
         | SL _ -> None)))

(** val run_readpaths : sx -> sx -> sx **)

let run_readpaths c ops =
  match dnat c with
  | Some cc ->
    (match ops with
     | SZ _ -> sx_fail
     | SL l ->
       (match rp_run (init cc) l with
        | Some s ->
          let df = read_pandas Z0 rp_fields rp_dim rp_proj Z0 s in
          SL
          ((elist dec_elite
             (elites_of_dict (read_dict rp_fields rp_proj Z0 s))) :: (
          (elist dec_elite
            (elites_of_tuple rp_fields (read_tuple rp_fields rp_proj Z0 s))) :: (
          (elist dec_elite
            (transpose_rows s.olist
              (map (fun fl -> (fl, (read_single rp_proj Z0 s fl))) rp_fields))) :: (
          (elist dec_elite (read_iter rp_fields rp_proj Z0 s)) :: ((elist
                                                                    (fun p ->
                                                                    SL
                                                                    ((enat
                                                                    (fst p)) :: (
                                                                    (ez
                                                                    (snd p)) :: [])))
                                                                    (combine
                                                                    (snd df)
                                                                    (match 
                                                                    filter
                                                                    (fun c0 ->
                                                                    Nat.eqb
                                                                    (fst
                                                                    (fst c0))
                                                                    (S O))
                                                                    (fst df) with
                                                                    | [] -> []
                                                                    | c0 :: _ ->
                                                                    snd c0))) :: (
          (elist dec_elite
            (transpose_rows (snd df)
              (map (fun fl -> (fl, (df_get_field Z0 df fl))) rp_fields))) :: (
          (elist dec_elite (df_iterelites Z0 rp_fields df)) :: [])))))))
        | None -> sx_fail))
  | None -> sx_fail

(** val run_C12 : sx -> sx **)

let run_C12 = function
| SZ _ -> sx_fail
| SL l ->
  (match l with
   | [] -> sx_fail
   | s :: l0 ->
     (match s with
      | SZ z0 ->
        (match z0 with
         | Z0 ->
           (match l0 with
            | [] -> sx_fail
            | e :: l1 ->
              (match l1 with
               | [] -> sx_fail
               | v :: l2 ->
                 (match l2 with
                  | [] -> sx_fail
                  | la :: l3 ->
                    (match l3 with
                     | [] -> run_alias false e v la
                     | _ :: _ -> sx_fail))))
         | Zpos p ->
           (match p with
            | XI _ -> sx_fail
            | XO p0 ->
              (match p0 with
               | XH ->
                 (match l0 with
                  | [] -> sx_fail
                  | e :: l1 ->
                    (match l1 with
                     | [] -> sx_fail
                     | v :: l2 ->
                       (match l2 with
                        | [] -> sx_fail
                        | la :: l3 ->
                          (match l3 with
                           | [] -> run_alias true e v la
                           | _ :: _ -> sx_fail))))
               | _ -> sx_fail)
            | XH ->
              (match l0 with
               | [] -> sx_fail
               | c :: l1 ->
                 (match l1 with
                  | [] -> sx_fail
                  | ops :: l2 ->
                    (match l2 with
                     | [] -> run_readpaths c ops
                     | _ :: _ -> sx_fail))))
         | Zneg _ -> sx_fail)
      | SL _ -> sx_fail))

(** val err_code : err -> z **)

let err_code = function
| ValueError -> Zpos XH
| IndexError -> Zpos (XO XH)
| RuntimeError -> Zpos (XI XH)
| KeyError -> Zpos (XO (XO XH))
| TypeError -> Zpos (XI (XO XH))
| StopIteration -> Zpos (XO (XI XH))
| OtherError -> Zpos (XI (XI XH))

(** val eres : ('a1 -> sx) -> 'a1 result -> sx **)

let eres f = function
| Ok a -> SL ((SZ Z0) :: ((f a) :: []))
| Err e -> SL ((SZ (err_code e)) :: [])

(** val erow : z option -> sx **)

let erow r =
  eopt ez r

type st = { s_store : z store; s_iters : iter list }

(** val const_transform : nat list -> z list -> z transform **)

let const_transform i' x' _ _ _ =
  (i', x')

(** val dtransform : sx -> z transform option **)

let dtransform = function
| SZ _ -> None
| SL l ->
  (match l with
   | [] -> None
   | a :: l0 ->
     (match l0 with
      | [] -> None
      | b :: l1 ->
        (match l1 with
         | [] ->
           (match dlist dnat a with
            | Some i' ->
              (match dlist dz b with
               | Some x' -> Some (const_transform i' x')
               | None -> None)
            | None -> None)
         | _ :: _ -> None)))

(** val run_op : st -> sx -> st * sx **)

let run_op s o =
  let keep = fun out -> (s, out) in
  (match o with
   | SZ _ -> keep sx_fail
   | SL l ->
     (match l with
      | [] -> keep sx_fail
      | s0 :: l0 ->
        (match s0 with
         | SZ z0 ->
           (match z0 with
            | Z0 ->
              (match l0 with
               | [] -> keep sx_fail
               | a :: l1 ->
                 (match l1 with
                  | [] -> keep sx_fail
                  | b :: l2 ->
                    (match l2 with
                     | [] -> keep sx_fail
                     | k :: l3 ->
                       (match l3 with
                        | [] -> keep sx_fail
                        | ts :: l4 ->
                          (match l4 with
                           | [] ->
                             (match dlist dnat a with
                              | Some idxs ->
                                (match dlist dz b with
                                 | Some xs ->
                                   (match dbool k with
                                    | Some kk ->
                                      (match dlist dtransform ts with
                                       | Some tl ->
                                         let (s', r) =
                                           add0 s.s_store idxs xs tl kk
                                         in
                                         ({ s_store = s'; s_iters =
                                         s.s_iters },
                                         (eres (fun _ -> SL []) r))
                                       | None -> keep sx_fail)
                                    | None -> keep sx_fail)
                                 | None -> keep sx_fail)
                              | None -> keep sx_fail)
                           | _ :: _ -> keep sx_fail)))))
            | Zpos p ->
              (match p with
               | XI p0 ->
                 (match p0 with
                  | XI p1 ->
                    (match p1 with
                     | XH ->
                       (match l0 with
                        | [] ->
                          ({ s_store = (from_raw (as_raw s.s_store));
                            s_iters = s.s_iters }, (SL ((SZ Z0) :: [])))
                        | _ :: _ -> keep sx_fail)
                     | _ -> keep sx_fail)
                  | XO p1 ->
                    (match p1 with
                     | XH ->
                       (match l0 with
                        | [] ->
                          ({ s_store = s.s_store; s_iters =
                            (app s.s_iters ((iter_new s.s_store) :: [])) },
                            (enat (length s.s_iters)))
                        | _ :: _ -> keep sx_fail)
                     | _ -> keep sx_fail)
                  | XH ->
                    (match l0 with
                     | [] -> keep sx_fail
                     | a :: l1 ->
                       (match l1 with
                        | [] ->
                          (match dlist dnat a with
                           | Some idxs ->
                             keep
                               (eres
                                 (elist (fun p1 -> SL
                                   ((ebool (fst p1)) :: ((erow (snd p1)) :: []))))
                                 (retrieve s.s_store idxs))
                           | None -> keep sx_fail)
                        | _ :: _ -> keep sx_fail)))
               | XO p0 ->
                 (match p0 with
                  | XI p1 ->
                    (match p1 with
                     | XH ->
                       (match l0 with
                        | [] -> keep sx_fail
                        | k :: l1 ->
                          (match l1 with
                           | [] ->
                             (match dnat k with
                              | Some kk ->
                                (match nth_error s.s_iters kk with
                                 | Some it ->
                                   let (it', out) = iter_next s.s_store it in
                                   ({ s_store = s.s_store; s_iters =
                                   (upd s.s_iters kk it') },
                                   (match out with
                                    | Yield (i, r) ->
                                      SL ((SZ
                                        Z0) :: ((enat i) :: ((erow r) :: [])))
                                    | Stop ->
                                      SL ((SZ (Zpos (XO (XI XH)))) :: [])
                                    | Modified ->
                                      SL ((SZ (Zpos (XI XH))) :: [])))
                                 | None -> keep sx_fail)
                              | None -> keep sx_fail)
                           | _ :: _ -> keep sx_fail))
                     | _ -> keep sx_fail)
                  | XO p1 ->
                    (match p1 with
                     | XI _ -> keep sx_fail
                     | XO p2 ->
                       (match p2 with
                        | XH ->
                          (match l0 with
                           | [] ->
                             let t0 = s.s_store in
                             keep (SL
                               ((enat t0.cap) :: ((enat (len t0)) :: (
                               (elist enat t0.olist) :: ((elist ebool t0.occ) :: (
                               (enat t0.nadd) :: ((enat t0.nclear) :: [])))))))
                           | _ :: _ -> keep sx_fail)
                        | _ -> keep sx_fail)
                     | XH ->
                       (match l0 with
                        | [] ->
                          keep
                            (elist (fun p2 -> SL
                              ((enat (fst p2)) :: ((erow (snd p2)) :: [])))
                              (data s.s_store))
                        | _ :: _ -> keep sx_fail))
                  | XH ->
                    (match l0 with
                     | [] -> keep sx_fail
                     | c :: l1 ->
                       (match l1 with
                        | [] ->
                          (match dnat c with
                           | Some cc ->
                             let (s', r) = resize s.s_store cc in
                             ({ s_store = s'; s_iters = s.s_iters },
                             (eres (fun _ -> SL []) r))
                           | None -> keep sx_fail)
                        | _ :: _ -> keep sx_fail)))
               | XH ->
                 (match l0 with
                  | [] ->
                    ({ s_store = (clear s.s_store); s_iters = s.s_iters },
                      (SL ((SZ Z0) :: [])))
                  | _ :: _ -> keep sx_fail))
            | Zneg _ -> keep sx_fail)
         | SL _ -> keep sx_fail)))

(** val run_ops : st -> sx list -> sx list **)

let rec run_ops s = function
| [] -> []
| o :: t0 -> let (s', out) = run_op s o in out :: (run_ops s' t0)

(** val run_C13 : sx -> sx **)

let run_C13 = function
| SZ _ -> sx_fail
| SL l ->
  (match l with
   | [] -> sx_fail
   | c :: l0 ->
     (match l0 with
      | [] -> sx_fail
      | s :: l1 ->
        (match s with
         | SZ _ -> sx_fail
         | SL ops ->
           (match l1 with
            | [] ->
              (match dnat c with
               | Some cc ->
                 SL (run_ops { s_store = (init cc); s_iters = [] } ops)
               | None -> sx_fail)
            | _ :: _ -> sx_fail))))
